"""C10 - normal forms (NNF, prenex, AIG, TimesDistributor), top-level partitioning / equality
propagation and the two Boolean quantifier-elimination procedures preserve the value of the
formula and produce the advertised shape.

Proof part: coq/props/C10.v (theorems about the Gallina models, all terms / all interpretations).
Tie: every model is run inside Coq on generated inputs together with the implementation's
outputs (exact structural equality; And/Or argument order and quantifier variable order are
compared as multisets only where the implementation builds them from Python sets).
Search oracle (independent of the models): harness/refeval.py evaluates input and output under
random interpretations with exact quantifier evaluation, plus shape predicates written here.
"""
import json
import os
import random
import time
import traceback

import pysmt.operators as op
from pysmt.environment import Environment, push_env, pop_env
from pysmt.typing import BOOL, INT, REAL, BVType

from . import lib, refeval, termcases, tocoq
from .gen.formulas import Config, FormulaGen

TRUSTED = [
    "Coq 8.16.1 kernel; vm_compute only inside the generated correspondence case files; no native_compute",
    "core/Sem.v is the specification of 'value under an interpretation' (trusted, cross-validated elsewhere)",
    "hand models models/{Nnf,Aig,Partition,Qelim,TimesDist}.v of pysmt/rewritings.py and pysmt/solvers/qelim.py, "
    "tied to the repository under test by this run's correspondence (counts below); models/C10Local.v are local stand-ins for "
    "FormulaManager constructors and the symbol->term MGSubstituter (same definitions as models/Ctors.v on well-formed nodes)",
    "models/Prenex.v (PrenexNormalizer) is compared with the implementation up to a consistent renaming of the fresh FV-names "
    "(Prenex.canon) and up to the order of quantified variables; inputs without array theory (a Boolean array read makes the walker raise)",
    "models/PropTop.v (propagate_toplevel with do_simplify=False: conjunct scan, DisjointSet with ranking, sigma, substitution, "
    "re-asserted equalities) takes the node-id order of the equalities' arguments from the implementation (node ids are not part "
    "of a term) and is compared up to the order of And arguments; inputs without Div/Pow/ToReal/arrays/strings (normalising constructors); "
    "do_simplify=True is tied through C01's simplifier model (models/Simplifier.v, order oracle = orders observed while a fresh "
    "Simplifier runs on the unsimplified result, as in harness/c01.py) applied to the implementation's unsimplified result, and through "
    "the composed model propagate_toplevel_simp whenever the model's unsimplified result equals the implementation's node for node",
    "the memoised DAG walk is replaced by structural recursion (licensed by DagWalk_proofs.walk_refines, C20/C14)",
    "tocoq.py (FNode -> Gallina literal); refeval.py (independent evaluator) for the SEARCH oracle only",
]
ASSUMPTIONS = [
    "value-equality theorems are for well-sorted interpretations (wf_interp) and Boolean skeletons whose atoms are syntactically "
    "Boolean (boolish: Boolean symbols, Boolean-valued applications, Boolean constants, theory relations); the truth-value forms "
    "(holds I (X t) <-> holds I t) need neither",
    "Boolean-sorted array reads as atoms are outside the theorems' fragment (NNFizer asserts on them)",
    "identity-walker based models (Qelim, TimesDist) are compared on inputs without array values that carry assignments "
    "(FormulaManager.Array drops default-valued entries and orders by id(): not modelled) and on bounded tree sizes",
    "Shannon / self-substitution theorems: Boolean bound variables, quantifier-free atoms, constructor-normal nodes (qe_frag); "
    "TimesDistributor theorem: +,-,* over leaves fixed by the walker, all denoting Int (resp. Real) under I (arith, kinded_*)",
    "propagate_toplevel: the SEARCH oracle runs both do_simplify=False and the default do_simplify=True",
]

# size of the directed families drawn on every quick run (the whole family is used on escalation)
DIRECTED = int(os.environ.get("VERIF_C10_DIRECTED", "300"))

CONNECTIVES = (op.AND, op.OR, op.NOT, op.IMPLIES, op.IFF)


# ------------------------------------------------------------------------------------------
# generation of Boolean skeletons
# ------------------------------------------------------------------------------------------

class SkelGen(object):
    """Boolean structure (and/or/not/implies/iff/Boolean ite/quantifiers, with shared sub-DAGs and
    re-used bound names, hence shadowing) over atoms drawn from gen.formulas.FormulaGen."""

    def __init__(self, env, rnd, qtypes, atom_cfg=None, quantifiers=True, ite=True):
        self.env = env
        self.mgr = env.formula_manager
        self.rnd = rnd
        cfg = atom_cfg or Config(quantifiers=False, widths=(1, 2, 3), max_arity=3)
        self.g = FormulaGen(env, rnd, cfg)
        self.qtypes = [t for t in qtypes if t in self.g.syms]
        self.quantifiers = quantifiers and bool(self.qtypes)
        self.ite = ite
        self.pool = []
        self.bvars = [self.mgr.Symbol("b%d" % i, BOOL) for i in range(3)] + self.g.syms[BOOL]

    def atom(self):
        r = self.rnd
        k = r.random()
        if k < 0.35:
            return r.choice(self.bvars)
        if k < 0.42:
            return self.mgr.Bool(r.random() < 0.5)
        return self.g.gen(BOOL, r.choice([1, 1, 2, 3]))

    def gen(self, d):
        r, m = self.rnd, self.mgr
        if d <= 0:
            return self.atom()
        if self.pool and r.random() < 0.25:
            return r.choice(self.pool)
        ops = ["and", "or", "not", "not", "implies", "iff", "and", "or"]
        if self.ite:
            ops += ["ite", "ite"]
        if self.quantifiers:
            ops += ["forall", "exists", "forall", "exists"]
        k = r.choice(ops)
        g = lambda: self.gen(d - 1 - (1 if r.random() < 0.25 else 0))
        if k == "and":
            f = m.And([g() for _ in range(r.choice([2, 2, 3, 4, 1, 0]))])
        elif k == "or":
            f = m.Or([g() for _ in range(r.choice([2, 2, 3, 4, 1, 0]))])
        elif k == "not":
            f = m.Not(g())
        elif k == "implies":
            f = m.Implies(g(), g())
        elif k == "iff":
            f = m.Iff(g(), g())
        elif k == "ite":
            f = m.Ite(g(), g(), g())
        else:
            nv = r.choice([1, 1, 2, 2, 3])
            nv = min(nv, getattr(self, "max_qvars", 3))
            vs = []
            for _ in range(nv):
                t = r.choice(self.qtypes)
                pool = self.bvars if t == BOOL else self.g.syms[t]
                vs.append(r.choice(pool))
            if r.random() < 0.8:
                vs = list(dict.fromkeys(vs))
            body = g()
            f = (m.ForAll if k == "forall" else m.Exists)(vs, body)
        self.pool.append(f)
        return f


# ------------------------------------------------------------------------------------------
# shape predicates (the property's own words, written directly)
# ------------------------------------------------------------------------------------------

def _is_skel(n):
    return n.node_type() in CONNECTIVES or n.is_quantifier() or n.is_ite()


def nnf_shape(f):
    stack = [f]
    while stack:
        n = stack.pop()
        if n.is_and() or n.is_or() or n.is_quantifier():
            stack.extend(n.args())
        elif n.is_not():
            if _is_skel(n.arg(0)):
                return False
        elif n.is_implies() or n.is_iff() or n.is_ite():
            return False
    return True


def aig_shape(f):
    stack = [f]
    while stack:
        n = stack.pop()
        if n.is_and() or n.is_not() or n.is_quantifier():
            stack.extend(n.args())
        elif n.is_or() or n.is_implies() or n.is_iff() or n.is_ite():
            return False
    return True


def tree_size(f):
    """Number of nodes of the tree unfolding (the Coq model works on trees)."""
    memo = {}
    for n in tocoq.topo([f]):
        memo[n] = 1 + sum(memo[c] for c in n.args())
    return memo[f]


def has_array_assignments(f):
    """FormulaManager.Array (dropping default-valued entries, ordering by id()) is not modelled by
    C10Local.rebuild: identity-walker based rewriters are compared on inputs without such nodes."""
    return any(n.node_type() == op.ARRAY_VALUE and len(n.args()) > 1 for n in tocoq.topo([f]))


def quantifier_free(f):
    return not any(n.is_quantifier() for n in tocoq.topo([f]))


def prenex_shape(f):
    while f.is_quantifier():
        f = f.arg(0)
    return quantifier_free(f)


def has_negated_bool_ite(f):
    """A Boolean ITE reached under negative polarity by NNF's descent (the known defect's trigger)."""
    seen = set()
    stack = [(f, True)]
    while stack:
        n, pos = stack.pop()
        if (n, pos) in seen:
            continue
        seen.add((n, pos))
        if n.is_not():
            stack.append((n.arg(0), not pos))
        elif n.is_and() or n.is_or() or n.is_quantifier():
            stack.extend((a, pos) for a in n.args())
        elif n.is_implies():
            stack.append((n.arg(0), not pos))
            stack.append((n.arg(1), pos))
        elif n.is_iff():
            for a in n.args():
                stack.append((a, True))
                stack.append((a, False))
        elif n.is_ite():
            if not pos:
                return True
            i, t, e = n.args()
            stack += [(i, True), (i, False), (t, True), (e, True)]
    return False


# ------------------------------------------------------------------------------------------
# oracle
# ------------------------------------------------------------------------------------------

def differs(rnd, f, g, n):
    """First exact difference between f and g under n random interpretations, or None."""
    try:
        its = refeval.random_interps(rnd, [f, g], n, div0="raise")
        return refeval.first_difference(f, g, its, exact_only=True)
    except refeval.RefEvalError as ex:
        return ("oracle-error", repr(ex))


def exact_somewhere(rnd, f, n=2):
    try:
        for it in refeval.random_interps(rnd, [f], n):
            try:
                if refeval.evaluate_ex(f, it)[1]:
                    return True
            except refeval.DivisionByZeroEvaluated:
                pass
    except refeval.RefEvalError:
        pass
    return False


def describe(d):
    if isinstance(d, tuple):
        return {"oracle_error": d[1]}
    return {"interpretation": d.interp.describe(), "value_of_input": str(d.value_f), "value_of_output": str(d.value_g)}


def differs_strong(rnd, f, g, nrandom=40):
    """Escalated oracle: ALL interpretations when the free symbols are finite-sorted (<= 512 of them),
    otherwise `nrandom` random ones over a wider integer range."""
    try:
        its = refeval.exhaustive_interps([f, g], limit=512)
        if its is None:
            its = refeval.random_interps(rnd, [f, g], nrandom // 2, div0="raise") + \
                refeval.random_interps(rnd, [f, g], nrandom // 2, div0="raise", int_range=(-3, 3))
        return refeval.first_difference(f, g, its, exact_only=True)
    except refeval.RefEvalError as ex:
        return ("oracle-error", repr(ex))


# ------------------------------------------------------------------------------------------
# directed families (second-round seeds C10-D / C10-E)
# ------------------------------------------------------------------------------------------

def shared_quantified_family(m, rnd, limit=None):
    """DAG sharing of QUANTIFIED sub-formulas: one quantified node I = Q y. body (x, z free in it)
    occurs 2-3 times in one formula under different contexts - under a same-kind binder of its free
    variable x, under the other kind, under Not, bare, in either position of Implies / Iff / Ite -
    in every order of the occurrences among the arguments of And / Or.  Boolean and BV1 variables
    only, so the reference evaluator decides every case exactly and exhaustively.
    Size of the full family: 2 sorts x 2 kinds x 6 bodies x (11*11 ordered pairs x 2 connectives
    + 240 sampled ordered triples) = 11 568 formulas; `limit` draws a seeded sample of it."""
    out = []
    for sort in ("bool", "bv1"):
        if sort == "bool":
            x, y, z, w = [m.Symbol("q%s" % c, BOOL) for c in "xyzw"]
            ax, ay, az, aw = x, y, z, w
        else:
            x, y, z, w = [m.Symbol("v%s" % c, BVType(1)) for c in "xyzw"]
            one = m.BV(1, 1)
            ax, ay, az, aw = [m.Equals(v, one) for v in (x, y, z, w)]
        bodies = [m.And(ax, ay), m.Or(m.Not(ax), m.Iff(ay, az)), m.Iff(ax, ay), m.Implies(ay, ax),
                  m.Or(m.And(ax, ay), az), m.Ite(ay, ax, m.Not(az))]
        for ex in (True, False):
            Q, Qo = (m.Exists, m.ForAll) if ex else (m.ForAll, m.Exists)
            for body in bodies:
                I = Q([y], body)
                ctxs = [I, m.Not(I), Q([x], I), Qo([x], I), m.Not(Q([x], I)), Q([x], m.Not(I)),
                        m.Implies(I, az), m.Implies(aw, I), m.Iff(I, aw), m.Ite(I, az, aw), m.Ite(aw, I, Q([x], I))]
                for c1 in ctxs:
                    for c2 in ctxs:
                        out.append(m.And(c1, c2))
                        out.append(m.Or(c1, c2))
                trip = random.Random(len(out))
                for _ in range(240):
                    cs = [trip.choice(ctxs) for _ in range(3)]
                    out.append(trip.choice([m.And, m.Or])(cs))
    if limit is not None and limit < len(out):
        # always keep the seed-shaped members, sample the rest
        out = rnd.sample(out, limit)
    return out


def td_units_family(m, rnd, limit=None):
    """n-ary Plus / Times (arity 3-5) with the unit / absorbing constants 1, -1, 0 at every argument
    position, nested inside Minus on either side, and products of sums with such factors; Int and Real.
    Full family: 2 sorts x (3 constants x (3+4+5 positions) x 2 operators x 5 wrappers + 3 x 12 x 3 products of sums)
    = 936 terms; `limit` draws a seeded sample."""
    out = []
    for ty in (INT, REAL):
        vs = [m.Symbol("%s%d" % ("i" if ty == INT else "r", k), ty) for k in range(5)]
        a = m.Symbol("a_" + ("i" if ty == INT else "r"), ty)
        cst = (lambda k: m.Int(k)) if ty == INT else (lambda k: m.Real(k))
        for c in (1, -1, 0):
            for arity in (3, 4, 5):
                for pos in range(arity):
                    args = list(vs[:arity - 1])
                    args.insert(pos, cst(c))
                    for mk in (m.Times, m.Plus):
                        t = mk(args)
                        out += [t, m.Minus(a, t), m.Minus(t, a), m.Minus(a, m.Minus(vs[4], t)), m.Minus(m.Minus(t, vs[4]), a)]
                    out.append(m.Times(m.Plus(a, cst(c)), m.Times(args)))
                    out.append(m.Minus(a, m.Times(m.Plus(vs[4], cst(c)), m.Times(args))))
                    out.append(m.Times(m.Minus(a, m.Times(args)), m.Plus(vs[3], cst(c))))
    if limit is not None and limit < len(out):
        out = rnd.sample(out, limit)
    return out


# ------------------------------------------------------------------------------------------
# one batch = one rewriter in a fresh Environment
# ------------------------------------------------------------------------------------------

class Batch(object):
    def __init__(self, chk, rnd, name, tier):
        self.chk, self.rnd, self.name, self.tier = chk, rnd, name, tier
        self.cases = []       # (roots, body_fn)
        self.meta = []        # serialized input per case
        self.stats = {"impl_errors": 0, "oracle_checked": 0}
        self.pairs = []       # (input, formula compared with it by the oracle, what, repro) per oracle comparison
        self.found = 0        # violations with a concrete failing input reported by this batch
        self.env, self.family, self.apply = None, None, None   # see targeted()

    def n(self, quick, thorough):
        return quick if self.tier == "quick" else thorough

    def check_equiv(self, f, out, what, replay, key=None, ninterp=5, strong=False, remember=True):
        self.stats["oracle_checked"] += 1
        if remember and len(self.pairs) < 20000:
            self.pairs.append((f, out, what, replay, key))
        d = differs_strong(self.rnd, f, out) if strong else differs(self.rnd, f, out, ninterp)
        if d is None:
            return True
        info = {"kind": "input", "what": what, "input": f.serialize(), "output": out.serialize(), "repro": replay,
                "oracle": "harness/refeval.py, exact quantifier evaluation"}
        info.update(describe(d))
        if self.chk.violation(info, key=key):
            self.found += 1
        return False

    def targeted(self, env, family, apply):
        """Remember how to re-run this rewriter on a directed family (used by escalate())."""
        self.env, self.family, self.apply = env, family, apply


def opt_term(names, out):
    return "None" if out is None else "(Some %s)" % names[out]


def run_nnf(b):
    from pysmt.rewritings import NNFizer
    env = Environment()
    push_env(env)
    try:
        sg = SkelGen(env, b.rnd, [BOOL, BVType(1), BVType(2), INT, REAL, BVType(3)],
                     atom_cfg=Config(quantifiers=False, widths=(1, 2, 3), max_arity=3))
        m = env.formula_manager
        b.targeted(env, shared_quantified_family,
                   lambda f: [(NNFizer(env).convert(f), "nnf(f) does not have the value of f", "pysmt.rewritings.nnf(<input>)")])
        a, bb, c = [m.Symbol(x, BOOL) for x in "abc"]
        fixed = [m.Not(m.Ite(a, bb, c)), m.Not(m.Iff(a, m.Not(bb))), m.Implies(m.Not(a), m.Not(m.Not(bb))),
                 m.Not(m.ForAll([a], m.Exists([a], m.Or(a, bb))))]
        for i in range(b.n(500, 6000)):
            f = fixed[i] if i < len(fixed) else sg.gen(b.rnd.randint(1, 5))
            try:
                out = NNFizer(env).convert(f)
            except AssertionError:
                out = None
                b.stats["impl_errors"] += 1
            b.cases.append(([f] + ([out] if out is not None else []),
                            (lambda names, f=f, out=out: "(%s, %s)" % (names[f], opt_term(names, out)))))
            b.meta.append(f.serialize()[:400])
            b.chk.count(("nnf", tocoq.skey(f)), nontrivial=out is not None and out is not f)
            if out is None:
                continue
            b.check_equiv(f, out, "nnf(f) does not have the value of f", "pysmt.rewritings.nnf(<input>)")
            if not nnf_shape(out):
                # (regression: before /repo commit 777db40 every input with a Boolean ITE under negative polarity failed here)
                key = "nnf-shape:negated-boolean-ite" if has_negated_bool_ite(f) else "nnf-shape:%s" % f.serialize()[:200]
                b.chk.violation({"kind": "input", "what": "nnf(f) is not in negation normal form (a negation above a non-atom, or ->, <->, ite left)",
                                 "input": f.serialize(), "output": out.serialize(), "repro": "pysmt.rewritings.nnf(<input>)",
                                 "expected": "negations only on atoms"}, key=key)
        b.chk.sample({"rewriter": "nnf", "input": b.meta[-1]})
    finally:
        pop_env()
    ok_def = ("Definition ok (c : term * option term) : bool :=\n"
              "  match snd c with Some o => boolish (fst c) && term_eqb (nnf (fst c)) o | None => negb (boolish (fst c)) end.\n")
    return "From PySMT.models Require Import C10Local Nnf.", "term * option term", ok_def


def run_aig(b):
    from pysmt.rewritings import AIGer
    env = Environment()
    push_env(env)
    try:
        sg = SkelGen(env, b.rnd, [BOOL, BVType(1), BVType(2), INT, REAL],
                     atom_cfg=Config(widths=(1, 2, 3), max_arity=3))
        b.targeted(env, shared_quantified_family,
                   lambda f: [(AIGer(env).convert(f), "aig(f) does not have the value of f", "pysmt.rewritings.aig(<input>)")])
        for i in range(b.n(500, 6000)):
            f = sg.gen(b.rnd.randint(1, 5))
            out = AIGer(env).convert(f)
            b.cases.append(([f, out], (lambda names, f=f, out=out: "(%s, %s)" % (names[f], names[out]))))
            b.meta.append(f.serialize()[:400])
            b.chk.count(("aig", tocoq.skey(f)), nontrivial=out is not f)
            b.check_equiv(f, out, "aig(f) does not have the value of f", "pysmt.rewritings.aig(<input>)")
            if not aig_shape(out):
                b.chk.violation({"kind": "input", "what": "aig(f) contains a connective other than And / Not",
                                 "input": f.serialize(), "output": out.serialize(), "repro": "pysmt.rewritings.aig(<input>)"},
                                key="aig-shape:%s" % f.serialize()[:200])
        b.chk.sample({"rewriter": "aig", "input": b.meta[-1]})
    finally:
        pop_env()
    ok_def = "Definition ok (c : term * term) : bool := term_eqb (aig (fst c)) (snd c).\n"
    return "From PySMT.models Require Import C10Local Aig.", "term * term", ok_def


def run_partition(b):
    from pysmt.rewritings import conjunctive_partition, disjunctive_partition
    env = Environment()
    push_env(env)
    try:
        sg = SkelGen(env, b.rnd, [BOOL, BVType(2), INT], atom_cfg=Config(widths=(1, 2, 3), max_arity=3))
        m = env.formula_manager
        for i in range(b.n(400, 5000)):
            conj = b.rnd.random() < 0.5
            mk = m.And if conj else m.Or
            # nested same-connective structure with repeated members
            parts = [sg.gen(b.rnd.randint(0, 2)) for _ in range(b.rnd.randint(1, 4))]

            def nest(d):
                if d <= 0 or b.rnd.random() < 0.3:
                    return b.rnd.choice(parts)
                return mk([nest(d - 1) for _ in range(b.rnd.choice([2, 2, 3]))])
            f = nest(b.rnd.randint(1, 4)) if b.rnd.random() < 0.8 else sg.gen(3)
            outs = list((conjunctive_partition if conj else disjunctive_partition)(f))
            b.cases.append(([f] + outs, (lambda names, f=f, outs=outs, conj=conj:
                                         "(%s, %s, [%s])" % ("true" if conj else "false", names[f], "; ".join(names[o] for o in outs)))))
            b.meta.append(f.serialize()[:400])
            b.chk.count(("part", conj, tocoq.skey(f)), nontrivial=len(outs) > 1)
            # the property on the implementation: the conjunction/disjunction of the parts, any order
            sh = list(outs)
            b.rnd.shuffle(sh)
            g = mk(sh)
            b.check_equiv(f, g, "%s of the %s partition does not have the value of the input" % ("And" if conj else "Or", "conjunctive" if conj else "disjunctive"),
                          "pysmt.rewritings.%s_partition(<input>)" % ("conjunctive" if conj else "disjunctive"))
            if any((o.is_and() if conj else o.is_or()) for o in outs) or len(set(outs)) != len(outs):
                b.chk.violation({"kind": "input", "what": "partition member is itself a conjunction/disjunction, or repeated",
                                 "input": f.serialize(), "output": [o.serialize() for o in outs]}, key="part-shape:%s" % f.serialize()[:200])
        b.chk.sample({"rewriter": "partition", "input": b.meta[-1]})
    finally:
        pop_env()
    ok_def = ("Definition ok (c : bool * term * list term) : bool :=\n"
              "  let '(cj, t, outs) := c in\n"
              "  if cj then list_eqb term_eqb (conjunctive_partition t) outs &&\n"
              "               match conjunctive_partition_wl t with Some l => list_eqb term_eqb l outs | None => false end\n"
              "  else list_eqb term_eqb (disjunctive_partition t) outs &&\n"
              "       match disjunctive_partition_wl t with Some l => list_eqb term_eqb l outs | None => false end.\n")
    return "From PySMT.models Require Import Partition.", "bool * term * list term", ok_def


def run_qelim(b):
    from pysmt.solvers.qelim import ShannonQuantifierEliminator, SelfSubstitutionQuantifierEliminator
    env = Environment()
    push_env(env)   # FNode.substitute() goes through the GLOBAL environment's substituter
    try:
        sg = SkelGen(env, b.rnd, [BOOL], atom_cfg=Config(quantifiers=False, widths=(1, 2, 3), max_arity=3))
        sg.max_qvars = 2
        b.targeted(env, shared_quantified_family, lambda f: [
            (cls(env).eliminate_quantifiers(f), "%s quantifier elimination changed the value of the formula" % nm,
             "pysmt.solvers.qelim.%s(env).eliminate_quantifiers(<input>)" % cls.__name__)
            for cls, nm in ((ShannonQuantifierEliminator, "shannon"), (SelfSubstitutionQuantifierEliminator, "selfsub"))
            if all(v.symbol_type().is_bool_type() for n in tocoq.topo([f]) if n.is_quantifier() for v in n.quantifier_vars())])
        for i in range(b.n(500, 6000)):
            f = sg.gen(b.rnd.randint(1, 4))
            which = i % 2
            cls = SelfSubstitutionQuantifierEliminator if which else ShannonQuantifierEliminator
            nm = "selfsub" if which else "shannon"
            if tree_size(f) > 400 or has_array_assignments(f):
                b.stats["skipped_unmodelled"] = b.stats.get("skipped_unmodelled", 0) + 1
                continue
            out = cls(env).eliminate_quantifiers(f)
            if tree_size(out) > 6000:
                b.stats["skipped_large"] = b.stats.get("skipped_large", 0) + 1
                continue
            b.cases.append(([f, out], (lambda names, f=f, out=out, which=which:
                                       "(%s, %s, %s)" % ("true" if which else "false", names[f], names[out]))))
            b.meta.append("%s: %s" % (nm, f.serialize()[:400]))
            b.chk.count((nm, tocoq.skey(f)), nontrivial=out is not f)
            b.check_equiv(f, out, "%s quantifier elimination changed the value of the formula" % nm,
                          "pysmt.solvers.qelim.%s(env).eliminate_quantifiers(<input>)" % cls.__name__)
            if not quantifier_free(out):
                b.chk.violation({"kind": "input", "what": "%s: a quantifier is left" % nm, "input": f.serialize(), "output": out.serialize()},
                                key="qe-shape:%s:%s" % (nm, f.serialize()[:200]))
        b.chk.sample({"rewriter": "qelim", "input": b.meta[-1]})
    finally:
        pop_env()
    ok_def = ("Definition ok (c : bool * term * term) : bool :=\n"
              "  let '(ss, t, o) := c in qe_vars_bool t && term_eqb (if ss then selfsub t else shannon t) o.\n")
    return "From PySMT.models Require Import C10Local Qelim.", "bool * term * term", ok_def


def run_timesdist(b):
    from pysmt.rewritings import TimesDistributor
    env = Environment()
    push_env(env)
    try:
        g = FormulaGen(env, b.rnd, Config(bv=False, strings=False, arrays=False, custom=False, quantifiers=False, max_arity=3, reuse=0.3))
        m = env.formula_manager
        what, repro = "TimesDistributor changed the value of the term", "pysmt.rewritings.TimesDistributor(env).walk(<input>)"
        b.targeted(env, td_units_family, lambda f: [(TimesDistributor(env).walk(f), what, repro)])

        def one(f, strong):
            if tree_size(f) > 150:
                return
            out = TimesDistributor(env).walk(f)
            if tree_size(out) > 1500:
                b.stats["skipped_large"] = b.stats.get("skipped_large", 0) + 1
                return
            b.cases.append(([f, out], (lambda names, f=f, out=out: "(%s, %s)" % (names[f], names[out]))))
            b.meta.append(f.serialize()[:400])
            b.chk.count(("td", tocoq.skey(f)), nontrivial=out is not f)
            b.check_equiv(f, out, what, repro, strong=strong)
        for i in range(b.n(400, 5000)):
            t = b.rnd.choice([INT, REAL, INT, REAL, BOOL])
            # sums/differences/products of small sums, so that distribution really happens
            def arith(ty, d):
                r = b.rnd
                if d <= 0 or r.random() < 0.2:
                    return g.gen(ty, r.choice([0, 0, 1, 2]))
                k = r.choice(["plus", "times", "minus", "times", "plus"])
                if k == "plus":
                    return m.Plus([arith(ty, d - 1) for _ in range(r.choice([2, 2, 3]))])
                if k == "times":
                    return m.Times([arith(ty, d - 1) for _ in range(r.choice([2, 2, 3]))])
                return m.Minus(arith(ty, d - 1), arith(ty, d - 1))
            if t == BOOL:
                ty = b.rnd.choice([INT, REAL])
                f = b.rnd.choice([m.LE, m.LT, m.Equals])(arith(ty, 3), arith(ty, 2))
            else:
                f = arith(t, b.rnd.randint(1, 4))
            one(f, False)
        fam = td_units_family(m, b.rnd, b.n(DIRECTED, None))
        b.stats["directed_family_cases"] = len(fam)
        for f in fam:
            one(f, True)
        b.chk.sample({"rewriter": "TimesDistributor", "input": b.meta[-1]})
    finally:
        pop_env()
    ok_def = "Definition ok (c : term * term) : bool := term_eqb (td (fst c)) (snd c).\n"
    return "From PySMT.models Require Import C10Local TimesDist.", "term * term", ok_def


def run_prenex(b):
    from pysmt.rewritings import prenex_normal_form
    env = Environment()
    push_env(env)
    try:
        sg = SkelGen(env, b.rnd, [BOOL, BVType(1), BVType(2), BOOL, BVType(2), INT],
                     atom_cfg=Config(quantifiers=False, arrays=False, widths=(1, 2, 3), max_arity=3))
        m = env.formula_manager
        x, y = sg.g.syms[BVType(2)][0], sg.g.syms[BVType(2)][1]
        px = m.BVULT(x, y)
        fixed = [m.And(px, m.Exists([x], m.Not(px))), m.Or(m.ForAll([x], px), m.ForAll([x], m.Not(px))),
                 m.Iff(m.Exists([x], px), m.Exists([y], px)), m.ForAll([x], m.Implies(px, m.Exists([x], px))),
                 m.Ite(m.Exists([x], px), m.ForAll([x], px), px)]
        what, repro = "prenex_normal_form(f) does not have the value of f", "pysmt.rewritings.prenex_normal_form(<input>)"
        b.targeted(env, shared_quantified_family, lambda f: [(prenex_normal_form(f, env), what, repro)])

        def one(f, strong):
            if tree_size(f) > 300:
                return
            guess = m._fresh_guess
            try:
                out = prenex_normal_form(f, env)
            except TypeError:
                b.stats["impl_errors"] += 1     # a Boolean-sorted theory operator (array read) in a Boolean position
                return
            if tree_size(out) > 1500 or sum(len(n.quantifier_vars()) for n in tocoq.topo([out]) if n.is_quantifier()) > 7:
                b.stats["skipped_large"] = b.stats.get("skipped_large", 0) + 1     # exact quantifier evaluation would take minutes
                return
            b.cases.append(([f, out], (lambda names, f=f, out=out, guess=guess: "(%d%%nat, %s, %s)" % (guess, names[f], names[out]))))
            b.meta.append(f.serialize()[:400])
            b.chk.count(("prenex", tocoq.skey(f)), nontrivial=out is not f)
            b.check_equiv(f, out, what, repro, strong=strong)
            if not prenex_shape(out):
                b.chk.violation({"kind": "input", "what": "prenex_normal_form(f) is not a quantifier prefix over a quantifier-free matrix",
                                 "input": f.serialize(), "output": out.serialize()}, key="prenex-shape:%s" % f.serialize()[:200])
        for i in range(b.n(500, 4000)):
            one(fixed[i] if i < len(fixed) else sg.gen(b.rnd.randint(1, 4)), False)
        # directed family: shared quantified sub-formulas (every run; the whole family on escalation / thorough)
        fam = shared_quantified_family(m, b.rnd, b.n(DIRECTED, 3000))
        b.stats["directed_family_cases"] = len(fam)
        for f in fam:
            one(f, True)
        b.chk.sample({"rewriter": "prenex", "input": b.meta[-1]})
    finally:
        pop_env()
    return PRENEX_COQ


def bound_symbols(f):
    out = set()
    for n in tocoq.topo([f]):
        if n.is_quantifier():
            out.update(n.quantifier_vars())
    return out


def run_proptop(b):
    from pysmt.rewritings import propagate_toplevel, conjunctive_partition
    from . import c01
    for variant in (0, 1):
        env = Environment()
        push_env(env)
        try:
            cfg = Config(quantifiers=False, arrays=False, strings=False, custom=False, div=False, nonlinear=False, widths=(1, 2, 3), max_arity=3,
                         ints=(variant == 0), reals=(variant == 1))
            num = INT if variant == 0 else REAL
            sg = SkelGen(env, b.rnd, [num, BVType(2), BOOL], atom_cfg=cfg)
            m = env.formula_manager
            g = sg.g
            wx, wy = g.syms[BVType(2)][0], g.syms[BVType(2)][1]     # wx has the smaller node id: it is the representative
            witness = m.And(m.Equals(wy, wx), m.Exists([wx], m.Not(m.Equals(wx, wy))))
            for i in range(b.n(200, 2500)):
                r = b.rnd
                conj = []
                for _ in range(r.choice([1, 2, 2, 3, 4])):
                    t = r.choice([num, num, BVType(2)])
                    pick = lambda: (r.choice(g.syms[t]) if r.random() < 0.7 else g.const(t))
                    conj.append(m.Equals(pick(), pick()))
                for _ in range(r.choice([0, 1, 1, 2])):
                    conj.append(sg.gen(r.randint(0, 3)))
                if r.random() < 0.5:
                    # a quantifier that binds one side of a top-level equality while the other side is free below it
                    t = r.choice([BVType(2), BVType(2), num])
                    v, w = r.sample(g.syms[t], 2)
                    conj = [c for c in conj if not (c.is_equals() and c.arg(0).is_constant() and c.arg(1).is_constant())]
                    conj.append(m.Equals(v, w) if r.random() < 0.5 else m.Equals(w, v))
                    body = r.choice([m.Equals(v, w), m.Not(m.Equals(v, w)), m.Or(m.Not(m.Equals(w, v)), sg.gen(1))])
                    conj.append(r.choice([m.Exists, m.ForAll])([v], body))
                r.shuffle(conj)
                f = m.And(conj) if r.random() < 0.8 else m.And(conj[0], m.And(conj[1:])) if len(conj) > 2 else m.And(conj)
                if i == 0:
                    f = witness      # the _refuted witness of coq/proofs/PropTop_proofs.v, replayed on the real code
                if tree_size(f) > 300:
                    continue
                out = propagate_toplevel(f, env, do_simplify=False)
                out_s = propagate_toplevel(f, env)
                ids = sorted(set(a for c in conjunctive_partition(f) if c.is_equals() for a in c.args()), key=lambda n: n.node_id())
                # do_simplify=True through C01's simplifier model: the orders the implementation takes from sets / node ids
                # are recorded while a fresh Simplifier runs on the unsimplified result (as harness/c01.py does)
                rs, exc, records = c01.impl_simplify(env, out)
                if rs is not out_s:
                    b.stats["simplify_rerun_differs"] = b.stats.get("simplify_rerun_differs", 0) + 1
                    b.chk.violation({"kind": "obligation", "theorem_or_correspondence":
                                     "propagate_toplevel(f) is not Simplifier(env).simplify(propagate_toplevel(f, do_simplify=False)) on %s"
                                     % f.serialize()[:300]}, found_input=False)
                roots = [f, out] + ids + ([out_s] if out_s is not None else [])
                for frm, args, res in records:
                    roots += list(args) + [res]
                b.cases.append((roots, (lambda names, f=f, out=out, ids=ids, out_s=out_s, records=records:
                                        "(%s, [%s], %s, [%s], %s)" % (
                                            names[f], "; ".join(names[a] for a in ids), names[out],
                                            "; ".join("(%s, [%s], %s)" % (tocoq.opr(frm), "; ".join(names[a] for a in args), names[res])
                                                      for frm, args, res in records),
                                            "(Some %s)" % names[out_s]))))
                b.meta.append(f.serialize()[:400])
                b.chk.count(("proptop", tocoq.skey(f)), nontrivial=out is not f)
                eq_syms = set(a for c in conjunctive_partition(f) if c.is_equals() for a in c.args() if a.is_symbol())
                captured = bool(eq_syms & bound_symbols(f))
                key = "proptop:substitution-under-binder" if captured else None
                for o, how in ((out, "do_simplify=False"), (out_s, "default arguments")):
                    if not b.check_equiv(f, o, "propagate_toplevel(f) (%s) does not have the value of f" % how,
                                         "pysmt.rewritings.propagate_toplevel(<input>%s)" % (", do_simplify=False" if o is out else ""),
                                         key=key or "proptop:%s" % f.serialize()[:200]):
                        break
            b.chk.sample({"rewriter": "propagate_toplevel", "input": b.meta[-1]})
        finally:
            pop_env()
    return PROPTOP_COQ


PRENEX_COQ = ("From PySMT.models Require Import C10Local Prenex.", "nat * term * term",
              "Definition ok (c : nat * term * term) : bool :=\n"
              "  let '(n, t, o) := c in\n"
              "  match prenex n t with Some r => ac_eqb (canon r) (canon o) && pq_frag t | None => false end.\n")
PROPTOP_COQ = ("From PySMT.models Require Import C10Local PropTop PropTopSimp.\nFrom PySMT.models Require Simplifier.",
               "term * list term * term * list (op * list term * term) * option term",
               "Definition entry := (op * list term * term)%type.\n"
               "Definition lookup (tbl : list entry) : Simplifier.oracle := fun o args =>\n"
               "  match find (fun e : entry => op_eqb o (fst (fst e)) && list_eqb term_eqb args (snd (fst e))) tbl with\n"
               "  | Some e => Some (snd e) | None => None end.\n"
               "Definition ok (c : term * list term * term * list entry * option term) : bool :=\n"
               "  let '(t, order, o, tbl, os) := c in\n"
               "  (* do_simplify=False: the model's result up to the order of And arguments *)\n"
               "  match propagate_toplevel order t with Some r => ac_eqb r o | None => false end &&\n"
               "  (* do_simplify=True: C01's simplifier model on the unsimplified result, exactly *)\n"
               "  match Simplifier.simplify_opt (lookup tbl) o, os with\n"
               "  | Some s, Some e => term_eqb s e | None, None => true | _, _ => false end &&\n"
               "  (* the composed model, when its intermediate result is the implementation's node for node *)\n"
               "  match propagate_toplevel order t with\n"
               "  | Some r => if term_eqb r o then match propagate_toplevel_simp (lookup tbl) order t, os with\n"
               "                                   | Some s, Some e => term_eqb s e | None, None => true | _, _ => false end\n"
               "              else true\n"
               "  | None => false end.\n")

BATCHES = [("nnf", run_nnf), ("aig", run_aig), ("partition", run_partition), ("qelim", run_qelim), ("timesdist", run_timesdist),
           ("prenex", run_prenex), ("proptop", run_proptop)]


def escalate(b, budget=150.0):
    """Targeted search, run when the correspondence of a rewriter differs and the ordinary oracle pass found no
    failing input: (a) every comparison of the batch again with the escalated oracle (all interpretations when
    the free symbols are finite-sorted, else 40 random ones incl. a small-integer grid); (b) the rewriter on the
    complete directed family of the batch.  Stops after 3 failing inputs or `budget` seconds."""
    t0 = time.time()
    n = 0
    for (f, out, what, repro, key) in b.pairs:
        if b.found >= 3 or time.time() - t0 > budget / 2:
            break
        n += 1
        b.check_equiv(f, out, what + " [escalated oracle]", repro, key=key, strong=True, remember=False)
    m = 0
    if b.found == 0 and b.family is not None:
        push_env(b.env)
        try:
            for f in b.family(b.env.formula_manager, b.rnd, None):
                if b.found >= 3 or time.time() - t0 > budget:
                    break
                try:
                    outs = b.apply(f)
                except Exception:   # noqa
                    continue
                for (out, what, repro) in outs:
                    m += 1
                    b.check_equiv(f, out, what + " [directed family]", repro, strong=True, remember=False)
        finally:
            pop_env()
    b.stats["escalated"] = {"rechecked_comparisons": n, "directed_family_cases": m, "failing_inputs_found": b.found,
                            "seconds": round(time.time() - t0, 1)}
    b.chk.note("%s: escalated search: %d comparisons re-checked, %d directed cases, %d failing inputs" % (b.name, n, m, b.found))


def run(tier, only=None):
    chk = lib.Check("C10", tier)
    rnd = random.Random(chk.seed)
    from . import gen_all
    gen_all.regen_all()      # coq/gen (operator table, dispatch tables) is rebuilt from the repository under test
    ok = chk.prove()
    lib.clean_cases(chk.dir)
    files_of = {}
    batches = {}
    corr = {}
    for name, fn in BATCHES:
        if only and name not in only:
            continue
        b = Batch(chk, random.Random(rnd.getrandbits(64)), name, tier)
        try:
            coq = fn(b)
        except Exception:   # noqa - an exception of the implementation outside the modelled domain
            chk.note("batch %s aborted: %s" % (name, traceback.format_exc()[-1500:]))
            chk.violation({"kind": "obligation", "theorem_or_correspondence": "batch %s raised: %s" % (name, traceback.format_exc()[-800:])},
                          found_input=False)
            continue
        batches[name] = b
        if coq is None:
            corr[name] = dict(b.stats, cases=len(b.cases), correspondence="not modelled in Coq yet: SEARCH oracle only")
            chk.note("%s: %d cases, oracle comparisons %d (oracle only)" % (name, len(b.cases), b.stats["oracle_checked"]))
            continue
        imports, ctype, ok_def = coq
        files_of[name] = termcases.write(chk.dir, name, imports, ctype, ok_def, b.cases, shard=100)
        chk.note("%s: %d cases generated, oracle comparisons %d" % (name, len(b.cases), b.stats["oracle_checked"]))
    disagreements = []
    allfiles = [x for fs in files_of.values() for x in fs]
    if allfiles:
        res = lib.run_case_files([p for p, _, _ in allfiles])
        for name, fs in files_of.items():
            bad, errs = [], []
            for p, first, n in fs:
                rc, out = res[p]
                mm = lib.parse_nat_list(out) if rc == 0 else None
                if mm is None:
                    errs.append({"file": p, "error": out[-600:]})
                else:
                    bad += [first + i for i in mm]
            if (bad or errs) and batches[name].found == 0:
                escalate(batches[name])
            corr[name] = {"cases": len(batches[name].cases), "disagreements": len(bad), "case_file_errors": len(errs)}
            corr[name].update(batches[name].stats)
            for i in bad[:3]:
                chk.note("%s: model/implementation disagreement on %s" % (name, batches[name].meta[i][:300]))
                disagreements.append({"rewriter": name, "input": batches[name].meta[i]})
            for e in errs[:2]:
                chk.note("%s: case file error: %s" % (name, e["error"][-400:]))
                disagreements.append({"rewriter": name, "case_file_error": e["error"][-300:]})
    chk.cov["correspondence"] = corr
    if (not ok or disagreements) and not chk.violations:
        what = []
        if not ok:
            what.append("proof obligations no longer check: " + lib.proof_failure_summary(chk))
        if disagreements:
            what.append("correspondence model<->implementation differs: %s" % disagreements[:3])
        chk.violation({"kind": "obligation", "theorem_or_correspondence": what}, found_input=False)
    return chk.finish(TRUSTED, ASSUMPTIONS,
                      "per rewriter, in a fresh Environment: random Boolean skeletons (and/or/not/implies/iff/Boolean ite/quantifiers "
                      "with re-used bound names and shared sub-DAGs) over atoms from gen/formulas.py (all theories); distinct = distinct "
                      "inputs on which the rewriter is not the identity; plus two directed families on every run (300 drawn of each; whole family on "
                      "escalation): shared_quantified_family (one quantified node occurring 2-3 times under same-kind / other-kind binders of its "
                      "free variable, Not, ->, <->, ite, all orders under And/Or; Bool and BV1; 11 568 formulas) for prenex (and nnf/aig/qelim on "
                      "escalation) and td_units_family (n-ary Plus/Times with 1,-1,0 at every position, under Minus on either side, products of sums; "
                      "Int and Real; 936 terms) for TimesDistributor, both decided by the escalated oracle (all interpretations of finite-sorted "
                      "symbols, else 40 random incl. a small-integer grid); when a rewriter's correspondence differs and no failing input was "
                      "found, escalate() re-checks every comparison of the batch with that oracle and runs the whole directed family")


def replay(path):
    r = json.load(open(path))
    print(json.dumps(r, indent=1))
    return run("quick")
