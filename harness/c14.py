"""C14 - results do not depend on what the environment was used for before."""
import io
import json
import os
import random
import time
import warnings

from . import lib, walktap, walkgen
from .walktap import Tap, export_dag

TRUSTED = [
    "Coq 8.16.1 kernel; vm_compute evaluates the memo-table machine on the exported histories; no native_compute",
    "hand model models/EnvHistory.v (family of persistent walkers) and models/WalkerFail.v (one-shot substituter) over core/DagWalk.v, tied by correspondence: every walk() of every environment-wide walker during a history is recorded (callback order, loop iterations, stack, memo keys) and replayed in the model",
    "twin run: the probe formula alone, built in a fresh Environment; results compared up to the order of commutative arguments and the names of fresh symbols (harness/walkgen.py: canon_key = canon with every fresh name mapped to one token before AC sorting)",
    "aliasing of mutable cached answers (Theory objects in the TheoryOracle memo) is outside the functional model: it is checked on the implementation by (a) the twin comparison and (b) a snapshot of every memo table after every call of the history (an entry, once stored, must never change)",
    "sort-level aliasing: applications f(a1..an) whose argument and result sorts coincide (12 sorts incl. arrays, BV, custom; arity 1..3, bare symbols, nested, predicates, array values) followed by a panel of small formulas over NEW symbols of the sorts seen (plain, quantified, UF, select/store, arithmetic), each compared with its answer alone in a fresh Environment",
    "argument histories: substitute(f1, map1) failing midway at every child position or succeeding, inside / outside / under nested binders, followed by substitute(f2, map2) on an overlapping formula (MG and a long-lived MS substituter), compared with a fresh Environment",
    "hash-consing (equal structure = same object) is C04's theorem; here it is used through `is` on repeated calls",
]
ASSUMPTIONS = [
    "histories contain no failing call (C15 covers those)",
    "C14_history_independent: calls succeed or fail at the root of their traversal (api_ok)",
    "values are compared through the pure fold F of the callback (ans_equiv); AC order and fresh names by the correspondence",
]

SORTS = ("bool", "int", "bv", "str", "real")
MEASURES = 6


def _calls():
    """API calls: name -> (needs bool, fn(env, f, rnd_params) -> result)."""
    import pysmt.oracles as orc
    import pysmt.rewritings as rw
    from pysmt.smtlib.printers import SmtDagPrinter, SmtPrinter
    from pysmt.smtlib.parser import SmtLibParser
    import pysmt.environment as pe

    def smt(env, f, dag):
        pe.push_env(env)
        try:
            buf = io.StringIO()
            (SmtDagPrinter(buf) if dag else SmtPrinter(buf)).printer(f)
            return buf.getvalue()
        finally:
            pe.pop_env()

    def parse_back(env, f, prm):
        txt = smt(env, f, True)
        decls = []
        for s in sorted(env.fvo.get_free_variables(f), key=lambda s: s.symbol_name()):
            ty = s.symbol_type()
            if ty.is_function_type():
                decls.append("(declare-fun %s (%s) %s)" % (s.symbol_name(), " ".join(p.as_smtlib(False) for p in ty.param_types), ty.return_type.as_smtlib(False)))
            else:
                decls.append("(declare-fun %s () %s)" % (s.symbol_name(), ty.as_smtlib(False)))
        sc = SmtLibParser(environment=env).get_script(io.StringIO("\n".join(decls) + "\n(assert %s)\n" % txt))
        return sc.get_last_formula()

    def subst(env, f, prm):
        fv = sorted((s for s in env.fvo.get_free_variables(f) if not s.symbol_type().is_function_type()), key=lambda s: s.symbol_name())
        if not fv:
            return f
        m = env.formula_manager
        subs = {}
        for k in range(1 + prm % 2):
            a = fv[(prm // 2 + k) % len(fv)]
            same = [s for s in fv if s.symbol_type() == a.symbol_type()]
            subs[a] = same[(prm // 7) % len(same)] if prm % 3 else m.Symbol(a.symbol_name() + "_n%d" % (prm % 2), a.symbol_type())
        return env.substituter.substitute(f, subs)

    C = {
        "get_type": (False, lambda env, f, p: str(env.stc.get_type(f))),
        "simplify": (False, lambda env, f, p: env.simplifier.simplify(f)),
        "substitute": (False, subst),
        "free_vars": (False, lambda env, f, p: env.fvo.get_free_variables(f)),
        "atoms": (True, lambda env, f, p: env.ao.get_atoms(f)),
        "qf": (False, lambda env, f, p: env.qfo.is_qf(f)),
        "types": (False, lambda env, f, p: [str(t) for t in env.typeso.get_types(f)]),
        "size": (False, lambda env, f, p: env.sizeo.get_size(f, p % MEASURES)),
        "theory": (False, lambda env, f, p: str(env.theoryo.get_theory(f))),
        "get_logic": (False, lambda env, f, p: str(orc.get_logic(f, env))),
        # human-readable serialisation goes through the environment-wide env.serializer (str/repr use threshold 5)
        "str": (False, lambda env, f, p: str(f)),
        "repr": (False, lambda env, f, p: repr(f)),
        "serialize": (False, lambda env, f, p: f.serialize()),
        "serialize_k": (False, lambda env, f, p: f.serialize(threshold=1 + p % 5)),
        "to_smtlib_dag": (False, lambda env, f, p: smt(env, f, True)),
        "to_smtlib_tree": (False, lambda env, f, p: smt(env, f, False)),
        "parse": (True, parse_back),
        "nnf": (True, lambda env, f, p: rw.nnf(f, env)),
        "prenex": (True, lambda env, f, p: rw.prenex_normal_form(f, env)),
        "aig": (True, lambda env, f, p: rw.aig(f, env)),
        "cnf": (True, lambda env, f, p: rw.cnf(f, env)),
    }
    return C


SAME_OBJECT = ("simplify", "substitute", "nnf", "prenex", "aig", "parse")      # formula-valued, no fresh symbols


class SnapDict(dict):
    """The walker's memo table, remembering what every answer looked like when it was stored."""

    def __init__(self, *a):
        dict.__init__(self, *a)
        self.at_store = {}

    def __setitem__(self, k, v):
        dict.__setitem__(self, k, v)
        self.at_store[k] = (v, _content(v))


class Recorder(object):
    """Records every walk() of one environment-wide walker (also the nested ones started by
    other walkers' callbacks) in the form the Coq model replays."""

    def __init__(self, name, walker, kind, early, oneshot):
        self.name, self.w, self.kind, self.early, self.oneshot = name, walker, kind, early, oneshot
        self.tap = Tap(walker, kind, limit=None)
        self.ids, self.table, self.walks = {}, [], []
        self.problems = []
        walker.memoization = SnapDict(walker.memoization)
        orig = walker.walk

        def walk(formula, **kw):
            key = (kw.get("measure"), formula) if kind == "size" else formula
            export_dag(walker, kind, [key], self.ids, self.table)
            start, p0 = len(self.tap.log), self.tap.pops
            res = orig(formula, **kw)
            ids = self.ids
            memo = [] if oneshot else [ids[k] for k in walker.memoization if k in ids]
            self.walks.append(walktap.coq_walk(ids[key], [], (0, 0), [ids.get(k, 0) for k in self.tap.log[start:]], self.tap.pops - p0,
                                               walktap.stack_ids(walker, kind, ids), memo))
            return res
        walker.walk = walk
        if hasattr(walker, "original_walk"):
            walker.original_walk = walk

    def check_memo_stable(self, label):
        """An entry, once stored, is never replaced and its content never changes."""
        if self.oneshot or self.problems:
            return
        memo = self.w.memoization
        for k, (obj, rep) in memo.at_store.items():
            cur = memo.get(k, self)
            if cur is self:
                self.problems.append("%s: memo entry disappeared after %s" % (self.name, label))
            elif cur is not obj:
                self.problems.append("%s: memo entry replaced after %s" % (self.name, label))
            elif _content(cur) != rep:
                self.problems.append("%s: the cached answer for key %s was MUTATED in place after it was stored (seen after %s): %s -> %s"
                                     % (self.name, walkgen.canon_key(k) if hasattr(k, "node_id") else "?", label, rep, _content(cur)))

    def coq(self):
        return walktap.coq_case(self.table, self.early, self.oneshot, self.walks)


def _content(v):
    if hasattr(v, "__dict__") and not hasattr(v, "node_id"):
        return repr(sorted(vars(v).items()))
    if isinstance(v, (list, dict, set)):
        return repr(v)
    return None


WALKERS = [("simplifier", "plain", True, False), ("substituter", "subst", True, True), ("fvo", "plain", True, False),
           ("qfo", "plain", True, False), ("ao", "plain", True, False), ("typeso", "plain", True, False),
           ("theoryo", "plain", True, False), ("sizeo", "size", False, False)]


PERSISTENT = ("stc", "simplifier", "fvo", "qfo", "ao", "typeso", "theoryo", "sizeo")


class MemoWatch(object):
    """The model's `a persistent memo only grows` on the implementation, for every long-lived
    walker of an environment: after every call the table is at least as large as before and a
    sample of earlier keys still maps to the identical object (any eviction policy shows here)."""

    def __init__(self, env, rnd=None):
        self.env = env
        self.size = dict((w, len(getattr(env, w).memoization)) for w in PERSISTENT)
        self.sample = dict((w, {}) for w in PERSISTENT)
        self.problems = []
        self.rnd = rnd

    def check(self, label):
        for w in PERSISTENT:
            memo = getattr(self.env, w).memoization
            if len(memo) < self.size[w]:
                self.problems.append("env.%s: memo table shrank from %d to %d entries during %s" % (w, self.size[w], len(memo), label))
            for k, v in self.sample[w].items():
                cur = memo.get(k, self)
                if cur is not v:
                    self.problems.append("env.%s: an entry stored earlier %s during %s" % (w, "was dropped" if cur is self else "was replaced by another object", label))
                    break
            if len(memo) != self.size[w] and len(self.sample[w]) < 12:
                # one of the newest keys (dicts keep insertion order)
                k = next(reversed(memo))
                self.sample[w][k] = memo[k]
            self.size[w] = len(memo)
        return self.problems


def one_history(rnd, C, hist_len, record):
    """Returns (replay dict, diffs, recorders)."""
    from pysmt.environment import Environment
    rows = walkgen.gen_recipe(rnd, rnd.choice([8, 12, 16, 22]), sorts=SORTS, quant=rnd.random() < 0.2)
    env = Environment()
    recs = []
    if record:
        for nm, kind, early, oneshot in WALKERS:
            recs.append(Recorder(nm, getattr(env, nm), kind, early, oneshot))
    nodes = walkgen.build(env, rows)
    bools = [i for i, n in enumerate(nodes) if env.stc.get_type(n).is_bool_type()]
    names = sorted(C)
    pnm = rnd.choice(names)
    pi = rnd.choice(bools[-3:]) if C[pnm][0] or rnd.random() < 0.7 else rnd.randrange(len(nodes))
    probe = (pnm, pi, rnd.randrange(1000))
    pbool = env.stc.get_type(nodes[pi]).is_bool_type()
    history = []
    for _ in range(hist_len):
        nm = rnd.choice(names)
        if rnd.random() < 0.3 and (pbool or not C[nm][0]):
            i = pi            # earlier calls on the probe formula itself (per-formula caches)
        else:
            i = rnd.choice(bools) if C[nm][0] else rnd.randrange(len(nodes))
        history.append((nm, i, rnd.randrange(1000)))
    problems = []
    import pysmt.environment as pe

    def do(e, ns, call):
        nm, i, prm = call
        pe.push_env(e)      # FNode.serialize / str / simplify() resolve services through get_env()
        try:
            return ("ok", C[nm][1](e, ns[i], prm))
        except Exception as ex:        # noqa
            return ("raise", type(ex).__name__)
        finally:
            pe.pop_env()
    failing = False
    watch = MemoWatch(env)
    for call in history:
        o = do(env, nodes, call)
        watch.check("%s(row %d)" % (call[0], call[1]))
        if o[0] == "raise":
            failing = True             # not a C14 history
            break
        for r in recs:
            r.check_memo_stable("%s(row %d)" % (call[0], call[1]))
    if failing:
        return None
    probe_before_id = env.formula_manager._next_free_id
    after = do(env, nodes, probe)
    again = do(env, nodes, probe)
    watch.check("probe %s(row %d)" % (probe[0], probe[1]))
    problems += watch.problems[:1]
    for r in recs:
        r.check_memo_stable("%s(row %d)" % (probe[0], probe[1]))
        problems += r.problems
    fresh_env = Environment()
    fnodes = walkgen.build(fresh_env, walkgen.restrict(rows, pi))
    fresh = do(fresh_env, fnodes, probe)
    diffs = []

    def key(o):
        return (o[0], walkgen.canon_key(o[1]) if o[0] == "ok" else o[1])
    creation_order = None
    if key(after) != key(fresh):
        ks = classify_difference(env, probe_before_id, nodes[pi], lambda e, f: C[probe[0]][1](e, f, probe[2]))
        if ks == key(after):
            creation_order = {"used_environment": list(key(after)), "minimal_fresh_environment": list(key(fresh))}
        else:
            diffs.append({"what": "probe after the history differs from the probe in a fresh environment",
                          "after_history": list(key(after)), "fresh": list(key(fresh)), "same_constructions_no_calls": list(ks)})
    if after[0] == "ok" and probe[0] in SAME_OBJECT and after[1] is not again[1]:
        diffs.append({"what": "repeating the call returned another object", "first": str(key(after)), "second": str(key(again))})
    elif key(after) != key(again) and probe[0] != "cnf":
        diffs.append({"what": "repeating the call returned another result", "first": list(key(after)), "second": list(key(again))})
    for p in problems:
        diffs.append({"what": p})
    replay = {"recipe": rows, "history": history, "probe": probe,
              "repro": "harness.c14.replay_history(%r, %r, %r)" % (rows, history, probe)}
    if creation_order:
        replay["creation_order"] = creation_order
    return replay, diffs, recs


def aliasing_directed(chk):
    """Mutable cached answers: for every operator whose TheoryOracle rule extends the theory of
    its argument, ask for the theory of op(t) first and of a formula over t alone afterwards."""
    from pysmt.environment import Environment
    from pysmt.typing import BOOL, INT, REAL, STRING

    def cases(env):
        m, tm = env.formula_manager, env.type_manager
        s, s2 = m.Symbol("s", STRING), m.Symbol("s2", STRING)
        v = m.Symbol("v", tm.BVType(8))
        i, r, p = m.Symbol("i", INT), m.Symbol("r", REAL), m.Symbol("p", BOOL)
        a = m.Symbol("a", tm.ArrayType(INT, INT))
        ff = m.Symbol("ff", tm.FunctionType(INT, [STRING]))
        gg = m.Symbol("gg", tm.FunctionType(BOOL, [tm.BVType(8)]))
        one = m.Int(1)
        return [
            ("StrLength(s)", m.Equals(m.StrLength(s), one), m.Equals(s, m.String("a"))),
            ("StrToInt(s)", m.Equals(m.StrToInt(s), one), m.Equals(s, s2)),
            ("StrLength(StrConcat)", m.Equals(m.StrLength(m.StrConcat(s, s2)), one), m.Equals(m.StrConcat(s, s2), s)),
            ("StrIndexOf", m.Equals(m.StrIndexOf(s, s2, i), one), m.Equals(s, s2)),
            ("StrIndexOf/int", m.Equals(m.StrIndexOf(s, s2, i), one), m.LT(i, m.Plus(i, one))),
            ("BVToNatural(v)", m.Equals(m.BVToNatural(v), one), m.Equals(v, m.BV(1, 8))),
            ("BVToNatural(BVNot v)", m.Equals(m.BVToNatural(m.BVNot(v)), one), m.Equals(m.BVNot(v), v)),
            ("ToReal(i)", m.LT(m.ToReal(i), r), m.LT(i, one)),
            ("f(s)", m.Equals(m.Function(ff, [s]), one), m.Equals(s, s2)),
            ("g(v)", m.Function(gg, [v]), m.Equals(v, m.BV(1, 8))),
            ("Not(p) under StrLength side", m.And(m.Not(p), m.Equals(m.StrLength(s), one)), m.Not(p)),
            ("Array value", m.Equals(m.Array(INT, one, {m.Int(2): i}), a), m.LT(i, one)),
            ("Array const", m.Equals(m.Array(INT, one), a), m.Equals(one, one)),
            ("Select/Store", m.Equals(m.Select(m.Store(a, i, one), i), one), m.Equals(a, a)),
            ("Times nonlinear", m.Equals(m.Times(i, i), one), m.LT(i, one)),
            ("Pow", m.LT(m.Pow(r, m.Real(2)), r), m.LT(r, m.Real(1))),
            ("Div", m.LT(m.Div(r, m.Real(2)), r), m.LT(r, m.Real(1))),
            ("Ite", m.Equals(m.Ite(p, m.StrLength(s), i), one), m.Equals(s, s2)),
        ]
    n = len(cases(Environment()))
    for k in range(n):
        for probe_kind in ("theory", "logic"):
            env, fresh = Environment(), Environment()
            label, W, P = cases(env)[k]
            _, _, FP = cases(fresh)[k]
            import pysmt.oracles as orc
            get = (lambda e, f: str(e.theoryo.get_theory(f))) if probe_kind == "theory" else (lambda e, f: str(orc.get_logic(f, e)))
            rec = Recorder("theoryo", env.theoryo, "plain", True, False)
            try:
                first = get(env, W)
                again = get(env, W)
                after = get(env, P)
                alone = get(fresh, FP)
            except Exception as ex:       # noqa
                chk.cov.setdefault("aliasing_skipped", []).append("%s: %s" % (label, type(ex).__name__))
                continue
            rec.check_memo_stable("get_theory(%s)" % label)
            chk.count(("aliasing", label, probe_kind))
            rep = {"kind": "history", "history": ["get_%s(%s)" % (probe_kind, walkgen.canon_key(W)), "get_%s(%s)" % (probe_kind, walkgen.canon_key(P))],
                   "repro": "harness.c14.aliasing_replay(%d, %r)" % (k, probe_kind)}
            if after != alone or first != again:
                chk.violation(dict(rep, what="the theory detected for a formula depends on an earlier query about %s: a cached Theory object was "
                                   "changed after it was stored" % label, after_history=after, fresh=alone), key="aliasing:theory:%s" % label)
            elif rec.problems:
                chk.violation(dict(rep, what=rec.problems[0]), key="aliasing:theory-memo:%s" % label)


def aliasing_replay(k, probe_kind):
    class C(object):
        cov = {}

        def __init__(self):
            self.v = []

        def count(self, *a, **kw):
            pass

        def violation(self, rep, key=None):
            self.v.append(key)
            print(key, rep.get("what"), rep.get("after_history"), rep.get("fresh"))
    c = C()
    aliasing_directed(c)
    return 1 if c.v else 0


# ---------------------------------------------------------------------------------------------
# Sort-level aliasing: applications whose argument sorts and result sort coincide, then a panel
# of small formulas that share only the SORT with the history (C14-C class)
# ---------------------------------------------------------------------------------------------

def _sorts(env):
    from pysmt.typing import BOOL, INT, REAL, STRING
    tm = env.type_manager
    U = tm.Type("U")
    aii = tm.ArrayType(INT, INT)
    return [("Bool", BOOL), ("Int", INT), ("Real", REAL), ("BV8", tm.BVType(8)), ("BV16", tm.BVType(16)), ("String", STRING),
            ("U", U), ("Array_Int_Int", aii), ("Array_BV8_BV8", tm.ArrayType(tm.BVType(8), tm.BVType(8))),
            ("Array_Int_Array", tm.ArrayType(INT, aii)), ("Array_U_U", tm.ArrayType(U, U)), ("Array_Int_Bool", tm.ArrayType(INT, BOOL))]


def _eq(m, a, b):
    return m.Iff(a, b) if a.get_type().is_bool_type() else m.Equals(a, b)


def sort_panel(env, sname, S):
    """Small formulas over NEW symbols of sort S: with and without UF, quantifier, arithmetic."""
    from pysmt.typing import INT
    m, tm = env.formula_manager, env.type_manager
    c, c2 = m.Symbol("pn_%s_c" % sname, S), m.Symbol("pn_%s_d" % sname, S)
    out = [("eq", _eq(m, c, c2)), ("quantified", m.Exists([c], _eq(m, c, c2))),
           ("uf", _eq(m, m.Function(m.Symbol("pn_%s_h" % sname, tm.FunctionType(S, [S])), [c]), c2))]
    if S.is_array_type():
        i = m.Symbol("pn_%s_i" % sname, S.index_type)
        e = m.Symbol("pn_%s_e" % sname, S.elem_type)
        out += [("select", _eq(m, m.Select(c, i), e)), ("store", m.Equals(m.Store(c, i, e), c2))]
    elif S.is_int_type() or S.is_real_type():
        out.append(("arith", m.LT(m.Plus(c, c2), c)))
    elif S.is_bv_type():
        out.append(("arith", m.BVULT(m.BVAdd(c, c2), c)))
    elif S.is_string_type():
        out.append(("arith", m.Equals(m.StrLength(c), m.Int(1))))
    return out


def same_sort_histories(env, sname, S):
    """History formulas: applications f(a1..an) with every argument a bare symbol of S and result
    sort S (arity 1..3, distinct and repeated arguments, nested, predicates, mixed, array values)."""
    from pysmt.typing import BOOL, INT
    m, tm = env.formula_manager, env.type_manager
    a = [m.Symbol("hs_%s_%d" % (sname, k), S) for k in range(3)]
    out = []
    for n in (1, 2, 3):
        f = m.Symbol("hs_%s_f%d" % (sname, n), tm.FunctionType(S, [S] * n))
        out.append(("f%d(distinct symbols)" % n, _eq(m, m.Function(f, a[:n]), a[0])))
        out.append(("f%d(one symbol)" % n, _eq(m, m.Function(f, [a[0]] * n), a[0])))
        pr = m.Symbol("hs_%s_p%d" % (sname, n), tm.FunctionType(BOOL, [S] * n))
        out.append(("pred%d" % n, m.Function(pr, a[:n])))
    f2 = m.Symbol("hs_%s_f2" % sname, tm.FunctionType(S, [S, S]))
    out.append(("f2 nested", _eq(m, m.Function(f2, [m.Function(f2, [a[0], a[1]]), a[2]]), a[0])))
    g = m.Symbol("hs_%s_g" % sname, tm.FunctionType(S, [S, INT]))
    out.append(("g(S, Int)", _eq(m, m.Function(g, [a[0], m.Symbol("hs_i", INT)]), a[1])))
    out.append(("ite", _eq(m, m.Ite(m.Symbol("hs_c", BOOL), a[0], a[1]), a[2])))
    if S.is_array_type():
        e = [m.Symbol("hs_%s_e%d" % (sname, k), S.elem_type) for k in range(2)]
        out.append(("constant array", m.Equals(m.Array(S.index_type, e[0]), a[0])))
        out.append(("store chain", m.Equals(m.Store(m.Store(a[0], m.Symbol("hs_%s_i" % sname, S.index_type), e[0]),
                                                    m.Symbol("hs_%s_j" % sname, S.index_type), e[1]), a[1])))
    return out


_FRESH_PANEL = {}


def _ask(fn):
    try:
        return str(fn())
    except Exception as ex:        # noqa: e.g. NoLogicAvailableError is an answer too
        return "raise " + type(ex).__name__


def fresh_panel_answers(sname, idx):
    """Answers of the panel for sort number idx, each formula alone in its own fresh Environment."""
    from pysmt.environment import Environment
    import pysmt.oracles as orc
    if sname not in _FRESH_PANEL:
        n = len(sort_panel(Environment(), sname, _sorts(Environment())[idx][1]))
        res = []
        for k in range(n):
            e = Environment()
            S = _sorts(e)[idx][1]
            lbl, f = sort_panel(e, sname, S)[k]
            res.append((lbl, _ask(lambda: e.theoryo.get_theory(f)), _ask(lambda: orc.get_logic(f, e))))
        _FRESH_PANEL[sname] = res
    return _FRESH_PANEL[sname]


def sort_aliasing(chk, only=None):
    from pysmt.environment import Environment
    import pysmt.oracles as orc
    nsorts = len(_sorts(Environment()))
    for idx in range(nsorts):
        sname = _sorts(Environment())[idx][0]
        nh = len(same_sort_histories(Environment(), sname, _sorts(Environment())[idx][1]))
        for hk in range(nh):
            for first_query in ("logic", "theory"):
                if only is not None and only != (idx, hk, first_query):
                    continue
                env = Environment()
                sorts = _sorts(env)
                S = sorts[idx][1]
                hlabel, H = same_sort_histories(env, sname, S)[hk]
                rec = Recorder("theoryo", env.theoryo, "plain", True, False)
                hist_answer = _ask(lambda: orc.get_logic(H, env)) if first_query == "logic" else _ask(lambda: env.theoryo.get_theory(H))
                # sorts seen so far: S and the sorts it is made of
                seen = [idx] + [j for j, (nm, T) in enumerate(sorts) if S.is_array_type() and T in (S.index_type, S.elem_type)]
                bad = None
                for j in seen:
                    pname, P = sorts[j]
                    fresh = fresh_panel_answers(pname, j)
                    for k, (lbl, f) in enumerate(sort_panel(env, pname, P)):
                        got = (lbl, _ask(lambda: env.theoryo.get_theory(f)), _ask(lambda: orc.get_logic(f, env)))
                        chk.count(("sort-panel", sname, hlabel, first_query, pname, lbl))
                        if got != fresh[k] and bad is None:
                            bad = (pname, lbl, walkgen.canon_key(f), got, fresh[k])
                rec.check_memo_stable("panel after get_%s(%s)" % (first_query, hlabel))
                rep = {"kind": "history", "repro": "harness.c14.sort_aliasing_replay(%d, %d, %r)" % (idx, hk, first_query),
                       "history": ["get_%s(%s) = %s" % (first_query, walkgen.canon_key(H), hist_answer)]}
                if bad:
                    rep["history"].append("get_theory / get_logic(%s)" % bad[2])
                    chk.violation(dict(rep, what="the theory/logic detected for a formula that shares only the SORT %s with an earlier query (%s over sort %s) "
                                       "differs from a fresh environment: a cached Theory object was changed after it was handed out" % (bad[0], hlabel, sname),
                                       after_history=list(bad[3]), fresh=list(bad[4])), key="aliasing:sort:%s:%s" % (sname, hlabel))
                elif rec.problems:
                    chk.violation(dict(rep, what=rec.problems[0]), key="aliasing:sort-memo:%s:%s" % (sname, hlabel))


def sort_aliasing_replay(idx, hk, first_query):
    warnings.simplefilter("ignore")
    c = _MiniChk()
    sort_aliasing(c, only=(idx, hk, first_query))
    return 1 if c.v else 0


class _MiniChk(object):
    def __init__(self):
        self.v, self.cov = [], {}

    def count(self, *a, **kw):
        pass

    def violation(self, rep, key=None, found_input=True):
        self.v.append(key)
        print("key=%s: %s" % (key, rep.get("what")))
        for k in ("history", "after_history", "fresh", "differences"):
            if rep.get(k):
                print("   %s: %s" % (k, rep[k]))


# ---------------------------------------------------------------------------------------------
# Operations with an argument besides the formula: (call with arg1, failing midway | succeeding)
# -> (overlapping formula with arg2), inside and outside binders (C14-D class)
# ---------------------------------------------------------------------------------------------

BINDERS = ("none", "exists", "forall", "nested")
ATOMS = ("x", "y", "z", "w", "p", "xy")


def _binder_setup(env, atoms1, atoms2, b1, b2):
    from pysmt.typing import BOOL, INT
    m = env.formula_manager
    x, y, z, w, q, q2 = [m.Symbol(n, INT) for n in ("x", "y", "z", "w", "q", "q2")]
    p = m.Symbol("p", BOOL)
    pool = {"x": m.LT(m.Plus(x, q), m.Int(5)), "y": m.Equals(y, q), "z": m.LE(z, q), "w": m.LT(m.Times(w, m.Int(2)), m.Plus(x, q)),
            "p": m.Iff(p, m.LT(q, m.Int(3))), "xy": m.LE(m.Plus(x, y), q), "x8": m.LT(m.Plus(x, q), m.Int(8))}
    syms = {"x": x, "y": y, "z": z, "w": w, "p": p}

    def bind(b, body):
        if b == "exists":
            return m.Exists([q], body)
        if b == "forall":
            return m.ForAll([q], body)
        if b == "nested":
            return m.Exists([q2], m.And(m.LT(q2, x), m.ForAll([q], body)))
        return body
    f1 = bind(b1, m.And([pool[a] for a in atoms1]))
    f2 = bind(b2, m.And([pool[a] for a in atoms2]))
    return m, syms, f1, f2


def _binder_maps(m, syms, atoms1, fail_at, map2_kind):
    """map1 sends every free symbol of the atoms to a constant; with fail_at it is ill-typed for
    the symbols of that atom (Int symbol -> Real constant, Bool symbol -> Int constant)."""
    owner = {"x": "x", "y": "y", "z": "z", "w": "w", "p": "p", "xy": "y", "x8": "x"}
    map1 = {}
    for k, a in enumerate(atoms1):
        s = syms[owner[a]]
        map1[s] = m.TRUE() if owner[a] == "p" else m.Int(k + 1)
    if fail_at is not None:
        s = syms[owner[atoms1[fail_at]]]
        map1[s] = m.Int(1) if owner[atoms1[fail_at]] == "p" else m.Real(2)
    map2 = {0: {syms["z"]: m.Int(3)}, 1: {syms["x"]: syms["w"]}, 2: {syms["y"]: m.Int(9), syms["w"]: m.Int(4)}, 3: {}}[map2_kind]
    return map1, map2


def binder_arg_histories(chk, rnd, count):
    from pysmt.environment import Environment
    import pysmt.substituter as sb
    configs = []
    for b1 in BINDERS:
        for b2 in BINDERS:
            for fail_at in (0, 1, 2, None):
                for which in ("MG", "MS"):
                    configs.append((b1, b2, fail_at, which))
    rnd.shuffle(configs)
    reps = max(1, count // len(configs))
    for (b1, b2, fail_at, which) in configs:
        for _ in range(reps):
            atoms1 = rnd.sample(ATOMS, 3)
            atoms2 = rnd.sample(ATOMS, 2) + [rnd.choice(["x8", "x", "w"])]
            rnd.shuffle(atoms2)
            map2_kind = rnd.randrange(4)
            run_binder_history(chk, atoms1, atoms2, b1, b2, fail_at, which, map2_kind)


def run_binder_history(chk, atoms1, atoms2, b1, b2, fail_at, which, map2_kind):
    from pysmt.environment import Environment
    import pysmt.substituter as sb
    res = []
    for with_history in (True, False):
        env = Environment()
        m, syms, f1, f2 = _binder_setup(env, atoms1, atoms2, b1, b2)
        map1, map2 = _binder_maps(m, syms, atoms1, fail_at, map2_kind)
        sub = env.substituter if which == "MG" else sb.MSSubstituter(env)
        first = None
        if with_history:
            try:
                first = ("ok", walkgen.canon_key(sub.substitute(f1, map1)))
            except Exception as ex:        # noqa
                first = ("raise", type(ex).__name__)
        desc = (walkgen.canon_key(f1), walkgen.canon_key(f2), walkgen.canon_key(map1), walkgen.canon_key(map2))
        try:
            r = sub.substitute(f2, map2)
            r2 = sub.substitute(f2, map2)
            res.append((first, ("ok", walkgen.canon_key(r)), r is r2) + desc)
        except Exception as ex:        # noqa
            res.append((first, ("raise", type(ex).__name__), True) + desc)
    used, fresh = res
    chk.count(("binder-arg", tuple(atoms1), tuple(atoms2), b1, b2, fail_at, which, map2_kind))
    if (fail_at is not None) != (used[0][0] == "raise"):
        chk.cov["binder_arg_unexpected_first"] = chk.cov.get("binder_arg_unexpected_first", 0) + 1
    if used[1] != fresh[1] or not used[2]:
        chk.violation({"kind": "history", "what": "substitute with a second map returns a result that depends on the earlier call with another map "
                       "(first call %s, %s substituter, binders %s -> %s)" % ("raised midway at child %s" % fail_at if fail_at is not None else "succeeded", which, b1, b2),
                       "history": ["substitute(%s, %s) -> %s" % (used[3], used[5], used[0]), "substitute(%s, %s)" % (used[4], used[6])],
                       "after_history": list(used[1]), "fresh": list(fresh[1]), "repeat_same_object": used[2],
                       "repro": "harness.c14.replay_binder(%r, %r, %r, %r, %r, %r, %r)" % (atoms1, atoms2, b1, b2, fail_at, which, map2_kind)},
                      key="arg-history:substitute:%s:%s:%s" % (which, b1, b2))


def replay_binder(*a):
    warnings.simplefilter("ignore")
    c = _MiniChk()
    run_binder_history(c, *a)
    return 1 if c.v else 0


# ---------------------------------------------------------------------------------------------
# History VOLUME: more than 2^16 and more than 2^17 distinct nodes through every long-lived
# walker between a call and its repetition (C14-E class: eviction / size-triggered resets)
# ---------------------------------------------------------------------------------------------

def volume_formula(env, levels, tag, base=0):
    """Not(And(., atom_k)) chain with a fresh constant per level: 5 new nodes per level, linear
    for every walker (nothing to flatten)."""
    from pysmt.typing import INT, BOOL
    m = env.formula_manager
    x = m.Symbol("vol_%s" % tag, BOOL)
    i = m.Symbol("vol_i", INT)
    for k in range(levels):
        x = m.Not(m.And(x, m.LT(i, m.Int(base + k))))
    return x


def volume_history(chk, rnd, stages=(70000, 76000)):
    """stages: distinct nodes to push through every walker in each stage (one formula of ~5000
    nodes and many of ~50 nodes, all with fresh constants)."""
    from pysmt.environment import Environment
    import pysmt.oracles as orc
    rows = walkgen.gen_recipe(rnd, 14, sorts=SORTS)

    def probes(env):
        nodes = walkgen.build(env, rows)
        bools = [n for n in nodes if env.stc.get_type(n).is_bool_type()]
        fs = bools[-3:] + [nodes[len(nodes) // 2]]
        calls = []
        for f in fs:
            isb = env.stc.get_type(f).is_bool_type()
            calls += [("free_vars", f, lambda f=f: env.fvo.get_free_variables(f)), ("theory", f, lambda f=f: env.theoryo.get_theory(f)),
                      ("types", f, lambda f=f: env.typeso.walk(f)), ("qf", f, lambda f=f: env.qfo.is_qf(f)),
                      ("size_dag", f, lambda f=f: (env.sizeo.set_walking_measure(1), env.sizeo.walk(f, measure=1))[1]), ("simplify", f, lambda f=f: env.simplifier.simplify(f)),
                      ("get_type", f, lambda f=f: env.stc.get_type(f))]
            if isb:
                calls.append(("atoms", f, lambda f=f: env.ao.get_atoms(f)))
        return calls
    env, fresh = Environment(), Environment()
    watch = MemoWatch(env)
    first = [(nm, f, fn()) for nm, f, fn in probes(env)]
    watch.check("the first probe calls")
    total = 0
    history = ["%d probe calls on 4 small formulas (results kept)" % len(first)]
    bad = []
    for si, target in enumerate(stages):
        created0 = len(env.formula_manager.formulae)
        forms = [volume_formula(env, 1000, "s%d_big" % si, base=10 ** 7 * (si + 1))]
        k = 0
        while len(env.formula_manager.formulae) - created0 < target:       # distinct new nodes, exactly
            k += 1
            forms.append(volume_formula(env, 10, "s%d_%d" % (si, k), base=10 ** 7 * (si + 1) + 3000 + 10 * k))
        nbig = len(env.formula_manager.formulae) - created0
        total += nbig
        for nm, fn in (("fvo", lambda g: env.fvo.get_free_variables(g)), ("ao", lambda g: env.ao.get_atoms(g)), ("theoryo", lambda g: env.theoryo.get_theory(g)),
                       ("typeso", lambda g: env.typeso.walk(g)), ("qfo", lambda g: env.qfo.is_qf(g)), ("sizeo", lambda g: env.sizeo.get_size(g, 0)),
                       ("simplifier", lambda g: env.simplifier.simplify(g))):
            for g in forms:
                fn(g)
            watch.check("%s on %d formulas with about %d distinct nodes" % (nm, len(forms), nbig))
        history.append("every long-lived walker on %d formulas with about %d distinct nodes (%d so far)" % (len(forms), nbig, total))
        # one more small call on a formula not seen before (the call after the volume)
        m = env.formula_manager
        small = m.And(m.Symbol("vol_after_%d" % si), walkgen.build(env, rows)[-1] if env.stc.get_type(walkgen.build(env, rows)[-1]).is_bool_type() else m.TRUE())
        for fn in (lambda: env.fvo.get_free_variables(small), lambda: env.ao.get_atoms(small), lambda: env.theoryo.get_theory(small), lambda: env.typeso.walk(small),
                   lambda: env.qfo.is_qf(small), lambda: env.sizeo.get_size(small, 1), lambda: env.simplifier.simplify(small)):
            fn()
        watch.check("a small call after the volume")
        history.append("one small call per walker on a new formula")
        again = [(nm, f, fn()) for nm, f, fn in probes(env)]
        for (nm, f, a), (_, _, b) in zip(first, again):
            chk.count(("volume", nm, si, walkgen.canon_key(f)[:60]))
            if a is not b and not bad:
                bad.append((nm, walkgen.canon_key(f), walkgen.canon_key(a) == walkgen.canon_key(b), total))
    fres = [(nm, f, fn()) for nm, f, fn in probes(fresh)]
    for (nm, f, a), (_, _, b) in zip(first, fres):
        if walkgen.canon_key(a) != walkgen.canon_key(b) and not bad:
            bad.append((nm + " (value differs from a fresh environment)", walkgen.canon_key(f), False, total))
    chk.cov["volume_memo_sizes"] = dict((w, len(getattr(env, w).memoization)) for w in PERSISTENT)
    rep = {"kind": "history", "history": history + ["the probe calls again"], "recipe": rows, "repro": "harness.c14.replay_volume(%r)" % (list(stages),)}
    if bad:
        nm, fk, same_value, tot = bad[0]
        chk.violation(dict(rep, what="repeating %s(%s) after %d distinct nodes went through the environment's walkers returns %s object than the first call "
                           "(the property asks for the very same object)" % (nm, fk[:200], tot, "an equal but DIFFERENT" if same_value else "a different-valued")),
                      key="volume:identity:%s" % nm.split(" ")[0])
    elif watch.problems:
        chk.violation(dict(rep, what=watch.problems[0] + " (model: a persistent memo only grows, C14_memo_inv)"), key="volume:memo-shrinks")
    return total


def replay_volume(stages):
    warnings.simplefilter("ignore")
    c = _MiniChk()
    volume_history(c, random.Random(0), tuple(stages))
    return 1 if c.v else 0


# ---------------------------------------------------------------------------------------------
# Caller-owned argument containers reused across calls and mutated in place in between
# (C14-F class): ONE dict object per history for `subs` (and one for `interpretations`); the
# expected answer of each call is computed from the container's CURRENT content by a brand-new
# substituter with a brand-new dict in another environment.
# ---------------------------------------------------------------------------------------------

MUTATIONS = ("none", "replace_value", "key_swap", "grow", "shrink", "clear_refill", "replace_all_values")


def _same_sort_pool(env, nodes, rows):
    """sort name -> candidate keys (symbols) and values (symbols, constants, small terms)."""
    pool = {}
    for n, r in zip(nodes, rows):
        if n is None:
            continue
        if r[0] == "sym":
            pool.setdefault(r[2], {"keys": [], "vals": []})
            pool[r[2]]["keys"].append(n)
            pool[r[2]]["vals"].append(n)
    m = env.formula_manager
    from fractions import Fraction
    if "int" in pool:
        pool["int"]["vals"] += [m.Int(0), m.Int(7), m.Plus(pool["int"]["keys"][0], m.Int(1))]
    if "bool" in pool:
        pool["bool"]["vals"] += [m.TRUE(), m.Not(pool["bool"]["keys"][0])]
    if "bv" in pool:
        pool["bv"]["vals"] += [m.BV(3, 8)]
    if "real" in pool:
        pool["real"]["vals"] += [m.Real(Fraction(1, 2))]
    if "str" in pool:
        pool["str"]["vals"] += [m.String("a")]
    return pool


def _mutate(rnd, kind, d, pool_items):
    """In-place mutation of the caller's dict d: {key index -> value index} level description is
    returned so that the reference side can rebuild the content; pool_items: list of (sort, keys, vals)."""
    def fresh_pair(exclude):
        for _ in range(20):
            srt, keys, vals = rnd.choice(pool_items)
            k = rnd.choice(keys)
            if k not in exclude:
                v = rnd.choice([x for x in vals if x is not k] or vals)
                return k, v
        return None
    if kind == "replace_value" and d:
        k = rnd.choice(sorted(d, key=lambda x: x.node_id()))
        srt = [it for it in pool_items if k in it[1]][0]
        d[k] = rnd.choice([x for x in srt[2] if x is not k and x is not d[k]] or srt[2])
    elif kind == "replace_all_values":
        for k in sorted(d, key=lambda x: x.node_id()):
            srt = [it for it in pool_items if k in it[1]][0]
            d[k] = rnd.choice([x for x in srt[2] if x is not k and x is not d[k]] or srt[2])
    elif kind == "key_swap" and d:
        kv = fresh_pair(d)
        if kv:
            del d[rnd.choice(sorted(d, key=lambda x: x.node_id()))]
            d[kv[0]] = kv[1]
    elif kind == "grow":
        kv = fresh_pair(d)
        if kv:
            d[kv[0]] = kv[1]
    elif kind == "shrink" and d:
        del d[rnd.choice(sorted(d, key=lambda x: x.node_id()))]
    elif kind == "clear_refill" and d:
        keys = sorted(d, key=lambda x: x.node_id())
        d.clear()
        for k in keys:
            srt = [it for it in pool_items if k in it[1]][0]
            d[k] = rnd.choice([x for x in srt[2] if x is not k] or srt[2])


def container_history(chk, hseed, which="MG", report=True):
    """One history on one long-lived substituter with ONE subs dict and ONE interpretations dict."""
    from pysmt.environment import Environment
    import pysmt.substituter as sb
    rnd = random.Random(hseed)
    rows = walkgen.gen_recipe(rnd, rnd.choice([10, 14, 18]), sorts=("bool", "int", "bv", "real"), quant=rnd.random() < 0.3)
    env, ref = Environment(), Environment()
    nodes, rnodes = walkgen.build(env, rows), walkgen.build(ref, rows)
    back = dict((n, rn) for n, rn in zip(nodes, rnodes))       # env node -> the same node in the reference environment

    def to_ref(f):
        """Rebuild an env formula in the reference environment (values may be small new terms)."""
        if f in back:
            return back[f]
        rm = ref.formula_manager
        if f.is_constant() and not f.args():
            r = rm.create_node(f.node_type(), (), f._content.payload)
        else:
            r = rm.create_node(f.node_type(), tuple(to_ref(a) for a in f.args()), f._content.payload)
        back[f] = r
        return r
    pool = _same_sort_pool(env, nodes, rows)
    items = [(srt, v["keys"], v["vals"]) for srt, v in sorted(pool.items())]
    sub = env.substituter if which == "MG" else sb.MSSubstituter(env)
    subs = {}                       # THE caller's dict, one object for the whole history
    interp = {}                     # THE caller's interpretations dict
    ffs = [n for n in nodes if n is not None and n.is_function_application()]
    for _ in range(rnd.choice([1, 2, 3])):
        _mutate(rnd, "grow", subs, items)
    bools = [i for i, n in enumerate(nodes) if n is not None and env.stc.get_type(n).is_bool_type() and n.args()]
    terms = [i for i, n in enumerate(nodes) if n is not None and n.args()]
    if not bools:
        return None
    root = bools[-1]
    steps, diffs = [], []
    use_interp = bool(ffs) and rnd.random() < 0.5
    same_for_both = rnd.random() < 0.08
    for k in range(rnd.choice([4, 6, 8])):
        kind = "none" if k == 0 else rnd.choice(MUTATIONS)
        before = walkgen.canon_key(subs)
        _mutate(rnd, kind, subs, items)
        if use_interp and k > 0 and rnd.random() < 0.5:
            f0 = ffs[0].function_name()
            x = env.formula_manager.Symbol("ci_x", f0.symbol_type().param_types[0])
            body = rnd.choice([env.formula_manager.Plus(x, env.formula_manager.Int(rnd.randrange(5))), x, env.formula_manager.Times(x, env.formula_manager.Int(2))])
            interp[f0] = sb.FunctionInterpretation([x], body)        # size-preserving after the first time
            kind += "+interpretation replaced"
        # alternate between a sub-formula and a formula containing it
        i = root if k % 2 else rnd.choice(terms[-6:] + bools[-3:])
        f = nodes[i]
        a_subs, a_int = (subs, interp if use_interp else None)
        if same_for_both and not subs:
            a_int = subs           # the same (empty) object for both parameters
        got = ("ok", None)
        try:
            got = ("ok", walkgen.canon_key(sub.substitute(f, a_subs, a_int) if a_int is not None else sub.substitute(f, a_subs)))
        except Exception as ex:        # noqa
            got = ("raise", type(ex).__name__)
        # reference: the container's CURRENT content, new dicts, new substituter, other environment
        rsubs = dict((to_ref(kk), to_ref(vv)) for kk, vv in subs.items())
        rint = None
        if a_int is not None:
            rint = dict((to_ref(kk), sb.FunctionInterpretation([to_ref(p_) for p_ in vv.formal_params], to_ref(vv.function_body))) for kk, vv in interp.items()) if a_int is interp else {}
        rsub = (sb.MGSubstituter if which == "MG" else sb.MSSubstituter)(ref)
        try:
            exp = ("ok", walkgen.canon_key(rsub.substitute(to_ref(f), rsubs, rint) if rint is not None else rsub.substitute(to_ref(f), rsubs)))
        except Exception as ex:        # noqa
            exp = ("raise", type(ex).__name__)
        steps.append("%s the caller's dict in place: %s -> %s; substitute(row %d = %s, <that dict>)" % (
            {"none": "(no change to)"}.get(kind, kind), before[:160], walkgen.canon_key(subs)[:160], i, walkgen.canon_key(f)[:160]))
        chk.count(("container", which, hseed, k))
        if got != exp:
            diffs.append({"step": k, "mutation": kind, "got": list(got), "expected_from_current_content": list(exp)})
            break
    if diffs and report:
        chk.violation({"kind": "history", "what": "substitute() with a caller-owned dict that was mutated in place between the calls answers from the dict's EARLIER content "
                       "(%s substituter, step %d, mutation %s)" % (which, diffs[0]["step"], diffs[0]["mutation"]),
                       "history": steps, "differences": diffs, "recipe": rows, "repro": "harness.c14.replay_container(%d, %r)" % (hseed, which)},
                      key="container:substitute:%s:%s" % (which, diffs[0]["mutation"].split("+")[0]))
    return diffs


def replay_container(hseed, which):
    warnings.simplefilter("ignore")
    c = _MiniChk()
    container_history(c, hseed, which)
    return 1 if c.v else 0


def eager_model_histories(chk, rnd, count):
    """EagerModel(assignment) copies the caller's dict (solvers/eager.py: `dict(assignment)`): a
    model is a SNAPSHOT.  After the caller mutates its dict in place (every mutation kind) the
    model must answer as before, and get_value / iteration / satisfies must stay consistent."""
    from pysmt.environment import Environment
    from pysmt.solvers.eager import EagerModel
    for h in range(count):
        env = Environment()
        m = env.formula_manager
        from pysmt.typing import INT, BOOL
        xs = [m.Symbol("mx%d" % k, INT) for k in range(4)]
        bs = [m.Symbol("mb%d" % k, BOOL) for k in range(2)]
        assign = dict((x, m.Int(rnd.randrange(-3, 9))) for x in xs[:3])
        assign[bs[0]] = m.Bool(rnd.random() < 0.5)
        model = EagerModel(assignment=assign, environment=env)
        queries = [m.Plus(xs[0], xs[1]), m.LT(xs[0], m.Times(xs[2], m.Int(2))), m.And(bs[0], m.LE(xs[1], xs[2])), xs[3], m.Ite(bs[1], xs[0], xs[3])]
        import pysmt.environment as pe
        pe.push_env(env)
        try:
            def snapshot():
                vals = [walkgen.canon_key(model.get_value(q)) for q in queries]
                it = sorted((walkgen.canon_key(k), walkgen.canon_key(v)) for k, v in model)
                byget = sorted((walkgen.canon_key(k), walkgen.canon_key(model.get_value(k))) for k, _ in model)
                sat = model.satisfies(m.And([m.EqualsOrIff(k, v) for k, v in model]))
                return vals, it, byget, sat
            first = snapshot()
            kind = rnd.choice(MUTATIONS[1:])
            if kind in ("replace_value", "replace_all_values", "clear_refill"):
                for k in list(assign):
                    if k.symbol_type().is_int_type():
                        assign[k] = m.Int(100 + rnd.randrange(9))
            elif kind == "key_swap":
                del assign[xs[0]]
                assign[xs[3]] = m.Int(55)
            elif kind == "grow":
                assign[xs[3]] = m.Int(55)
            else:
                del assign[xs[1]]
            second = snapshot()
        finally:
            pe.pop_env()
        chk.count(("eager-model", h, kind))
        if first != second or first[1] != first[2] or first[3] is not True:
            chk.violation({"kind": "history", "what": "an EagerModel changed (or is inconsistent) after the caller mutated, in place, the dict it was built from (%s): a model "
                           "is a snapshot of its assignment" % kind, "history": ["model = EagerModel(assign)", "queries", "%s on assign" % kind, "same queries"],
                           "before": [str(x)[:300] for x in first], "after": [str(x)[:300] for x in second]}, key="container:eager-model:%s" % kind)


def parser_stream_histories(chk, rnd, count):
    """One StringIO object reused for several scripts (rewritten in place between the calls)."""
    from pysmt.environment import Environment
    from pysmt.smtlib.parser import SmtLibParser
    scripts = ["(declare-fun a () Int)\n(declare-fun b () Int)\n(assert (< a b))\n", "(declare-fun a () Int)\n(assert (< a 3))\n(assert (> a 1))\n",
               "(declare-fun p () Bool)\n(declare-fun a () Int)\n(assert (=> p (= a 2)))\n", "(declare-fun a () Int)\n(declare-fun b () Int)\n(assert (< b a))\n"]

    def parse(p, stream):
        return [(c.name, [walkgen.canon_key(a) if hasattr(a, "node_id") else str(a) for a in c.args]) for c in p.get_script(stream).commands]
    for h in range(count):
        env = Environment()
        p = SmtLibParser(environment=env)
        buf = io.StringIO()
        hist = []
        for k in range(3):
            txt = rnd.choice(scripts)
            buf.seek(0)
            buf.truncate()
            buf.write(txt)
            buf.seek(0)
            got = parse(p, buf)
            exp = parse(SmtLibParser(environment=Environment()), io.StringIO(txt))
            hist.append(txt)
            chk.count(("parser-stream", h, k))
            if got != exp:
                chk.violation({"kind": "history", "what": "parsing from a stream object that was rewritten in place gives another script than parsing its current text",
                               "history": hist, "got": str(got)[:400], "expected": str(exp)[:400]}, key="container:parser-stream")
                break


# ---------------------------------------------------------------------------------------------
# FEEDBACK: the RESULT object of an earlier call used as (part of) the input of a later call on
# the same environment (C14-G class).  Each answer is compared with the same call on the same
# abstract input rebuilt node by node in another environment with brand-new walkers.
# (Idempotence of the simplifier is NOT an oracle: it does not hold on the unchanged tree.)
# ---------------------------------------------------------------------------------------------

def _conv_type(t, tm):
    from pysmt.typing import BOOL, INT, REAL, STRING
    if t.is_bool_type():
        return BOOL
    if t.is_int_type():
        return INT
    if t.is_real_type():
        return REAL
    if t.is_string_type():
        return STRING
    if t.is_bv_type():
        return tm.BVType(t.width)
    if t.is_array_type():
        return tm.ArrayType(_conv_type(t.index_type, tm), _conv_type(t.elem_type, tm))
    if t.is_function_type():
        return tm.FunctionType(_conv_type(t.return_type, tm), [_conv_type(x, tm) for x in t.param_types])
    return tm.Type(str(t))


def rebuild(f, ref, cache):
    """The same abstract formula in environment `ref` (own iterative structural copy)."""
    rm, tm = ref.formula_manager, ref.type_manager
    stack = [(f, False)]
    while stack:
        x, done = stack.pop()
        if x in cache:
            continue
        if not done:
            stack.append((x, True))
            todo = list(x.args())
            if x.is_quantifier():
                todo += list(x.quantifier_vars())
            if x.is_function_application():
                todo.append(x.function_name())
            stack.extend((a, False) for a in todo if a not in cache)
            continue
        if x.is_symbol():
            cache[x] = rm.Symbol(x.symbol_name(), _conv_type(x.symbol_type(), tm))
        elif x.is_quantifier():
            q = rm.ForAll if x.is_forall() else rm.Exists
            cache[x] = q([cache[v] for v in x.quantifier_vars()], cache[x.arg(0)])
        elif x.is_function_application():
            cache[x] = rm.Function(cache[x.function_name()], [cache[a] for a in x.args()])
        elif x.is_array_value():
            cache[x] = rm.create_node(x.node_type(), tuple(cache[a] for a in x.args()), _conv_type(x._content.payload, tm))
        else:
            cache[x] = rm.create_node(x.node_type(), tuple(cache[a] for a in x.args()), x._content.payload)
    return cache[f]


def replicate_env(env, before_id):
    """An environment with the same CONSTRUCTION history (every node of env with id < before_id,
    created in the same order, so that node ids are ordered alike) and no CALL history (all
    walkers new).  Used to tell call-history dependence from construction-order dependence."""
    from pysmt.environment import Environment
    ref, cache = Environment(), {}
    for n in sorted((x for x in env.formula_manager.formulae.values() if x.node_id() < before_id), key=lambda x: x.node_id()):
        try:
            rebuild(n, ref, cache)
        except Exception:        # noqa: a node that was rejected when it was created
            pass
    return ref, cache


def classify_difference(env, before_id, inp, run_ref):
    """True iff an environment with the same constructions and no earlier calls agrees with ... the
    caller compares: returns the canonical outcome of run_ref(ref, rebuilt input)."""
    import pysmt.environment as pe
    ref, cache = replicate_env(env, before_id)
    rinp = rebuild(inp, ref, cache)
    pe.push_env(ref)
    try:
        r = ("ok", run_ref(ref, rinp))
    except Exception as ex:        # noqa
        r = ("raise", type(ex).__name__)
    finally:
        pe.pop_env()
    return (r[0], walkgen.canon_key(r[1]) if r[0] == "ok" else r[1])


def _feedback_ops():
    """name -> (needs Bool, fn(env, f, fresh)): with fresh=True every walker is a brand-new instance."""
    import pysmt.rewritings as rw
    import pysmt.simplifier
    import pysmt.substituter as sb

    def subst(env, f, fresh):
        fv = sorted((x for x in env.fvo.get_free_variables(f) if not x.symbol_type().is_function_type()), key=lambda x: x.symbol_name())
        subs = {}
        for a in fv[:2]:
            same = [x for x in fv if x.symbol_type() == a.symbol_type() and x is not a]
            if same:
                subs[a] = same[-1]
        return (sb.MGSubstituter(env) if fresh else env.substituter).substitute(f, subs)

    def fv_formula(env, f, fresh):
        m = env.formula_manager
        vs = sorted(env.fvo.get_free_variables(f), key=lambda x: x.symbol_name())
        bs = [v for v in vs if v.symbol_type().is_bool_type()]
        ints = [v for v in vs if v.symbol_type().is_int_type()]
        return m.And(bs + ([m.LT(m.Plus(ints), m.Int(0))] if len(ints) > 1 else []))
    return {
        "simplify": (False, lambda env, f, fresh: (pysmt.simplifier.Simplifier(env) if fresh else env.simplifier).simplify(f)),
        "substitute": (False, subst),
        "nnf": (True, lambda env, f, fresh: rw.nnf(f, env)), "prenex": (True, lambda env, f, fresh: rw.prenex_normal_form(f, env)),
        "aig": (True, lambda env, f, fresh: rw.aig(f, env)), "cnf": (True, lambda env, f, fresh: rw.cnf(f, env)),
        "propagate_toplevel": (True, lambda env, f, fresh: rw.propagate_toplevel(f, env)),
        "free_vars_as_formula": (False, fv_formula),
    }


def _embed(env, r, rnd):
    """A new formula that contains r as a sub-term."""
    m = env.formula_manager
    t = env.stc.get_type(r)
    from pysmt.typing import BOOL, INT, REAL
    if t.is_bool_type():
        p = m.Symbol("fb_p", BOOL)
        return rnd.choice([lambda: m.And(r, p), lambda: m.Not(r), lambda: m.Ite(p, r, m.Not(r)), lambda: m.Or(m.Not(r), m.And(p, r))])()
    if t.is_int_type():
        i = m.Symbol("fb_i", INT)
        return rnd.choice([lambda: m.Plus(r, i), lambda: m.Minus(i, r), lambda: m.Times(r, m.Int(2)), lambda: m.Plus(m.Plus(r, i), r), lambda: m.LT(m.Plus(r, i), i)])()
    if t.is_real_type():
        x = m.Symbol("fb_r", REAL)
        return rnd.choice([lambda: m.Plus(r, x), lambda: m.Minus(x, r), lambda: m.Div(r, m.Real(2)), lambda: m.LE(m.Plus(r, x), x)])()
    if t.is_bv_type():
        v = m.Symbol("fb_v", env.type_manager.BVType(t.width))
        return rnd.choice([lambda: m.BVAdd(r, v), lambda: m.BVNot(r), lambda: m.BVULT(m.BVXor(r, v), v)])()
    return m.Equals(r, r)


def _boolify(env, f):
    m = env.formula_manager
    t = env.stc.get_type(f)
    if t.is_bool_type():
        return f
    return m.Equals(f, f) if not (t.is_int_type() or t.is_real_type()) else m.LE(f, m.Plus(f, f))


_FRESH_RE = None


def _fresh_token(name):
    global _FRESH_RE
    if _FRESH_RE is None:
        import re
        _FRESH_RE = re.compile(r"^(?:__x|FV|\.def_|ack)\d+$")
    return "<fresh>" if _FRESH_RE.match(name) else name


def feedback_steps(chk, rnd, env, f0, label, stats, steps=3, first_op=None):
    """op0(f0) = r0; then 1..steps calls whose input is (built from) the previous RESULT object."""
    from pysmt.environment import Environment
    OPS = _feedback_ops()
    names = sorted(OPS)
    import pysmt.environment as pe
    hist = []
    cur = f0
    for k in range(steps + 1):
        if k == 0:
            nm = first_op or rnd.choice(names)
            inp = cur
            mode = "input"
        else:
            mode = rnd.choice(["same operation on the result", "another operation on the result", "operation on a new formula containing the result"])
            nm = hist[-1][0] if mode.startswith("same") else rnd.choice(names)
            inp = _embed(env, cur, rnd) if mode.startswith("operation on a new") else cur
        if OPS[nm][0]:
            inp = _boolify(env, inp)
        before_id = env.formula_manager._next_free_id
        pe.push_env(env)
        try:
            got = ("ok", OPS[nm][1](env, inp, False))
        except Exception as ex:        # noqa
            got = ("raise", type(ex).__name__)
        finally:
            pe.pop_env()
        ref = Environment()
        rinp = rebuild(inp, ref, {})
        pe.push_env(ref)
        try:
            exp = ("ok", OPS[nm][1](ref, rinp, True))
        except Exception as ex:        # noqa
            exp = ("raise", type(ex).__name__)
        finally:
            pe.pop_env()
        # fresh symbols (of this call or of an earlier cnf whose result is the input) all map to one token
        # BEFORE commutative arguments are sorted: a comparison up to fresh names that does not depend on them
        kg = (got[0], walkgen.canon_key(got[1]) if got[0] == "ok" else got[1])
        ke = (exp[0], walkgen.canon_key(exp[1]) if exp[0] == "ok" else exp[1])
        hist.append((nm, "%s(%s)  [%s]" % (nm, walkgen.canon_key(inp)[:300], mode), kg))
        stats["calls"] += 1
        if kg != ke:
            # same constructions in the same order, but no earlier calls: does THAT environment agree?
            ks = classify_difference(env, before_id, inp, lambda e, f: OPS[nm][1](e, f, True))
            if ks == kg:
                stats["creation_order"] = stats.get("creation_order", 0) + 1
                chk.violation({"kind": "history", "what": "%s gives a result that depends on the ORDER in which the nodes of its input were created (node ids), beyond AC order: "
                               "an environment with the same constructions and no earlier calls agrees with the used one, a minimal fresh environment does not" % nm,
                               "input": walkgen.canon_key(inp)[:600], "used_environment": list(kg), "minimal_fresh_environment": list(ke), "origin": label},
                              key="creation-order:%s" % nm)
                if got[0] != "ok":
                    return True
                cur = got[1]
                continue
            chk.violation({"kind": "history", "what": "%s on an input built from the RESULT of an earlier call (%s) differs from the same call on the same formula in a fresh environment"
                           % (nm, mode), "history": ["%s -> %s" % (h[1], str(h[2][1])[:300]) for h in hist], "after_history": list(kg), "fresh": list(ke),
                           "same_constructions_no_calls": list(ks), "origin": label},
                          key="feedback:%s:%s" % (hist[0][0] if len(hist) > 1 else nm, nm))
            return False
        if got[0] != "ok":
            return True
        cur = got[1]
    return True


def _arith_term(rnd, m, xs, depth, real=False):
    """Arithmetic shapes that tend not to be fixed points of the simplifier: Minus under Plus,
    Times/Div by constants, constants that are not merged."""
    if depth == 0 or rnd.random() < 0.15:
        return rnd.choice(xs + [m.Real(rnd.randrange(1, 4)) if real else m.Int(rnd.randrange(1, 4))])
    k = rnd.random()
    a, b = _arith_term(rnd, m, xs, depth - 1, real), _arith_term(rnd, m, xs, depth - 1, real)
    if k < 0.4:
        return m.Plus(a, b) if rnd.random() < 0.7 else m.Plus(a, b, _arith_term(rnd, m, xs, depth - 1, real))
    if k < 0.7:
        return m.Minus(a, b)
    if k < 0.85:
        return m.Times(a, m.Real(2) if real else m.Int(rnd.randrange(2, 4)))
    return m.Div(a, m.Real(rnd.randrange(2, 4))) if real else m.Minus(m.Times(a, m.Int(2)), b)


def creation_order_directed(chk):
    """The same formula built in two fresh environments that differ only in the order in which two
    of its leaves are created (as an earlier, unrelated formula of a history would cause)."""
    from pysmt.environment import Environment
    from pysmt.typing import INT, REAL
    shapes = [("(-1)*i0 + (-1)", lambda m, c, x: m.Plus(m.Times(c(-1), x), c(-1))),
              ("(-3)*i0 + i0", lambda m, c, x: m.Plus(m.Times(c(-3), x), x)),
              ("i0 - (-2)*i0", lambda m, c, x: m.Minus(x, m.Times(c(-2), x)))]
    for label, mk in shapes:
        for ty, cn in ((INT, "Int"), (REAL, "Real")):
            res = []
            for const_first in (False, True):
                env = Environment()
                m = env.formula_manager
                c = getattr(m, cn)
                if const_first:
                    for v in (-1, -2, -3):
                        c(v)                      # e.g. left behind by an earlier, unrelated formula
                x = m.Symbol("i0", ty)
                res.append(walkgen.canon_key(env.simplifier.simplify(mk(m, c, x))))
            chk.count(("creation-order", label, cn))
            if res[0] != res[1]:
                chk.violation({"kind": "history", "what": "simplify(%s) over %s depends on whether the constant was created before the symbol (as an earlier unrelated formula "
                               "of the same environment would cause): %s vs %s" % (label, cn, res[0], res[1]),
                               "history": ["earlier: a formula that mentions the constants -1, -2, -3", "simplify(%s)" % label], "fresh": res[0], "after_history": res[1]},
                              key="creation-order:simplify")


def feedback_family(chk, rnd, tier):
    from pysmt.environment import Environment
    import pysmt.simplifier
    from pysmt.typing import INT, REAL
    stats = {"calls": 0, "histories": 0, "non_fixed_points": 0, "arith_samples": 0}
    # (1) random recipes, any operation first, three feedback steps
    for h in range(150 if tier == "quick" else 1500):
        rows = walkgen.gen_recipe(rnd, rnd.choice([8, 12, 16]), sorts=("bool", "int", "real", "bv"), quant=rnd.random() < 0.25)
        env = Environment()
        nodes = walkgen.build(env, rows)
        f0 = nodes[rnd.randrange(len(nodes) - 4, len(nodes))]
        stats["histories"] += 1
        chk.count(("feedback", h))
        feedback_steps(chk, rnd, env, f0, "recipe %r" % (rows[-3:],), stats)
    # (2) arithmetic terms whose simplified form is NOT a fixed point of the simplifier (decided in a
    #     fresh environment), then simplify / other operations on the result and on terms containing it
    want = 100 if tier == "quick" else 1000
    env = None
    while stats["non_fixed_points"] < want and stats["arith_samples"] < 60 * want:
        if env is None or stats["arith_samples"] % 200 == 0:
            env = Environment()
            m = env.formula_manager
            xi = [m.Symbol("x%d" % k, INT) for k in range(4)]
            xr = [m.Symbol("y%d" % k, REAL) for k in range(3)]
        real = rnd.random() < 0.3
        t = _arith_term(rnd, m, xr if real else xi, rnd.choice([2, 3, 4]), real)
        stats["arith_samples"] += 1
        r = env.simplifier.simplify(t)
        ref = Environment()
        rr = rebuild(r, ref, {})
        if walkgen.canon_key(pysmt.simplifier.Simplifier(ref).simplify(rr)) == walkgen.canon_key(rr):
            continue
        stats["non_fixed_points"] += 1
        chk.count(("feedback-arith", stats["non_fixed_points"]))
        # the result object r was produced by THIS environment's simplifier: feed it back
        if not feedback_steps(chk, rnd, env, r, "simplify(%s) = %s (not a fixed point of the simplifier)" % (walkgen.canon_key(t)[:200], walkgen.canon_key(r)[:200]), stats,
                              steps=2, first_op="simplify"):
            env = None
            continue
        g = _embed(env, r, rnd)
        feedback_steps(chk, rnd, env, g, "a term containing simplify(%s)" % walkgen.canon_key(t)[:200], stats, steps=1, first_op="simplify")
    chk.cov["feedback"] = stats
    return stats


def run(tier):
    chk = lib.Check("C14", tier)
    rnd = random.Random(chk.seed)
    warnings.simplefilter("ignore")
    ok = chk.prove()
    corpus_histories(chk)
    C = _calls()
    nh = 2500 if tier == "quick" else 20000
    nrec = 300 if tier == "quick" else 1500
    rows_out, meta = [], []
    done = skipped = 0
    hist = {}
    for k in range(nh):
        r = one_history(rnd, C, rnd.choice([3, 6, 10, 16]), record=(k < nrec))
        if r is None:
            skipped += 1
            continue
        replay, diffs, recs = r
        done += 1
        hist[replay["probe"][0]] = hist.get(replay["probe"][0], 0) + 1
        chk.count((tuple(map(str, replay["recipe"][-2:])), tuple(replay["history"]), replay["probe"]), nontrivial=len(replay["history"]) > 0)
        for rc in recs:
            if rc.walks:
                rows_out.append(rc.coq())
                meta.append(dict(replay, walker=rc.name))
        if replay.get("creation_order"):
            chk.violation(dict(replay, kind="history", what="%s gives a result that depends on the ORDER in which nodes were created (earlier constructions made by the history), "
                               "beyond AC order: an environment with the same constructions and no earlier calls agrees with the used one" % replay["probe"][0]),
                          key="creation-order:%s" % replay["probe"][0])
        if diffs:
            aliasing = any("MUTATED" in d["what"] for d in diffs)
            chk.violation(dict(replay, kind="history", what=diffs[0]["what"], differences=diffs[:4]),
                          key=("aliasing:" if aliasing else "history:") + "%s:%s" % (replay["probe"][0], ",".join(sorted(set(h[0] for h in replay["history"])))))
        if k < 3:
            chk.sample({"history": replay["history"], "probe": replay["probe"], "rows": len(replay["recipe"])})
    chk.note("histories %d (skipped because a call of the history raised: %d)" % (done, skipped))
    aliasing_directed(chk)
    tv = time.time()
    vol = [volume_history(chk, rnd) for _ in range(1 if tier == "quick" else 3)]
    chk.cov["volume_histories"] = {"count": len(vol), "distinct_nodes_through_each_walker": vol, "stages": "after > 2^16 and after > 2^17 distinct nodes",
                                   "seconds": round(time.time() - tv, 1)}
    creation_order_directed(chk)
    feedback_family(chk, rnd, tier)
    nc = 400 if tier == "quick" else 4000
    hits = {}
    for h in range(nc):
        for which in ("MG", "MS"):
            d = container_history(chk, chk.seed * 100003 + h, which)
            if d:
                hits[d[0]["mutation"]] = hits.get(d[0]["mutation"], 0) + 1
    eager_model_histories(chk, rnd, 40 if tier == "quick" else 400)
    parser_stream_histories(chk, rnd, 20 if tier == "quick" else 200)
    chk.cov["container_histories"] = {"substitute": 2 * nc, "mutations": list(MUTATIONS), "eager_model": 40 if tier == "quick" else 400,
                                      "parser_stream": 20 if tier == "quick" else 200, "failing_by_mutation": hits}
    sort_aliasing(chk)
    binder_arg_histories(chk, rnd, 512 if tier == "quick" else 4096)

    lib.clean_cases(chk.dir)
    files, per = [], 60
    for k in range(0, len(rows_out), per):
        p = os.path.join(chk.dir, "cases_%d.v" % (k // per))
        with open(p, "w") as f:
            f.write(walktap.case_file(rows_out[k:k + per]))
        files.append(p)
    corr_bad = []
    lib.coq_make(["models/DagWalkRun.vo"])   # not in the closure of the property file: build it here
    if os.path.exists(os.path.join(lib.COQ, "models", "DagWalkRun.vo")):
        res = lib.run_case_files(files)
        for i, p in enumerate(files):
            rc, out = res[p]
            mm = lib.parse_nat_list(out) if rc == 0 else None
            if mm is None:
                corr_bad.append({"file": p, "error": out[-400:]})
            else:
                for j in mm:
                    corr_bad.append({"walker": meta[i * per + j]["walker"], "repro": meta[i * per + j]["repro"][:1500],
                                     "what": "model and implementation differ on a history (callback order / iterations / stack / memo keys)"})
    else:
        corr_bad.append({"error": "models/DagWalkRun.v does not compile"})
    chk.cov["correspondence"] = {"walker_histories_in_model": len(rows_out), "disagreements": len(corr_bad), "examples": corr_bad[:5],
                                 "compared": "every walk() of 8 environment-wide walkers during the history: callback order, loop iterations, stack, memo keys"}
    chk.cov["histories"] = {"run": done, "skipped_failing": skipped, "probe_calls": hist, "api_calls": sorted(C)}
    if (not ok or corr_bad) and not chk.violations:
        what = []
        if not ok:
            what.append("proof obligations no longer check: " + lib.proof_failure_summary(chk))
        if corr_bad:
            what.append("correspondence model<->implementation differs: %s" % corr_bad[:3])
        chk.violation({"kind": "obligation", "theorem_or_correspondence": what}, found_input=False)
    return chk.finish(TRUSTED, ASSUMPTIONS,
                      "random recipes (Bool/Int/BV/String/Real/UF, shared sub-DAGs, 20% with a quantifier) -> random history of 3..16 API calls on rows "
                      "of the recipe -> probe call; compared with the probe alone in a fresh Environment, with a repeated probe, with the Coq machine")


def corpus_histories(chk):
    """Histories kept from earlier runs (minimised failures and false alarms of the comparison);
    they run first.  Each must give the fresh-environment answer."""
    path = os.path.join(os.path.dirname(os.path.abspath(__file__)), "corpus", "c14_histories.json")
    try:
        entries = json.load(open(path))
    except OSError:
        entries = []
    import contextlib
    for k, e in enumerate(entries):
        rows = [tuple(r) for r in e["rows"]]
        history = [tuple(h) for h in e["history"]]
        probe = tuple(e["probe"])
        with contextlib.redirect_stdout(io.StringIO()) as out:
            rc = replay_history(rows, history, probe)
        chk.count(("corpus", k))
        if rc:
            chk.violation({"kind": "history", "what": "corpus history %d: probe after the history differs from the probe in a fresh environment" % k, "recipe": rows,
                           "history": history, "probe": probe, "output": out.getvalue()[-1500:],
                           "repro": "harness.c14.replay_history(%r, %r, %r)" % (rows, history, probe)}, key="corpus:%d" % k)
    chk.cov["corpus_histories"] = len(entries)


def replay_history(rows, history, probe):
    warnings.simplefilter("ignore")
    from pysmt.environment import Environment
    C = _calls()
    env = Environment()
    recs = [Recorder(nm, getattr(env, nm), kind, early, oneshot) for nm, kind, early, oneshot in WALKERS]
    nodes = walkgen.build(env, rows)
    import pysmt.environment as pe
    pe.push_env(env)
    for nm, i, prm in history:
        C[nm][1](env, nodes[i], prm)
        for r in recs:
            r.check_memo_stable("%s(row %d)" % (nm, i))
    a = C[probe[0]][1](env, nodes[probe[1]], probe[2])
    pe.pop_env()
    for r in recs:
        r.check_memo_stable("probe")
    fe = Environment()
    fn = walkgen.build(fe, walkgen.restrict(rows, probe[1]))
    pe.push_env(fe)
    b = C[probe[0]][1](fe, fn[probe[1]], probe[2])
    pe.pop_env()
    ka, kb = walkgen.canon_key(a), walkgen.canon_key(b)
    print("after history:", ka[:600])
    print("fresh        :", kb[:600])
    bad = [p for r in recs for p in r.problems]
    for p in bad:
        print("memo:", p)
    return 1 if (ka != kb or bad) else 0


def replay(path):
    r = json.load(open(path))
    print(json.dumps(r, indent=1)[:3000])
    rep = r.get("repro", "")
    if rep.startswith("harness.c14."):
        return eval(rep[len("harness.c14."):])
    return run("quick")
