"""C14 - results do not depend on what the environment was used for before."""
import io
import json
import os
import random
import warnings

from . import lib, walktap, walkgen
from .walktap import Tap, export_dag

TRUSTED = [
    "Coq 8.16.1 kernel; vm_compute evaluates the memo-table machine on the exported histories; no native_compute",
    "hand model models/EnvHistory.v (family of persistent walkers) and models/WalkerFail.v (one-shot substituter) over core/DagWalk.v, tied by correspondence: every walk() of every environment-wide walker during a history is recorded (callback order, loop iterations, stack, memo keys) and replayed in the model",
    "twin run: the probe formula alone, built in a fresh Environment; results compared up to the order of commutative arguments and the names of fresh symbols (harness/walkgen.py: canon, rename_fresh)",
    "aliasing of mutable cached answers (Theory objects in the TheoryOracle memo) is outside the functional model: it is checked on the implementation by (a) the twin comparison and (b) a snapshot of every memo table after every call of the history (an entry, once stored, must never change)",
    "hash-consing (equal structure = same object) is C04's theorem; here it is used through `is` on repeated calls",
]
ASSUMPTIONS = [
    "histories contain no failing call (C15 covers those)",
    "C14_history_independent: calls succeed or fail at the root of their traversal (api_ok)",
    "values are compared through the pure fold F of the callback (ans_equiv); AC order and fresh names by the correspondence",
]

SORTS = ("bool", "int", "bv", "str", "real")
MEASURES = 6


def _calls():
    """API calls: name -> (needs bool, fn(env, f, rnd_params) -> result)."""
    import pysmt.oracles as orc
    import pysmt.rewritings as rw
    from pysmt.smtlib.printers import SmtDagPrinter, SmtPrinter
    from pysmt.smtlib.parser import SmtLibParser
    import pysmt.environment as pe

    def smt(env, f, dag):
        pe.push_env(env)
        try:
            buf = io.StringIO()
            (SmtDagPrinter(buf) if dag else SmtPrinter(buf)).printer(f)
            return buf.getvalue()
        finally:
            pe.pop_env()

    def parse_back(env, f, prm):
        txt = smt(env, f, True)
        decls = []
        for s in sorted(env.fvo.get_free_variables(f), key=lambda s: s.symbol_name()):
            ty = s.symbol_type()
            if ty.is_function_type():
                decls.append("(declare-fun %s (%s) %s)" % (s.symbol_name(), " ".join(p.as_smtlib(False) for p in ty.param_types), ty.return_type.as_smtlib(False)))
            else:
                decls.append("(declare-fun %s () %s)" % (s.symbol_name(), ty.as_smtlib(False)))
        sc = SmtLibParser(environment=env).get_script(io.StringIO("\n".join(decls) + "\n(assert %s)\n" % txt))
        return sc.get_last_formula()

    def subst(env, f, prm):
        fv = sorted((s for s in env.fvo.get_free_variables(f) if not s.symbol_type().is_function_type()), key=lambda s: s.symbol_name())
        if not fv:
            return f
        m = env.formula_manager
        subs = {}
        for k in range(1 + prm % 2):
            a = fv[(prm // 2 + k) % len(fv)]
            same = [s for s in fv if s.symbol_type() == a.symbol_type()]
            subs[a] = same[(prm // 7) % len(same)] if prm % 3 else m.Symbol(a.symbol_name() + "_n%d" % (prm % 2), a.symbol_type())
        return env.substituter.substitute(f, subs)

    C = {
        "get_type": (False, lambda env, f, p: str(env.stc.get_type(f))),
        "simplify": (False, lambda env, f, p: env.simplifier.simplify(f)),
        "substitute": (False, subst),
        "free_vars": (False, lambda env, f, p: env.fvo.get_free_variables(f)),
        "atoms": (True, lambda env, f, p: env.ao.get_atoms(f)),
        "qf": (False, lambda env, f, p: env.qfo.is_qf(f)),
        "types": (False, lambda env, f, p: [str(t) for t in env.typeso.get_types(f)]),
        "size": (False, lambda env, f, p: env.sizeo.get_size(f, p % MEASURES)),
        "theory": (False, lambda env, f, p: str(env.theoryo.get_theory(f))),
        "get_logic": (False, lambda env, f, p: str(orc.get_logic(f, env))),
        # human-readable serialisation goes through the environment-wide env.serializer (str/repr use threshold 5)
        "str": (False, lambda env, f, p: str(f)),
        "repr": (False, lambda env, f, p: repr(f)),
        "serialize": (False, lambda env, f, p: f.serialize()),
        "serialize_k": (False, lambda env, f, p: f.serialize(threshold=1 + p % 5)),
        "to_smtlib_dag": (False, lambda env, f, p: smt(env, f, True)),
        "to_smtlib_tree": (False, lambda env, f, p: smt(env, f, False)),
        "parse": (True, parse_back),
        "nnf": (True, lambda env, f, p: rw.nnf(f, env)),
        "prenex": (True, lambda env, f, p: rw.prenex_normal_form(f, env)),
        "aig": (True, lambda env, f, p: rw.aig(f, env)),
        "cnf": (True, lambda env, f, p: rw.cnf(f, env)),
    }
    return C


SAME_OBJECT = ("simplify", "substitute", "nnf", "prenex", "aig", "parse")      # formula-valued, no fresh symbols


class SnapDict(dict):
    """The walker's memo table, remembering what every answer looked like when it was stored."""

    def __init__(self, *a):
        dict.__init__(self, *a)
        self.at_store = {}

    def __setitem__(self, k, v):
        dict.__setitem__(self, k, v)
        self.at_store[k] = (v, _content(v))


class Recorder(object):
    """Records every walk() of one environment-wide walker (also the nested ones started by
    other walkers' callbacks) in the form the Coq model replays."""

    def __init__(self, name, walker, kind, early, oneshot):
        self.name, self.w, self.kind, self.early, self.oneshot = name, walker, kind, early, oneshot
        self.tap = Tap(walker, kind, limit=None)
        self.ids, self.table, self.walks = {}, [], []
        self.problems = []
        walker.memoization = SnapDict(walker.memoization)
        orig = walker.walk

        def walk(formula, **kw):
            key = (kw.get("measure"), formula) if kind == "size" else formula
            export_dag(walker, kind, [key], self.ids, self.table)
            start, p0 = len(self.tap.log), self.tap.pops
            res = orig(formula, **kw)
            ids = self.ids
            memo = [] if oneshot else [ids[k] for k in walker.memoization if k in ids]
            self.walks.append(walktap.coq_walk(ids[key], [], (0, 0), [ids.get(k, 0) for k in self.tap.log[start:]], self.tap.pops - p0,
                                               walktap.stack_ids(walker, kind, ids), memo))
            return res
        walker.walk = walk
        if hasattr(walker, "original_walk"):
            walker.original_walk = walk

    def check_memo_stable(self, label):
        """An entry, once stored, is never replaced and its content never changes."""
        if self.oneshot or self.problems:
            return
        memo = self.w.memoization
        for k, (obj, rep) in memo.at_store.items():
            cur = memo.get(k, self)
            if cur is self:
                self.problems.append("%s: memo entry disappeared after %s" % (self.name, label))
            elif cur is not obj:
                self.problems.append("%s: memo entry replaced after %s" % (self.name, label))
            elif _content(cur) != rep:
                self.problems.append("%s: the cached answer for key %s was MUTATED in place after it was stored (seen after %s): %s -> %s"
                                     % (self.name, walkgen.canon(k) if hasattr(k, "node_id") else "?", label, rep, _content(cur)))

    def coq(self):
        return walktap.coq_case(self.table, self.early, self.oneshot, self.walks)


def _content(v):
    if hasattr(v, "__dict__") and not hasattr(v, "node_id"):
        return repr(sorted(vars(v).items()))
    if isinstance(v, (list, dict, set)):
        return repr(v)
    return None


WALKERS = [("simplifier", "plain", True, False), ("substituter", "subst", True, True), ("fvo", "plain", True, False),
           ("qfo", "plain", True, False), ("ao", "plain", True, False), ("typeso", "plain", True, False),
           ("theoryo", "plain", True, False), ("sizeo", "size", False, False)]


def one_history(rnd, C, hist_len, record):
    """Returns (replay dict, diffs, recorders)."""
    from pysmt.environment import Environment
    rows = walkgen.gen_recipe(rnd, rnd.choice([8, 12, 16, 22]), sorts=SORTS, quant=rnd.random() < 0.2)
    env = Environment()
    recs = []
    if record:
        for nm, kind, early, oneshot in WALKERS:
            recs.append(Recorder(nm, getattr(env, nm), kind, early, oneshot))
    nodes = walkgen.build(env, rows)
    bools = [i for i, n in enumerate(nodes) if env.stc.get_type(n).is_bool_type()]
    names = sorted(C)
    pnm = rnd.choice(names)
    pi = rnd.choice(bools[-3:]) if C[pnm][0] or rnd.random() < 0.7 else rnd.randrange(len(nodes))
    probe = (pnm, pi, rnd.randrange(1000))
    pbool = env.stc.get_type(nodes[pi]).is_bool_type()
    history = []
    for _ in range(hist_len):
        nm = rnd.choice(names)
        if rnd.random() < 0.3 and (pbool or not C[nm][0]):
            i = pi            # earlier calls on the probe formula itself (per-formula caches)
        else:
            i = rnd.choice(bools) if C[nm][0] else rnd.randrange(len(nodes))
        history.append((nm, i, rnd.randrange(1000)))
    problems = []
    import pysmt.environment as pe

    def do(e, ns, call):
        nm, i, prm = call
        pe.push_env(e)      # FNode.serialize / str / simplify() resolve services through get_env()
        try:
            return ("ok", C[nm][1](e, ns[i], prm))
        except Exception as ex:        # noqa
            return ("raise", type(ex).__name__)
        finally:
            pe.pop_env()
    failing = False
    for call in history:
        o = do(env, nodes, call)
        if o[0] == "raise":
            failing = True             # not a C14 history
            break
        for r in recs:
            r.check_memo_stable("%s(row %d)" % (call[0], call[1]))
    if failing:
        return None
    after = do(env, nodes, probe)
    again = do(env, nodes, probe)
    for r in recs:
        r.check_memo_stable("%s(row %d)" % (probe[0], probe[1]))
        problems += r.problems
    fresh_env = Environment()
    fnodes = walkgen.build(fresh_env, walkgen.restrict(rows, pi))
    fresh = do(fresh_env, fnodes, probe)
    diffs = []

    def key(o):
        return (o[0], walkgen.rename_fresh(walkgen.canon_value(o[1])) if o[0] == "ok" else o[1])
    if key(after) != key(fresh):
        diffs.append({"what": "probe after the history differs from the probe in a fresh environment",
                      "after_history": list(key(after)), "fresh": list(key(fresh))})
    if after[0] == "ok" and probe[0] in SAME_OBJECT and after[1] is not again[1]:
        diffs.append({"what": "repeating the call returned another object", "first": str(key(after)), "second": str(key(again))})
    elif key(after) != key(again) and probe[0] != "cnf":
        diffs.append({"what": "repeating the call returned another result", "first": list(key(after)), "second": list(key(again))})
    for p in problems:
        diffs.append({"what": p})
    replay = {"recipe": rows, "history": history, "probe": probe,
              "repro": "harness.c14.replay_history(%r, %r, %r)" % (rows, history, probe)}
    return replay, diffs, recs


def aliasing_directed(chk):
    """Mutable cached answers: for every operator whose TheoryOracle rule extends the theory of
    its argument, ask for the theory of op(t) first and of a formula over t alone afterwards."""
    from pysmt.environment import Environment
    from pysmt.typing import BOOL, INT, REAL, STRING

    def cases(env):
        m, tm = env.formula_manager, env.type_manager
        s, s2 = m.Symbol("s", STRING), m.Symbol("s2", STRING)
        v = m.Symbol("v", tm.BVType(8))
        i, r, p = m.Symbol("i", INT), m.Symbol("r", REAL), m.Symbol("p", BOOL)
        a = m.Symbol("a", tm.ArrayType(INT, INT))
        ff = m.Symbol("ff", tm.FunctionType(INT, [STRING]))
        gg = m.Symbol("gg", tm.FunctionType(BOOL, [tm.BVType(8)]))
        one = m.Int(1)
        return [
            ("StrLength(s)", m.Equals(m.StrLength(s), one), m.Equals(s, m.String("a"))),
            ("StrToInt(s)", m.Equals(m.StrToInt(s), one), m.Equals(s, s2)),
            ("StrLength(StrConcat)", m.Equals(m.StrLength(m.StrConcat(s, s2)), one), m.Equals(m.StrConcat(s, s2), s)),
            ("StrIndexOf", m.Equals(m.StrIndexOf(s, s2, i), one), m.Equals(s, s2)),
            ("StrIndexOf/int", m.Equals(m.StrIndexOf(s, s2, i), one), m.LT(i, m.Plus(i, one))),
            ("BVToNatural(v)", m.Equals(m.BVToNatural(v), one), m.Equals(v, m.BV(1, 8))),
            ("BVToNatural(BVNot v)", m.Equals(m.BVToNatural(m.BVNot(v)), one), m.Equals(m.BVNot(v), v)),
            ("ToReal(i)", m.LT(m.ToReal(i), r), m.LT(i, one)),
            ("f(s)", m.Equals(m.Function(ff, [s]), one), m.Equals(s, s2)),
            ("g(v)", m.Function(gg, [v]), m.Equals(v, m.BV(1, 8))),
            ("Not(p) under StrLength side", m.And(m.Not(p), m.Equals(m.StrLength(s), one)), m.Not(p)),
            ("Array value", m.Equals(m.Array(INT, one, {m.Int(2): i}), a), m.LT(i, one)),
            ("Array const", m.Equals(m.Array(INT, one), a), m.Equals(one, one)),
            ("Select/Store", m.Equals(m.Select(m.Store(a, i, one), i), one), m.Equals(a, a)),
            ("Times nonlinear", m.Equals(m.Times(i, i), one), m.LT(i, one)),
            ("Pow", m.LT(m.Pow(r, m.Real(2)), r), m.LT(r, m.Real(1))),
            ("Div", m.LT(m.Div(r, m.Real(2)), r), m.LT(r, m.Real(1))),
            ("Ite", m.Equals(m.Ite(p, m.StrLength(s), i), one), m.Equals(s, s2)),
        ]
    n = len(cases(Environment()))
    for k in range(n):
        for probe_kind in ("theory", "logic"):
            env, fresh = Environment(), Environment()
            label, W, P = cases(env)[k]
            _, _, FP = cases(fresh)[k]
            import pysmt.oracles as orc
            get = (lambda e, f: str(e.theoryo.get_theory(f))) if probe_kind == "theory" else (lambda e, f: str(orc.get_logic(f, e)))
            rec = Recorder("theoryo", env.theoryo, "plain", True, False)
            try:
                first = get(env, W)
                again = get(env, W)
                after = get(env, P)
                alone = get(fresh, FP)
            except Exception as ex:       # noqa
                chk.cov.setdefault("aliasing_skipped", []).append("%s: %s" % (label, type(ex).__name__))
                continue
            rec.check_memo_stable("get_theory(%s)" % label)
            chk.count(("aliasing", label, probe_kind))
            rep = {"kind": "history", "history": ["get_%s(%s)" % (probe_kind, walkgen.canon(W)), "get_%s(%s)" % (probe_kind, walkgen.canon(P))],
                   "repro": "harness.c14.aliasing_replay(%d, %r)" % (k, probe_kind)}
            if after != alone or first != again:
                chk.violation(dict(rep, what="the theory detected for a formula depends on an earlier query about %s: a cached Theory object was "
                                   "changed after it was stored" % label, after_history=after, fresh=alone), key="aliasing:theory:%s" % label)
            elif rec.problems:
                chk.violation(dict(rep, what=rec.problems[0]), key="aliasing:theory-memo:%s" % label)


def aliasing_replay(k, probe_kind):
    class C(object):
        cov = {}

        def __init__(self):
            self.v = []

        def count(self, *a, **kw):
            pass

        def violation(self, rep, key=None):
            self.v.append(key)
            print(key, rep.get("what"), rep.get("after_history"), rep.get("fresh"))
    c = C()
    aliasing_directed(c)
    return 1 if c.v else 0


def run(tier):
    chk = lib.Check("C14", tier)
    rnd = random.Random(chk.seed)
    warnings.simplefilter("ignore")
    ok = chk.prove()
    C = _calls()
    nh = 2500 if tier == "quick" else 20000
    nrec = 300 if tier == "quick" else 1500
    rows_out, meta = [], []
    done = skipped = 0
    hist = {}
    for k in range(nh):
        r = one_history(rnd, C, rnd.choice([3, 6, 10, 16]), record=(k < nrec))
        if r is None:
            skipped += 1
            continue
        replay, diffs, recs = r
        done += 1
        hist[replay["probe"][0]] = hist.get(replay["probe"][0], 0) + 1
        chk.count((tuple(map(str, replay["recipe"][-2:])), tuple(replay["history"]), replay["probe"]), nontrivial=len(replay["history"]) > 0)
        for rc in recs:
            if rc.walks:
                rows_out.append(rc.coq())
                meta.append(dict(replay, walker=rc.name))
        if diffs:
            aliasing = any("MUTATED" in d["what"] for d in diffs)
            chk.violation(dict(replay, kind="history", what=diffs[0]["what"], differences=diffs[:4]),
                          key=("aliasing:" if aliasing else "history:") + "%s:%s" % (replay["probe"][0], ",".join(sorted(set(h[0] for h in replay["history"])))))
        if k < 3:
            chk.sample({"history": replay["history"], "probe": replay["probe"], "rows": len(replay["recipe"])})
    chk.note("histories %d (skipped because a call of the history raised: %d)" % (done, skipped))
    aliasing_directed(chk)

    lib.clean_cases(chk.dir)
    files, per = [], 60
    for k in range(0, len(rows_out), per):
        p = os.path.join(chk.dir, "cases_%d.v" % (k // per))
        with open(p, "w") as f:
            f.write(walktap.case_file(rows_out[k:k + per]))
        files.append(p)
    corr_bad = []
    if os.path.exists(os.path.join(lib.COQ, "models", "DagWalkRun.vo")):
        res = lib.run_case_files(files)
        for i, p in enumerate(files):
            rc, out = res[p]
            mm = lib.parse_nat_list(out) if rc == 0 else None
            if mm is None:
                corr_bad.append({"file": p, "error": out[-400:]})
            else:
                for j in mm:
                    corr_bad.append({"walker": meta[i * per + j]["walker"], "repro": meta[i * per + j]["repro"][:1500],
                                     "what": "model and implementation differ on a history (callback order / iterations / stack / memo keys)"})
    else:
        corr_bad.append({"error": "models/DagWalkRun.v does not compile"})
    chk.cov["correspondence"] = {"walker_histories_in_model": len(rows_out), "disagreements": len(corr_bad), "examples": corr_bad[:5],
                                 "compared": "every walk() of 8 environment-wide walkers during the history: callback order, loop iterations, stack, memo keys"}
    chk.cov["histories"] = {"run": done, "skipped_failing": skipped, "probe_calls": hist, "api_calls": sorted(C)}
    if (not ok or corr_bad) and not chk.violations:
        what = []
        if not ok:
            what.append("proof obligations no longer check: " + lib.proof_failure_summary(chk))
        if corr_bad:
            what.append("correspondence model<->implementation differs: %s" % corr_bad[:3])
        chk.violation({"kind": "obligation", "theorem_or_correspondence": what}, found_input=False)
    return chk.finish(TRUSTED, ASSUMPTIONS,
                      "random recipes (Bool/Int/BV/String/Real/UF, shared sub-DAGs, 20% with a quantifier) -> random history of 3..16 API calls on rows "
                      "of the recipe -> probe call; compared with the probe alone in a fresh Environment, with a repeated probe, with the Coq machine")


def replay_history(rows, history, probe):
    warnings.simplefilter("ignore")
    from pysmt.environment import Environment
    C = _calls()
    env = Environment()
    recs = [Recorder(nm, getattr(env, nm), kind, early, oneshot) for nm, kind, early, oneshot in WALKERS]
    nodes = walkgen.build(env, rows)
    import pysmt.environment as pe
    pe.push_env(env)
    for nm, i, prm in history:
        C[nm][1](env, nodes[i], prm)
        for r in recs:
            r.check_memo_stable("%s(row %d)" % (nm, i))
    a = C[probe[0]][1](env, nodes[probe[1]], probe[2])
    pe.pop_env()
    for r in recs:
        r.check_memo_stable("probe")
    fe = Environment()
    fn = walkgen.build(fe, walkgen.restrict(rows, probe[1]))
    pe.push_env(fe)
    b = C[probe[0]][1](fe, fn[probe[1]], probe[2])
    pe.pop_env()
    ka, kb = walkgen.rename_fresh(walkgen.canon_value(a)), walkgen.rename_fresh(walkgen.canon_value(b))
    print("after history:", ka[:600])
    print("fresh        :", kb[:600])
    bad = [p for r in recs for p in r.problems]
    for p in bad:
        print("memo:", p)
    return 1 if (ka != kb or bad) else 0


def replay(path):
    r = json.load(open(path))
    print(json.dumps(r, indent=1)[:3000])
    rep = r.get("repro", "")
    if rep.startswith("harness.c14.replay_history(") or rep.startswith("harness.c14.aliasing_replay("):
        return eval(rep[len("harness.c14."):])
    return run("quick")
