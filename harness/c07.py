"""C07 - the SMT-LIB text pySMT writes is well-formed SMT-LIB and means the same as the formula.

Proof: coq/props/C07.v over core/SmtStd.v (specification) and models/SmtPrinter.v, SmtScript.v.
Correspondence (H): pySMT's text, split by harness/smtread.py's lexer, is compared token for
token with the model's output (inside Coq, vm_compute) for the tree printer, the DAG printer and
the script made by smtlibscript_from_formula.
Search (independent of the model): harness/smtread.py reads the produced script (set-logic first,
every sort/symbol declared exactly once before use, every term well-sorted) and evaluates the
asserted term under random interpretations; the value must be refeval's value of the FNode.
Thorough tier: z3 and cvc5 binaries read the same scripts (parse / sort check only).
"""
import json
import os
import random
import subprocess
import tempfile
import warnings
from io import StringIO

from pysmt.environment import Environment, push_env, pop_env, get_env
from pysmt.exceptions import NoLogicAvailableError
from pysmt.typing import BOOL, INT, REAL, STRING, BVType, ArrayType, FunctionType

from . import gen_all, lib, termcases, tocoq, refeval, smtread
from .gen.formulas import Config, FormulaGen

TRUSTED = [
    "Coq 8.16.1 kernel (coqc); no native_compute",
    "core/SmtStd.v: the SMT-LIB 2.6 specification at s-expression level (lexical classes of atoms, sort and term grammar, "
    "parallel let, binders, indexed identifiers, as const, spelling table name -> core/Sem.v operator, static sorting, script "
    "well-formedness) and core/Sem.v (values, eval) the theorems are stated against; cross-read on every run by the independent "
    "Python reader harness/smtread.py (+ z3/cvc5 in the thorough tier)",
    "hand models models/SmtPrinter.v (SmtPrinter, SmtDagPrinter, quote, as_smtlib) and models/SmtScript.v "
    "(smtlibscript_from_formula, SmtLibCommand.serialize), tied to pysmt/smtlib/printers.py, script.py, utils.py, typing.py by "
    "this run's token-exact correspondence; models/Oracles.v (free symbols, sorts) as in C12",
    "harness/tocoq.py (FNode -> Gallina literal), harness/smtread.py's lexer (token split of pySMT's text), harness/refeval.py",
    "characters <-> tokens: the theorems are about token sequences (s-expressions whose atoms are the token texts); that "
    "rendering tokens separated by blanks and re-lexing gives the tokens back is checked by smtread.py on every produced text, not proved",
]
ASSUME = [
    "symbol names: printable strings that are not SMT-LIB reserved words / theory symbols and contain no | or \\ (the property's exclusions; | and \\ are reported as a finding)",
    "FNode identity = structural equality (hash-consing, C04) - the DAG printer's memo is keyed by term equality in the model",
    "annotations are not modelled (printers are created without annotations by to_smtlib/serialize)",
    "array index sorts are first-order in Sem.v",
    "tree and DAG soundness theorems: every operator except Pow; string constants printable ASCII without backslash; array values assigned at pairwise distinct Bool/Int/Real/BV/String constants (Real in lowest terms); the arguments of Iff / extract / rotate / extend lie in C01's fragment okt (proofs/SimplifierSemBase_proofs.v: okt_sound gives the sort of their value)",
    "script_wellformed: C07_script_wellformed, both printers, closed under the global context; TypesOracle completeness (every custom sort to be read is reported, hence declared: C07_needed_sorts_read_back, via C12's get_types_def) discharges the sort-readback hypotheses; remaining side conditions: logic/sort/symbol names read back and are pairwise distinct, function symbols have parameters, sorts well-formed (positive widths, no function sort inside), formula Bool-typed, per-node conditions of wfp and srt",
]

THEORY_NAMES = set(smtread.THEORY) | {"true", "false"}


# ------------------------------------------------------------------------------------------------
# pySMT side
# ------------------------------------------------------------------------------------------------
def impl_texts(f):
    """(tree text, dag text) through to_smtlib, cross-checked against the printer classes."""
    from pysmt.smtlib.printers import SmtPrinter, SmtDagPrinter, to_smtlib
    t = to_smtlib(f, daggify=False)
    d = to_smtlib(f, daggify=True)
    b1, b2 = StringIO(), StringIO()
    SmtPrinter(b1).printer(f)
    SmtDagPrinter(b2).printer(f)
    same = (b1.getvalue() == t and b2.getvalue() == d and f.to_smtlib(daggify=False) == t and f.to_smtlib(daggify=True) == d)
    return t, d, same


def impl_script(f, dag):
    """(text, logic name) of smtlibscript_from_formula(f).serialize; falls back to an explicit logic
    when no SMT-LIB logic is close enough (the property is about the text, not the logic choice)."""
    from pysmt.smtlib.script import smtlibscript_from_formula
    with warnings.catch_warnings():
        warnings.simplefilter("ignore")
        try:
            sc = smtlibscript_from_formula(f)
        except NoLogicAvailableError:
            sc = smtlibscript_from_formula(f, logic="ALL")
    buf = StringIO()
    sc.serialize(buf, daggify=dag)
    return buf.getvalue(), str(sc.commands[0].args[0])


def flat(sx):
    if isinstance(sx, str):
        return [sx]
    out = ["("]
    for x in sx:
        out += flat(x)
    out.append(")")
    return out


# ------------------------------------------------------------------------------------------------
# generators
# ------------------------------------------------------------------------------------------------
NAME_ALPHA = list("abcXYZ019 _-+.!?#()[]{};:'\",<>=@$%^&*~/") + ["é", "λ", "漢"]
FIXED_NAMES = [".def_0", ".def_1", ".def_2", ".def_10", "Int", "Real", "Bool", "12", "1.5", "#b01", "#xff", "\"s\"", "a b",
               "x;y", "(", ")", "a(b", "String", "Array", "BitVec", ":kw", "0abc", "x'", "A.B", "~!@$%^&*_-+=<>.?/", " lead", "trail ",
               "TRUE", "True", "NUMERAL_", "Let", "a\"b", "été", "x y z", "_x", "!x", "as_", ".def_", ".def_x", "def_0", "..def_0"]


def weird_name(rnd):
    if rnd.random() < 0.5:
        return rnd.choice(FIXED_NAMES)
    n = rnd.randint(1, 6)
    return "".join(rnd.choice(NAME_ALPHA) for _ in range(n))


def excluded_name(s):
    """Names the property excludes (SMT-LIB cannot declare them) or that are reported as findings."""
    return s in smtread.RESERVED or s in THEORY_NAMES or "|" in s or "\\" in s or any(ord(c) < 32 or ord(c) == 127 for c in s)


def names_formula(env, rnd):
    """A formula over symbols / functions / bound variables with names that need quoting."""
    m = env.formula_manager
    used = set()

    def fresh():
        for _ in range(50):
            s = weird_name(rnd)
            if not excluded_name(s) and s not in used:
                used.add(s)
                return s
        s = "n%d" % len(used)
        used.add(s)
        return s
    b1, b2 = m.Symbol(fresh(), BOOL), m.Symbol(fresh(), BOOL)
    i1, i2 = m.Symbol(fresh(), INT), m.Symbol(fresh(), INT)
    r1 = m.Symbol(fresh(), REAL)
    s1 = m.Symbol(fresh(), STRING)
    v1 = m.Symbol(fresh(), BVType(4))
    a1 = m.Symbol(fresh(), ArrayType(INT, INT))
    fn = m.Symbol(fresh(), FunctionType(INT, [INT, BOOL]))
    parts = [b1, m.Iff(b1, b2), m.LE(m.Plus(i1, i2), m.Function(fn, [i1, b2])), m.LT(r1, m.Real(2)),
             m.Equals(m.StrLength(s1), i2), m.BVULT(v1, m.BVAdd(v1, m.BV(3, 4))), m.Equals(m.Select(a1, i1), m.Plus(i1, i2)),
             m.ForAll([i1], m.Exists([b1, i2], m.And(b1, m.LE(i1, m.Plus(i1, i2))))),
             m.Exists([v1], m.Or(m.Equals(v1, m.BV(0, 4)), m.Not(b2), m.LE(m.Plus(i1, i2), m.Function(fn, [i1, b2]))))]
    rnd.shuffle(parts)
    k = rnd.randint(2, len(parts))
    f = m.And(parts[:k]) if rnd.random() < 0.7 else m.Or(m.And(parts[:k]), m.Not(m.And(parts[:k])), parts[0])
    return f


def const_formula(env, rnd):
    """Negative / rational / huge constants, strings with quotes and non-ASCII, BV widths, nested arrays."""
    from fractions import Fraction
    m = env.formula_manager
    ints = [0, 1, -1, 7, -7, 10 ** 30, -(10 ** 30) - 1, 2 ** 64, -(2 ** 63)]
    reals = [Fraction(0), Fraction(-1), Fraction(1, 3), Fraction(-22, 7), Fraction(10 ** 25, 3), Fraction(-(10 ** 25) - 1, 10 ** 9 + 7), Fraction(5)]
    strs = ["", "a", "\"", "\"\"", "a\"b\"c", "x y", "tab\tsep", "(;|", "semi;colon", "back\\slash", "café", "漢字", "a\nb", "'q'"]
    x, y = m.Symbol("x", INT), m.Symbol("r", REAL)
    s = m.Symbol("s", STRING)
    parts = []
    for _ in range(rnd.randint(2, 5)):
        k = rnd.randrange(6)
        if k == 0:
            parts.append(m.LE(m.Plus(x, m.Int(rnd.choice(ints))), m.Times(m.Int(rnd.choice(ints)), x)))
        elif k == 1:
            parts.append(m.LT(m.Plus(y, m.Real(rnd.choice(reals))), m.Times(m.Real(rnd.choice(reals)), y)))
        elif k == 2:
            parts.append(m.Equals(m.StrConcat(s, m.String(rnd.choice(strs))), m.String(rnd.choice(strs))))
        elif k == 3:
            w = rnd.choice([1, 2, 5, 8, 16, 33, 64, 70])
            v = m.Symbol("v%d" % w, BVType(w))
            c = rnd.choice([0, 1, (1 << w) - 1, 1 << (w - 1), rnd.randrange(1 << w)])
            parts.append(m.Equals(m.BVXor(v, m.BV(c, w)), m.BVRor(m.BVRol(v, rnd.randint(0, w)), rnd.randint(0, w))))
        elif k == 4:
            at = ArrayType(INT, ArrayType(STRING, REAL))
            inner = m.Array(STRING, m.Real(rnd.choice(reals)), {m.String(rnd.choice(strs)): m.Real(rnd.choice(reals)),
                                                                m.String(rnd.choice(strs)): y})
            outer = m.Array(INT, inner, {m.Int(rnd.choice(ints)): m.Array(STRING, y), m.Int(rnd.choice(ints)): inner,
                                         m.Int(rnd.choice(ints)): m.Store(inner, s, m.Real(1))})
            parts.append(m.Equals(m.Symbol("aa", at), outer))
        else:
            w = rnd.choice([2, 3, 8])
            at = ArrayType(BVType(w), BOOL)
            d = {m.BV(rnd.randrange(1 << w), w): m.Bool(rnd.random() < 0.5) for _ in range(rnd.randint(0, 4))}
            parts.append(m.Select(m.Array(BVType(w), m.Symbol("bb", BOOL), d), m.Symbol("v%d" % w, BVType(w))))
    return m.And(parts) if len(parts) > 1 else parts[0]


def sorts_formula(env, rnd):
    """Custom sorts (arity 0 and parametric, several instances, names that need quoting) as sorts of symbols,
    bound variables, array components, array-value index sorts, and occurring only under a function application."""
    m, tm = env.formula_manager, env.type_manager
    U, V = tm.Type("U", 0), tm.Type(rnd.choice(["Vs", "my sort", "s;t", "1st", "a.b"]), 0)
    Pd = tm.Type(rnd.choice(["Pair", "a pair"]), 2)
    P, P2 = tm.get_type_instance(Pd, U, INT), tm.get_type_instance(Pd, V, U)
    u1, u2, v1, p1, q1 = m.Symbol("u1", U), m.Symbol("u2", U), m.Symbol("w1", V), m.Symbol("p1", P), m.Symbol("q1", P2)
    g = m.Symbol("gU", FunctionType(U, [U, V]))
    h = m.Symbol("hI", FunctionType(BOOL, [INT]))
    a = m.Symbol("arrU", ArrayType(U, P))
    parts = [m.Equals(u1, u2), m.Equals(m.Function(g, [u1, v1]), u2), m.Equals(m.Select(a, u1), p1),
             m.ForAll([u1], m.Exists([v1], m.Equals(m.Function(g, [u1, v1]), u2))),
             m.Equals(m.Array(V, u1, {}), m.Array(V, u2, {})),
             m.Function(h, [m.Ite(m.Equals(q1, m.Symbol("q2", P2)), m.Int(1), m.Int(2))]),
             m.Function(h, [m.Select(m.Array(V, m.Int(0)), v1)]),
             m.Equals(m.Symbol("p2", P), p1)]
    rnd.shuffle(parts)
    return m.And(parts[:rnd.randint(1, len(parts))])


def shadow_formula(env, rnd):
    """Quantifier nests re-binding the same names, let-name look-alikes as free and bound variables, shared sub-DAGs."""
    m = env.formula_manager
    d0, d1, d2 = m.Symbol(".def_0", INT), m.Symbol(".def_1", BOOL), m.Symbol(".def_2", INT)
    x = m.Symbol("x", INT)
    s = m.Plus(x, d0)
    t = m.LE(s, d2)
    opts = [m.And(t, m.ForAll([d0], m.Or(t, m.Exists([d0, d2], m.And(t, d1))))),
            m.Or(m.ForAll([x], t), m.Not(m.ForAll([x], t)), m.Exists([d2], m.ForAll([x], t))),
            m.And(m.Exists([d1], m.Iff(d1, t)), m.Iff(d1, t), m.ForAll([x, x], t)),
            m.Implies(m.ForAll([d0], m.LT(d0, m.Plus(d0, m.Int(1)))), m.And(t, m.Not(t), m.Equals(s, s)))]
    return rnd.choice(opts)


# ---- SORT-SHAPE family: a user sort S as the ONLY occurrence, at depth 0..3 under every combination of
#      Array index / Array element / parametric-sort argument, carried by a symbol, a function parameter,
#      a function result, a binder, the index sort of a constant array, the element of a constant array.
SORT_WRAPS = ("idx", "elt", "par")
SORT_CARRIERS = ("sym", "funparam", "funres", "binder", "avidx", "avelt")


def sort_chains(max_depth):
    import itertools
    for d in range(max_depth + 1):
        for ch in itertools.product(SORT_WRAPS, repeat=d):
            yield ch


def sort_shape_formula(env, chain, carrier):
    """chain: wrappers applied to S from the inside out, e.g. ("elt", "elt") = Array Int (Array Int S)."""
    m, tm = env.formula_manager, env.type_manager
    t = tm.Type("S", 0)
    Pd = tm.Type("P", 1)
    for w in chain:
        if w == "idx":
            t = ArrayType(t, INT)
        elif w == "elt":
            t = ArrayType(INT, t)
        else:
            t = tm.get_type_instance(Pd, t)
    if carrier == "sym":
        x, y = m.Symbol("x", t), m.Symbol("y", t)
        if t.is_array_type() and t.elem_type.is_array_type() and t.index_type.is_int_type() and t.elem_type.index_type.is_int_type():
            i, j = m.Symbol("i", INT), m.Symbol("j", INT)        # a[i][j] = a[j][i]
            return m.Equals(m.Select(m.Select(x, i), j), m.Select(m.Select(x, j), i))
        return m.Equals(x, y)
    if carrier == "funparam":
        f = m.Symbol("f", FunctionType(BOOL, [INT, t]))
        return m.Function(f, [m.Int(1), m.Symbol("x", t)])
    if carrier == "funres":
        g = m.Symbol("g", FunctionType(t, [INT]))
        return m.Equals(m.Function(g, [m.Int(1)]), m.Function(g, [m.Int(2)]))
    if carrier == "binder":
        x, y = m.Symbol("x", t), m.Symbol("y", t)
        return m.ForAll([x], m.Exists([y], m.Equals(x, y)))
    if carrier == "avidx":
        return m.Equals(m.Array(t, m.Int(0)), m.Array(t, m.Symbol("k", INT)))
    if carrier == "avelt":
        return m.Equals(m.Array(INT, m.Symbol("x", t)), m.Array(INT, m.Symbol("y", t)))
    raise ValueError(carrier)


def sort_shape_cases(max_depth):
    for ch in sort_chains(max_depth):
        for c in SORT_CARRIERS:
            env = Environment()
            push_env(env)
            yield env, sort_shape_formula(env, ch, c), "sortshape"


# ---- DAG-NAMES family: binder names .def_0 .. .def_J (every let index the outer printer can reach), a compound
#      shared sub-term that does not mention the binder occurring outside the quantifier and inside its body,
#      both visit orders, K outer lets before the shared one; purely Boolean / small BV, so ALL interpretations
#      are evaluated.
def dag_names_formula(env, j, k, order, exists, shape, extra=0):
    m = env.formula_manager
    a, b, c, d = [m.Symbol(n, BOOL) for n in "abcd"]
    pres = [m.And(c, d), m.Not(c), m.Or(c, m.Not(d)), m.Iff(c, d), m.Implies(d, c)][:k]
    if shape == 0:
        shared = m.Or(a, b)
    elif shape == 1:
        shared = m.Iff(a, m.Not(b))
    else:
        u = m.Symbol("u", BVType(2))
        shared = m.BVULT(m.BVAdd(u, m.BV(1, 2)), u)
    v = m.Symbol(".def_%d" % j, BOOL)
    body = m.Or(v, shared) if shape != 1 else m.And(m.Implies(v, shared), m.Or(m.Not(shared), v))
    if extra == 1:       # a second binder, another let-name look-alike
        w = m.Symbol(".def_%d" % ((j + 1) % 7), BOOL)
        q = (m.Exists if exists else m.ForAll)([v, w], m.Or(body, m.And(w, shared)))
    elif extra == 2:     # nested quantifier re-binding the name
        inner = (m.ForAll if exists else m.Exists)([v], m.Iff(v, shared))
        q = (m.Exists if exists else m.ForAll)([v], m.And(m.Or(body, inner), m.Or(shared, v)))
    else:
        q = (m.Exists if exists else m.ForAll)([v], body)
    # children are visited last-first: the `pres` get the first let indexes
    if order == 0:
        parts = [q, shared] + pres[::-1]          # ... pres, shared, THEN the quantifier
    elif order == 1:
        parts = [shared, q] + pres[::-1]          # the quantifier before the shared term
    else:
        parts = [m.Not(q), m.Or(shared, c)] + pres[::-1] + [shared]   # shared first of all, q deep and last
    return m.And(parts)


def dag_names_cases(jmax, kmax, shapes, extras, orders=(0, 1)):
    for j in range(jmax + 1):
        for k in range(1, kmax + 1):
            for order in orders:
                for ex in (False, True):
                    for shape in shapes:
                        for extra in extras:
                            env = Environment()
                            push_env(env)
                            yield env, dag_names_formula(env, j, k, order, ex, shape, extra), "dagnames"


# ---- DERIVED family: shapes that are - or merely LOOK LIKE - the expansion of a derived constructor.  A printer
#      that starts recognising such shapes (a "compact" output such as (distinct ...), (xor ...), chained = or <)
#      breaks the token-exact correspondence on the genuine expansions and is judged by meaning on the near-misses,
#      under ALL interpretations over a 2-3 element domain.
def small_interps(f, rnd, dom=3, cap=400):
    """All interpretations of the free symbols of f over small domains (Int: 0..dom-1, Real: 0, 1/2, 1,
    Bool, BV of width <= 2: all values, uninterpreted sorts: dom elements); a random sample of `cap` when there
    are more; None if a symbol has another sort."""
    import itertools
    from fractions import Fraction
    syms = sorted((x for x in refeval.free_symbols([f])), key=lambda x: x.symbol_name())
    usizes, doms = {}, []
    for x in syms:
        t = x.symbol_type()
        if t.is_bool_type():
            doms.append([False, True])
        elif t.is_int_type():
            doms.append(list(range(dom)))
        elif t.is_real_type():
            doms.append([Fraction(0), Fraction(1, 2), Fraction(1)][:dom])
        elif t.is_bv_type() and t.width <= 2:
            doms.append([refeval.BV(t.width, v) for v in range(1 << t.width)])
        elif t.is_custom_type() and not t.args:
            usizes[refeval.sort_name(t)] = dom
            doms.append([refeval.UVal(refeval.sort_name(t), k) for k in range(dom)])
        else:
            return None
    total = 1
    for d in doms:
        total *= len(d)
    if total <= cap:
        combos = itertools.product(*doms)
    else:
        combos = (tuple(rnd.choice(d) for d in doms) for _ in range(cap))
    return (refeval.Interp(symbols=dict(((x.symbol_name(), x.symbol_type()), v) for x, v in zip(syms, vals)),
                           usizes=usizes, div0="function") for vals in combos)


def _terms(env, kind, n):
    m = env.formula_manager
    if kind == "bool":
        return [m.Symbol("p%d" % i, BOOL) for i in range(n)]
    if kind == "int":
        return [m.Symbol("x%d" % i, INT) for i in range(n)]
    if kind == "bv":
        return [m.Symbol("v%d" % i, BVType(2)) for i in range(n)]
    if kind == "u":
        U = env.type_manager.Type("U", 0)
        return [m.Symbol("u%d" % i, U) for i in range(n)]
    if kind == "intc":      # compound Int terms
        xs = [m.Symbol("x%d" % i, INT) for i in range(n)]
        return [m.Plus(x, m.Int(i % 2)) if i % 2 else x for i, x in enumerate(xs)]
    raise ValueError(kind)


def _neq(m, a, b):
    return m.Not(m.EqualsOrIff(a, b))


def _boolify(env, t, name="zz_res"):
    ty = env.stc.get_type(t)
    return t if ty.is_bool_type() else env.formula_manager.Equals(t, env.formula_manager.Symbol(name, ty))


def derived_genuine(env, which, kind, n):
    """The genuine expansion / natural spelling number `which` over n terms of sort `kind`, or None."""
    m = env.formula_manager
    ts = _terms(env, kind, n)
    if which == "alldiff":
        return m.AllDifferent(ts) if n >= 2 else None
    if kind == "bool":
        if which == "exactlyone":
            return m.ExactlyOne(ts)
        if which == "atmostone":
            return m.AtMostOne(ts) if n >= 2 else None
        if which == "xor":
            r = ts[0]
            for t in ts[1:]:
                r = m.Xor(r, t)
            return r
        if which == "implies_r":
            r = ts[-1]
            for t in reversed(ts[:-1]):
                r = m.Implies(t, r)
            return r
        if which == "implies_l":
            r = ts[0]
            for t in ts[1:]:
                r = m.Implies(r, t)
            return r
        if which == "iff_chain":
            return m.And([m.Iff(a, b) for a, b in zip(ts, ts[1:])]) if n >= 3 else m.Iff(ts[0], ts[1])
        return None
    if kind in ("int", "intc"):
        if which == "min":
            return _boolify(env, m.Min(ts))
        if which == "max":
            return _boolify(env, m.Max(ts))
        if which in ("lt_chain", "le_chain", "eq_chain", "gt_chain", "ge_chain"):
            rel = {"lt_chain": m.LT, "le_chain": m.LE, "eq_chain": m.Equals, "gt_chain": m.GT, "ge_chain": m.GE}[which]
            cs = [rel(a, b) for a, b in zip(ts, ts[1:])]
            return m.And(cs) if len(cs) > 1 else cs[0]
        if which == "abs":
            return _boolify(env, m.Plus([m.Ite(m.LT(t, m.Int(0)), m.Minus(m.Int(0), t), t) for t in ts]) if n > 1 else
                            m.Ite(m.LT(ts[0], m.Int(0)), m.Minus(m.Int(0), ts[0]), ts[0]))
        if which == "noteq":
            return m.NotEquals(ts[0], ts[1])
        return None
    if kind == "bv":
        if which == "minbv":
            return _boolify(env, m.MinBV(n % 2 == 0, ts))
        if which == "maxbv":
            return _boolify(env, m.MaxBV(n % 2 == 1, ts))
        if which in ("ugt", "uge", "sgt", "sge", "eq_chain"):
            rel = {"ugt": m.BVUGT, "uge": m.BVUGE, "sgt": m.BVSGT, "sge": m.BVSGE, "eq_chain": m.Equals}[which]
            cs = [rel(a, b) for a, b in zip(ts, ts[1:])]
            return m.And(cs) if len(cs) > 1 else cs[0]
        if which == "smod" and n > 2:
            return None                      # (its expansion nests exponentially as a tree)
        if which in ("nand", "nor", "xnor", "smod", "comp"):
            fn = {"nand": m.BVNand, "nor": m.BVNor, "xnor": m.BVXnor, "smod": m.BVSMod, "comp": m.BVComp}[which]
            r = ts[0]
            for t in ts[1:]:
                r = fn(r, t) if which != "comp" else m.BVZExt(fn(r, t), 1)
            return _boolify(env, r)
        if which == "repeat":
            return _boolify(env, m.BVRepeat(ts[0], n))
        return None
    return None


DERIVED_GENUINE = {"bool": ("alldiff", "exactlyone", "atmostone", "xor", "implies_r", "implies_l", "iff_chain"),
                   "int": ("alldiff", "min", "max", "lt_chain", "le_chain", "eq_chain", "gt_chain", "ge_chain", "abs", "noteq"),
                   "intc": ("alldiff", "min", "eq_chain"),
                   "bv": ("alldiff", "minbv", "maxbv", "ugt", "uge", "sgt", "sge", "eq_chain", "nand", "nor", "xnor", "smod", "comp", "repeat"),
                   "u": ("alldiff", "eq_chain")}
NEAR_VARIANTS = ("drop", "dupflip", "swap", "dupsame", "replace", "extraterm", "swap2")


def all_pairs(n):
    return [(i, j) for i in range(n) for j in range(i + 1, n)]


def near_miss(env, kind, n, variant, rnd):
    """A conjunction of disequalities over n terms that is NOT the expansion of AllDifferent but looks like one."""
    m = env.formula_manager
    ts = _terms(env, kind, n + 1)
    ps = all_pairs(n)
    if variant == "drop":                         # one conjunct missing
        ps = ps[:-1] if rnd.random() < 0.5 else ps[1:]
    elif variant == "dupflip":                    # one pair also in the other orientation (one conjunct too many)
        i, j = rnd.choice(ps)
        ps = ps + [(j, i)]
    elif variant == "swap":                       # triangular count, but one pair twice (both orientations), one missing
        k = rnd.randrange(len(ps))
        missing = ps[k]
        rest = ps[:k] + ps[k + 1:]
        i, j = rnd.choice(rest)
        ps = rest[:1] + [(j, i)] + rest[1:]
    elif variant == "swap2":                      # same, the doubled pair first and flipped pair adjacent: (a!=b)&(b!=a)&...
        rest = ps[:-1]
        i, j = rest[0]
        ps = [rest[0], (j, i)] + rest[1:]
    elif variant == "dupsame":                    # triangular count, the very same conjunct twice, one pair missing
        rest = ps[:-1]
        ps = rest + [rest[rnd.randrange(len(rest))]]
    elif variant == "replace":                    # one pair replaced by a pair with a term not among the n
        ps = ps[:-1] + [(ps[-1][0], n)]
    elif variant == "extraterm":                  # the full expansion plus one disequality with an extra term
        ps = ps + [(0, n)]
    cs = [_neq(m, ts[i], ts[j]) for i, j in ps]
    return m.And(cs)


def random_triangular(env, kinds, n, rnd):
    """k = n(n-1)/2 oriented disequalities drawn with repetition over n terms of mixed sorts (Equals and Iff)."""
    m = env.formula_manager
    groups = []
    left = n
    for idx, kind in enumerate(kinds):
        cnt = left if idx == len(kinds) - 1 else rnd.randint(1, max(1, left - (len(kinds) - 1 - idx)))
        left -= cnt
        if cnt:
            groups.append(_terms(env, kind, max(cnt, 2))[:max(cnt, 2)])
    pool = [(a, b) for g in groups for a in g for b in g if a is not b]
    k = n * (n - 1) // 2
    cs = [_neq(m, *rnd.choice(pool)) for _ in range(k)]
    return m.And(cs) if len(cs) > 1 else cs[0]


def derived_cases(rnd, thorough=False):
    def fresh():
        env = Environment()
        push_env(env)
        return env
    for kind, names in DERIVED_GENUINE.items():
        for which in names:
            for n in range(2, 6):
                env = fresh()
                f = derived_genuine(env, which, kind, n)
                if f is not None:
                    yield env, f, "derived"
    reps = 3 if thorough else 1
    for kind in ("int", "bv", "u", "bool", "intc"):
        for n in (3, 4, 5):
            for variant in NEAR_VARIANTS:
                for _ in range(reps):
                    env = fresh()
                    yield env, near_miss(env, kind, n, variant, rnd), "nearmiss"
    for kinds in (("int",), ("bv",), ("u",), ("bool", "int"), ("bool", "u"), ("int", "bv")):
        for n in (3, 4, 5):
            for _ in range(8 if thorough else 3):
                env = fresh()
                yield env, random_triangular(env, kinds, n, rnd), "nearmiss"


def smtread_selftest():
    """The reader must judge NEW spellings by meaning: operators a compact printer might start to use."""
    from pysmt.typing import BOOL as B, INT as I
    bad = []
    decl = "(declare-fun a () Int)(declare-fun b () Int)(declare-fun c () Int)(declare-fun p () Bool)(declare-fun q () Bool)(declare-fun r () Bool)(declare-fun v () (_ BitVec 2))"
    tests = [("(distinct a b c)", lambda e: len({e["a"], e["b"], e["c"]}) == 3),
             ("(= a b c)", lambda e: e["a"] == e["b"] == e["c"]),
             ("(< a b c)", lambda e: e["a"] < e["b"] < e["c"]),
             ("(>= a b c)", lambda e: e["a"] >= e["b"] >= e["c"]),
             ("(xor p q r)", lambda e: (e["p"] != e["q"]) != e["r"]),
             ("(=> p q r)", lambda e: (not e["p"]) or ((not e["q"]) or e["r"])),
             ("(= p q r)", lambda e: e["p"] == e["q"] == e["r"]),
             ("(distinct p q)", lambda e: e["p"] != e["q"]),
             ("(let ((a b) (b a)) (< a b))", lambda e: e["b"] < e["a"]),
             ("(= (bvcomp v #b01) #b1)", lambda e: e["v"] == 1),
             ("(and (ite p (= (- a) (- 0 a)) true) (= (abs (- a)) (ite (< a 0) (- a) a)))", lambda e: True),
             ("(= (+ a b c) (+ (+ a b) c))", lambda e: True)]
    import itertools
    for text, want in tests:
        try:
            sc = smtread.Script("(set-logic ALL)" + decl + "(assert " + text + ")(check-sat)")
            term, sig = sc.assertions[0]
            for a, b, c, p, q, r, v in itertools.product((0, 1, 2), (0, 1, 2), (0, 1), (False, True), (False, True), (False, True), (1, 2)):
                e = dict(a=a, b=b, c=c, p=p, q=q, r=r, v=v)
                Iv = refeval.Interp(symbols={("a", I): a, ("b", I): b, ("c", I): c, ("p", B): p, ("q", B): q, ("r", B): r,
                                             ("v", BVType(2)): refeval.BV(2, v)}, div0="function")
                if smtread.value(term, sig, Iv) != want(e):
                    bad.append((text, e))
                    break
        except Exception as ex:
            bad.append((text, repr(ex)))
    return bad


# directed inputs for the defects DESIGN.md section 6 suspects (and relatives found while modelling);
# each is ( stable key, description, builder(env) -> formula )
def _f_int_div(env):
    m = env.formula_manager
    return m.Equals(m.Div(m.Symbol("x", INT), m.Symbol("y", INT)), m.Int(1))


def _f_str_to_int(env):
    m = env.formula_manager
    return m.Equals(m.StrToInt(m.Symbol("s", STRING)), m.Int(1))


def _f_int_to_str(env):
    m = env.formula_manager
    return m.Equals(m.IntToStr(m.Symbol("x", INT)), m.String("1"))


def _f_pow(env):
    m = env.formula_manager
    return m.Equals(m.Pow(m.Symbol("r", REAL), m.Real(2)), m.Real(4))


def _f_param_sort(env):
    m, tm = env.formula_manager, env.type_manager
    L = tm.Type("List", 1)
    return m.And(m.Equals(m.Symbol("l1", tm.get_type_instance(L, INT)), m.Symbol("l2", tm.get_type_instance(L, INT))),
                 m.Equals(m.Symbol("k1", tm.get_type_instance(L, REAL)), m.Symbol("k2", tm.get_type_instance(L, REAL))))


def _f_sort_under_uf(env):
    m, tm = env.formula_manager, env.type_manager
    U = tm.Type("U", 0)
    p = m.Symbol("p", FunctionType(BOOL, [INT]))
    return m.Function(p, [m.Ite(m.Equals(m.Symbol("u1", U), m.Symbol("u2", U)), m.Int(1), m.Int(2))])


def _f_name_bar(env):
    m = env.formula_manager
    return m.And(m.Symbol("a|b", BOOL), m.Symbol("c", BOOL))


def _f_name_backslash(env):
    m = env.formula_manager
    return m.And(m.Symbol("a\\b", BOOL), m.Symbol("c", BOOL))


def _f_sort_name_quote(env):
    m, tm = env.formula_manager, env.type_manager
    S = tm.Type("my sort", 0)
    return m.Equals(m.Symbol("s1", S), m.Symbol("s2", S))


def _f_str_escape(env):
    m = env.formula_manager
    return m.Equals(m.StrLength(m.String("\\u{61}")), m.Int(6))


def _f_name_reserved_sort(env):
    m = env.formula_manager
    return m.And(m.Symbol("Int", BOOL), m.Equals(m.Symbol("x", INT), m.Int(0)))


DIRECTED = [
    ("int-division-printed-as-real-division", "Div on Int operands is written (/ x y); SMT-LIB's / is Real x Real -> Real, the Int function is div", _f_int_div),
    ("nonstandard-symbol:str.to.int", "StrToInt is written str.to.int (2.5 draft name); SMT-LIB 2.6: str.to_int", _f_str_to_int),
    ("nonstandard-symbol:int.to.str", "IntToStr is written int.to.str; SMT-LIB 2.6: str.from_int", _f_int_to_str),
    ("nonstandard-symbol:pow", "Pow is written pow, which no SMT-LIB theory declares", _f_pow),
    ("parametric-sort-declared-per-instance", "a parametric custom sort is declared once per INSTANCE (declare-sort List 1 twice)", _f_param_sort),
    ("custom-sort-not-declared", "a custom sort that occurs only in the arguments of a function application (or only as the index sort of an array value) is never declared", _f_sort_under_uf),
    ("name-with-bar-or-backslash", "a symbol name containing | is written |a\\|b| (no such escape in SMT-LIB)", _f_name_bar),
    ("name-with-bar-or-backslash", "a symbol name containing \\ is written |a\\\\b| (backslash cannot occur in a quoted symbol)", _f_name_backslash),
    ("sort-name-not-quoted", "a custom sort name that is not a simple symbol is written without |...|", _f_sort_name_quote),
    ("string-literal-escape", "a string constant containing \\u{61} is written verbatim; SMT-LIB 2.6 reads it as the one character a", _f_str_escape),
]


# ------------------------------------------------------------------------------------------------
# SEARCH oracle: independent reading of the produced script
# ------------------------------------------------------------------------------------------------
def classify(err, f):
    """Stable key of a reading failure."""
    k, msg = err.kind, err.msg
    if k == "undeclared" and msg.startswith("function "):
        return "nonstandard-symbol:" + msg.split()[1]
    if k == "sort" and msg.startswith("/ on sort Int"):
        return "int-division-printed-as-real-division"
    if k == "redeclared" and msg.startswith("sort "):
        return "parametric-sort-declared-per-instance"
    if k == "undeclared" and msg.startswith("sort "):
        return "custom-sort-not-declared"
    if k == "lex" and ("quoted symbol" in msg):
        return "name-with-bar-or-backslash"
    if k in ("syntax", "undeclared", "reserved"):
        for n in tocoq.topo([f]):
            ts = [n.symbol_type()] if n.is_symbol() else []
            while ts:
                t = ts.pop()
                if t.is_custom_type() and not smtread.is_simple_symbol(t.basename):
                    return "sort-name-not-quoted"
                ts += list(getattr(t, "args", None) or [])
    return "%s:%s" % (k, str(tocoq.skey(f))[:160])


def has_escape_literal(f):
    return any(n.is_string_constant() and "\\u" in n.constant_value() for n in tocoq.topo([f]))


def search_one(chk, env, f, rnd, n_interp, which, stats, exhaustive=False):
    """Reads the script pySMT wrote for f with the `which` printer; reports violations.
    Returns the script text.  exhaustive: evaluate under ALL interpretations of the free symbols when
    their sorts are finite and there are at most 256 of them (else n_interp random ones)."""
    dag = which == "dag"
    try:
        text, logic = impl_script(f, dag)
    except Exception as ex:   # the printer itself failed
        stats["print_error"] = stats.get("print_error", 0) + 1
        chk.violation({"kind": "input", "what": "printing raised %r" % (ex,), "formula": f.serialize()[:400]},
                      key="print-raises:%s:%s" % (type(ex).__name__, str(tocoq.skey(f))[:120]))
        return None
    try:
        sc = smtread.Script(text, env.type_manager)
        if len(sc.assertions) != 1 or sc.names[-1] != "check-sat":
            raise smtread.SmtError("syntax", "expected exactly one assert followed by check-sat")
    except smtread.SmtError as e:
        key = classify(e, f)
        stats[key] = stats.get(key, 0) + 1
        chk.violation({"kind": "input", "what": "the produced script is not well-formed SMT-LIB: %s" % e, "printer": which,
                       "formula": f.serialize()[:400], "repro": text[:1500], "oracle": "harness/smtread.py"}, key=key)
        return text
    stats["well_formed"] = stats.get("well_formed", 0) + 1
    term, sig = sc.assertions[0]
    cache = refeval.EvalCache()
    interps = None
    if exhaustive == "small":
        interps = small_interps(f, rnd)
    elif exhaustive:
        interps = refeval.exhaustive_interps([f], limit=256, div0="function")
    if interps is None:
        interps = (refeval.random_interp(rnd, [f], div0="function") for _ in range(n_interp))
    for I in interps:
        try:
            want, _exact = refeval.evaluate_ex(f, I, cache)
            got = smtread.value(term, sig, I)
        except (smtread.Skip, refeval.Unsupported, refeval.RefEvalError):
            stats["eval_skipped"] = stats.get("eval_skipped", 0) + 1
            continue
        stats["evaluated"] = stats.get("evaluated", 0) + 1
        if got != want or type(got) is not type(want):
            vkey = "string-literal-escape" if has_escape_literal(f) else "value:%s:%s" % (which, str(tocoq.skey(f))[:160])
            stats[vkey.split(":")[0]] = stats.get(vkey.split(":")[0], 0) + 1
            chk.violation({"kind": "input", "what": "the text has another value than the formula", "printer": which,
                           "formula": f.serialize()[:400], "repro": text[:1500], "value_of_text": repr(got), "value_of_formula": repr(want),
                           "interpretation": I.describe(), "oracle": "harness/smtread.py vs harness/refeval.py"},
                          key=vkey)
            break
    return text


# symbols that cvc5 1.0.3 treats as theory functions of its extensions; none is declared by an SMT-LIB 2.6 theory
CVC5_EXTENSION_SYMBOLS = {"^", "exp", "sin", "cos", "tan", "csc", "sec", "cot", "arcsin", "arccos", "arctan", "arccsc", "arcsec",
                          "arccot", "sqrt", "pi", "iand", "pow2"}


def solver_opinion(text):
    """{solver: first error line or None} from the installed binaries (parse / sort check only)."""
    import re
    body = re.sub(r"\(set-logic [^)]*\)", "(set-logic ALL)", text.replace("(check-sat)", ""), count=1)
    out = {}
    for name, cmd in (("z3", ["/usr/bin/z3", "-in"]), ("cvc5", ["/usr/bin/cvc5", "--lang", "smt2"])):
        if not os.path.exists(cmd[0]):
            continue
        try:
            p = subprocess.run(cmd, input=body, stdout=subprocess.PIPE, stderr=subprocess.STDOUT, text=True, timeout=20)
            o = p.stdout.strip()
            line = o.split("\n")[0][:300] if ("error" in o.lower()) else None
            # cvc5 1.0.3 accepts ((as const T) d) only for a VALUE d (its own restriction; z3 has none):
            # not an SMT-LIB objection, so it is not counted
            if line and name == "cvc5" and "expected a value" in o:
                line = None
            # cvc5 reserves some symbols of its OWN extensions (`^` for exponentiation, ...): a user symbol with
            # such a name "is shadowing a theory function symbol" for cvc5 although no SMT-LIB theory declares it;
            # that is cvc5's restriction, not an SMT-LIB objection
            if line and name == "cvc5" and "shadowing a theory function symbol" in o:
                m = re.search(r"Symbol `([^']*)' is shadowing", o)
                if m and m.group(1) in CVC5_EXTENSION_SYMBOLS:
                    line = None
            out[name] = line
        except Exception as ex:
            out[name] = "failed to run: %r" % (ex,)
    return out


# ------------------------------------------------------------------------------------------------
# correspondence
# ------------------------------------------------------------------------------------------------
OK_DEF = r"""
Definition toks_eqb := list_eqb String.eqb.
Definition ok (c : term * list string * list string * string * list (list string) * bool) : bool :=
  let '(t, et, ed, logic, cmds, wf) := c in
  toks_eqb (flatten (print_tree t)) et && toks_eqb (flatten (print_dag t)) ed &&
  match cmds with
  | [] => true
  | first :: _ =>
      let m := map flatten (script_of true logic t) in
      let exp_assert := ("(" :: "assert" :: ed ++ [")"])%list in
      perm_eqb toks_eqb m (exp_assert :: cmds) && toks_eqb (hd [] m) first &&
      toks_eqb (nth (List.length m - 2) m []) exp_assert && toks_eqb (last m []) ["("; "check-sat"; ")"] &&
      (* the specification's own (executable) well-formedness verdict on the model's script agrees with
         the independent Python reader's verdict on pySMT's text *)
      Bool.eqb (std_script_ok (script_of true logic t)) wf && Bool.eqb (std_script_ok (script_of false logic t)) wf
  end.
"""


def coq_toks(toks):
    return "[" + "; ".join(tocoq.cstr(t) for t in toks) + "]"


def gen_cases(rnd, tier):
    """Yields (env, formula, tag)."""
    n_gen = 420 if tier == "quick" else 4000
    n_special = 60 if tier == "quick" else 500
    env = None
    for i in range(n_gen):
        if i % 60 == 0:
            env = Environment()
            push_env(env)
            g = FormulaGen(env, rnd, Config())
        t = rnd.choice(g.types) if rnd.random() < 0.3 else g.types[0]
        f = g.gen(t, rnd.randint(1, 5))
        ft = env.stc.get_type(f)
        if not ft.is_bool_type():      # scripts assert Bool terms: compare the term with a fresh symbol of its sort
            f = env.formula_manager.Equals(f, env.formula_manager.Symbol("zz_%s" % g._tname(ft), ft))
        yield env, f, "gen"
    for k, fn in (("names", names_formula), ("const", const_formula), ("sorts", sorts_formula), ("shadow", shadow_formula)):
        for i in range(n_special):
            env = Environment()
            push_env(env)
            yield env, fn(env, rnd), k
    # systematic families (not random): see their definitions
    for x in sort_shape_cases(3):                                            # 40 chains x 6 carriers = 240
        yield x
    for x in dag_names_cases(5, 3, (0, 1), (0,)):                            # 6 x 3 x 2 x 2 x 2 = 144
        yield x
    if tier == "thorough":
        for x in dag_names_cases(6, 5, (0, 1, 2), (0, 1, 2), (0, 1, 2)):     # 7 x 5 x 3 x 2 x 3 x 3 = 1890
            yield x
    for x in derived_cases(rnd, tier == "thorough"):
        yield x


def run(tier):
    chk = lib.Check("C07", tier)
    rnd = random.Random(chk.seed)
    gen_all.regen_all()
    ok = chk.prove()
    lib.clean_cases(chk.dir)
    st_bad = smtread_selftest()
    chk.cov["smtread_selftest_failures"] = st_bad
    if st_bad:
        chk.violation({"kind": "obligation", "theorem_or_correspondence": ["harness/smtread.py misreads %r" % (st_bad[:3],)]},
                      found_input=False)
    stats = {}
    cases, meta = [], []
    n_interp = 4 if tier == "quick" else 10
    inconsistent = 0
    solver_checked = solver_rejected = 0
    envs_pushed = 0
    seen_ops = set()
    for env, f, tag in gen_cases(rnd, tier):
        for n in tocoq.topo([f]):
            seen_ops.add(n.node_type())
        # ---- SEARCH: independent reader on the real text, both printers
        texts = {}
        for which in ("tree", "dag"):
            texts[which] = search_one(chk, env, f, rnd, 1 if tag == "sortshape" else n_interp, which, stats,
                                      exhaustive=("small" if tag in ("derived", "nearmiss") else tag == "dagnames"))
        # (cvc5 refuses to DECLARE symbols starting with . or @ - reserved for solver use by the standard -
        #  so formulas with such free symbols, which the name generator produces on purpose, are not sent)
        if tier == "thorough" and texts["dag"] and rnd.random() < 0.15 and \
                not any(v.symbol_name()[:1] in ".@" for v in f.get_free_variables()):
            op = solver_opinion(texts["dag"])
            solver_checked += 1
            mine_ok = True
            try:
                smtread.Script(texts["dag"], env.type_manager)
            except smtread.SmtError:
                mine_ok = False
            if mine_ok and any(v for v in op.values()):
                solver_rejected += 1
                # cvc5 insists that characters outside printable ASCII are written as \u{..} escapes: that is the
                # open finding `string-literal-escape` (string constants are written verbatim), not a new one
                skey = "solver-rejects:%s" % str(tocoq.skey(f))[:160]
                ctrl = any(n.is_string_constant() and any(not (32 <= ord(ch) <= 126) for ch in n.constant_value())
                           for n in tocoq.topo([f]))
                if all((not v) or ("Extended/unprintable characters" in str(v)) or
                       (ctrl and ("Illegal string character" in str(v) or "basic_string" in str(v)))
                       for v in op.values()):
                    # (tab / newline / non-ASCII inside a literal: cvc5 wants \u{..}; same open finding)
                    skey = "string-literal-escape"
                chk.violation({"kind": "input", "what": "a solver binary rejects text that smtread.py accepts", "solvers": op,
                               "repro": texts["dag"][:1500], "formula": f.serialize()[:300]},
                              key=skey)
        # ---- correspondence case
        try:
            tt, dt, same = impl_texts(f)
            ttoks, dtoks = smtread.tokens(tt), smtread.tokens(dt)
        except Exception as ex:
            chk.note("cannot print %s: %r" % (f.serialize()[:100], ex))
            continue
        if not same:
            inconsistent += 1
            chk.violation({"kind": "input", "what": "to_smtlib / SmtPrinter / FNode.to_smtlib give different texts", "formula": f.serialize()[:300]},
                          key="entry-points-differ:%s" % str(tocoq.skey(f))[:120])
        cmds, logic = [], ""
        try:
            stext, logic = impl_script(f, True)
            cs = [flat(c) for c in smtread.read_all(stext)]
            asserts = [c for c in cs if c[:2] == ["(", "assert"]]
            if asserts != [["(", "assert"] + dtoks + [")"]]:
                inconsistent += 1
                chk.violation({"kind": "input", "what": "the assert command does not contain the DAG printer's text of the formula",
                               "formula": f.serialize()[:300], "repro": stext[:800]}, key="assert-text:%s" % str(tocoq.skey(f))[:120])
            ttext, _ = impl_script(f, False)
            cst = [flat(c) for c in smtread.read_all(ttext)]
            if [c for c in cst if c[:2] != ["(", "assert"]] != [c for c in cs if c[:2] != ["(", "assert"]] or \
               [c for c in cst if c[:2] == ["(", "assert"]] != [["(", "assert"] + ttoks + [")"]]:
                inconsistent += 1
                chk.violation({"kind": "input", "what": "tree and DAG serialisations of the script differ outside the assert",
                               "formula": f.serialize()[:300]}, key="script-tree-dag:%s" % str(tocoq.skey(f))[:120])
            cmds = [c for c in cs if c[:2] != ["(", "assert"]]
        except smtread.SmtError:
            cmds = []          # text not even lexable: reported by the search oracle
        wf = True
        try:
            smtread.Script(texts["dag"], env.type_manager)
            smtread.Script(texts["tree"], env.type_manager)
        except (smtread.SmtError, TypeError):
            wf = False

        def body(names, f=f, ttoks=ttoks, dtoks=dtoks, logic=logic, cmds=cmds, wf=wf):
            return "(%s, %s, %s, %s, [%s], %s)" % (names[f], coq_toks(ttoks), coq_toks(dtoks), tocoq.cstr(logic),
                                                   "; ".join(coq_toks(c) for c in cmds), "true" if wf else "false")
        cases.append(([f], body))
        meta.append((f, tag))
        chk.count(("c07", tag, tocoq.skey(f)), nontrivial=len(f.args()) > 0)
        envs_pushed += 1
    # write_smtlib = script.serialize(daggify=True) into a file
    try:
        from pysmt.shortcuts import write_smtlib
        f = meta[0][0]
        with tempfile.NamedTemporaryFile("r", suffix=".smt2", dir=chk.dir) as tf:
            with warnings.catch_warnings():
                warnings.simplefilter("ignore")
                write_smtlib(f, tf.name)
            if open(tf.name).read() != impl_script(f, True)[0]:
                chk.violation({"kind": "input", "what": "write_smtlib differs from smtlibscript_from_formula(f).serialize(daggify=True)"},
                              key="write_smtlib-differs")
    except NoLogicAvailableError:
        pass
    # ---- directed inputs (known findings / suspected defects)
    directed = {}
    for key, what, fn in DIRECTED:
        env = Environment()
        push_env(env)
        f = fn(env)
        res = {}
        for which in ("tree", "dag"):
            st = {}
            before = len(chk.violations) + len(chk.known_hits)
            text = search_one(chk, env, f, rnd, 6, which, st)
            res[which] = sorted(k for k in st if k not in ("well_formed", "evaluated", "eval_skipped"))
        if text is not None and tier == "thorough":
            res["solvers"] = solver_opinion(text)
        directed["%s (%s)" % (key, f.serialize()[:60])] = res
    chk.cov["directed_inputs"] = directed
    for s in (meta[0], meta[len(meta) // 2], meta[-1]):
        chk.sample({"tag": s[1], "formula": s[0].serialize()[:200], "dag_text": impl_texts(s[0])[1][:300]})
    files = termcases.write(chk.dir, "c07", "From PySMT.core Require Import SmtStd.\nFrom PySMT.models Require Import SmtPrinter SmtScript.",
                            "term * list string * list string * string * list (list string) * bool", OK_DEF, cases, shard=40)
    bad, errs = termcases.run(files)
    chk.cov["correspondence"] = {"cases": len(cases), "compared": "token sequences of SmtPrinter, SmtDagPrinter (to_smtlib, printer classes, FNode.to_smtlib) "
                                 "and of every command of smtlibscript_from_formula(f).serialize (declaration blocks as multisets), write_smtlib",
                                 "disagreements": len(bad), "case_file_errors": len(errs), "node_types_covered": len(seen_ops),
                                 "by_generator": {t: sum(1 for _, g in meta if g == t) for t in sorted(set(g for _, g in meta))},
                                 "examples": [meta[i][0].serialize()[:300] for i in bad[:5]]}
    chk.cov["search"] = dict(stats, solver_checked=solver_checked, solver_rejected=solver_rejected, entry_point_inconsistencies=inconsistent)
    for e in errs[:2]:
        chk.note("case file error: " + e["error"][-500:])
    for i in bad[:5]:
        f = meta[i][0]
        tt, dt, _ = impl_texts(f)
        chk.note("model/implementation disagree on (%s): %s\n   tree: %s\n   dag: %s" % (meta[i][1], f.serialize()[:200], tt[:300], dt[:300]))
    bad_examples = [(meta[i][0].serialize()[:200], impl_texts(meta[i][0])[1][:300]) for i in bad[:2]]
    for _ in range(envs_pushed + len(DIRECTED)):
        try:
            pop_env()
        except Exception:
            break
    if (bad or errs) and not chk.violations:
        # the model and the implementation differ but no generated input violates the property: escalate the two
        # systematic families (deeper sort nests; more let indexes, binder lists, nested quantifiers, visit orders)
        # with the semantic oracle only, before giving up with no-failing-input-found
        chk.note("correspondence differs on %d cases without a violating input: escalated search" % (len(bad) + len(errs)))
        esc = {}
        n_esc = 0
        for fam in (dag_names_cases(8, 5, (0, 1, 2), (0, 1, 2), (0, 1, 2)), sort_shape_cases(4)):
            for env, f, tag in fam:
                n_esc += 1
                for which in ("dag", "tree"):
                    search_one(chk, env, f, rnd, 2, which, esc, exhaustive=(tag == "dagnames"))
                try:
                    pop_env()
                except Exception:
                    pass
                if len(chk.violations) >= 3:
                    break
            if chk.violations:
                break
        chk.cov["escalated_search"] = dict(esc, cases=n_esc)
    if (not ok or bad or errs) and not chk.violations:
        what = []
        if not ok:
            what.append("proof obligations no longer check: " + lib.proof_failure_summary(chk))
        if bad or errs:
            what.append("correspondence models/SmtPrinter.v, SmtScript.v <-> pysmt/smtlib/printers.py, script.py differs on %d cases, e.g. %s"
                        % (len(bad) + len(errs), bad_examples))
        chk.violation({"kind": "obligation", "theorem_or_correspondence": what}, found_input=False)
    return chk.finish(TRUSTED, ASSUME,
                      "random well-typed formulas of all theories with sharing (gen/formulas.py) + directed generators: names needing "
                      "quotes (printable strings minus reserved words / theory symbols / | and \\), negative-rational-huge constants, "
                      "strings with quotes and non-ASCII, nested and string-indexed array values, custom sorts, quantifier nests that "
                      "re-bind names and use .def_N look-alikes; systematic families: SORT-SHAPE (a user sort as the only occurrence at "
                      "depth 0..3 under Array index / Array element / parametric argument x 6 carriers = 240 scripts) and DAG-NAMES "
                      "(binders .def_0...def_5 x 1..3 outer lets x visit orders x quantifier x shared-term shape = 144, all "
                      "interpretations evaluated; 1890 in the thorough tier), DERIVED (genuine expansions of every derived constructor "
                      "at arities 2..5 over Bool/Int/BV/uninterpreted terms, and near-misses of the AllDifferent expansion - dropped, "
                      "duplicated, flipped, replaced conjuncts, extra terms, mixed Equals/Iff, triangular counts 3/6/10 - under ALL "
                      "interpretations over 2-3 element domains); both printers; distinct = distinct structural keys")


def replay(path):
    r = json.load(open(path))
    print(json.dumps(r, indent=1)[:6000])
    if r.get("repro"):
        try:
            smtread.Script(r["repro"])
            print("smtread: the script is well-formed")
        except smtread.SmtError as e:
            print("smtread:", e)
        print("solvers:", solver_opinion(r["repro"]))
    return 1
