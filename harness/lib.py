"""Shared machinery of every check: paths, Coq build, model evaluation inside Coq,
evidence, VIOLATION / KNOWN-FINDING reporting.

All checks are started through /verif/check, which re-executes itself under
/venv/bin/python with PYTHONPATH forced to the repository under test and a fixed
PYTHONHASHSEED (see DESIGN.md 1.2).
"""
import fcntl
import hashlib
import json
import os
import re
import subprocess
import sys
import time

VERIF = os.path.dirname(os.path.dirname(os.path.abspath(__file__)))
REPO = os.environ.get("VERIF_REPO", "/repo")
COQ = os.path.join(VERIF, "coq")
BUILD = os.path.join(VERIF, "build")
# evidence/<id>.json describes runs against the tree under test; runs against a seeded worktree
# (tools/seedtest.py) write theirs elsewhere so that the committed evidence stays that of /repo
EVID = os.environ.get("VERIF_EVIDENCE_DIR") or os.path.join(VERIF, "evidence")
NPROC = int(os.environ.get("VERIF_JOBS", "16"))
COQC_TIMEOUT = int(os.environ.get("VERIF_COQC_TIMEOUT", "900"))


def seed():
    try:
        return int(os.environ.get("VERIF_SEED", "0"))
    except ValueError:
        return 0


def mkdir(p):
    os.makedirs(p, exist_ok=True)
    return p


def write_if_changed(path, text):
    mkdir(os.path.dirname(path))
    try:
        with open(path) as f:
            if f.read() == text:
                return False
    except OSError:
        pass
    tmp = path + ".tmp%d" % os.getpid()
    with open(tmp, "w") as f:
        f.write(text)
    os.replace(tmp, path)
    return True


# ----------------------------------------------------------------------------
# Coq build
# ----------------------------------------------------------------------------

class BuildLock(object):
    def __enter__(self):
        mkdir(BUILD)
        self.f = open(os.path.join(BUILD, ".lock"), "w")
        fcntl.flock(self.f, fcntl.LOCK_EX)
        return self

    def __exit__(self, *a):
        fcntl.flock(self.f, fcntl.LOCK_UN)
        self.f.close()


def coq_makefile():
    """(Re)create coq/Makefile from the .v files on disk (the file list is
    derived, so a new model file needs no manual registration)."""
    vs = []
    for d in ("core", "gen", "models", "proofs", "props"):
        dd = os.path.join(COQ, d)
        if os.path.isdir(dd):
            for f in sorted(os.listdir(dd)):
                if f.endswith(".v"):
                    vs.append("%s/%s" % (d, f))
    proj = "-Q . PySMT\n-arg -w -arg -notation-overridden,-deprecated-hint-without-locality,-deprecated-instance-without-locality\n" + "\n".join(vs) + "\n"
    changed = write_if_changed(os.path.join(COQ, "_CoqProject"), proj)
    if changed or not os.path.exists(os.path.join(COQ, "Makefile")):
        subprocess.run(["coq_makefile", "-f", "_CoqProject", "-o", "Makefile"],
                       cwd=COQ, check=True, stdout=subprocess.DEVNULL)
    return vs


def coq_make(targets=None, jobs=NPROC, timeout=3000):
    """Full .vo build of the given targets (relative .vo paths) or everything.
    Returns (ok, log)."""
    with BuildLock():
        coq_makefile()
        cmd = ["timeout", str(timeout), "make", "-j%d" % jobs, "-k"]
        if targets:
            cmd += targets
        p = subprocess.run(cmd, cwd=COQ, stdout=subprocess.PIPE, stderr=subprocess.STDOUT,
                           text=True)
        return p.returncode == 0, p.stdout


def coq_failed_files(log):
    """Names of .v files whose compilation failed, with the error text."""
    out = []
    for m in re.finditer(r'File "\./([^"]+)", line (\d+), characters [^\n]*\n(Error:[^\n]*(?:\n(?!File |make|COQC)[^\n]*)*)', log):
        out.append({"file": m.group(1), "line": int(m.group(2)), "error": m.group(3)[:800]})
    return out


def dep_closure(vfile):
    """All .v files of the development that vfile (relative to coq/) depends on,
    itself included, by parsing Require lines."""
    seen, todo = [], [vfile]
    while todo:
        f = todo.pop()
        if f in seen:
            continue
        seen.append(f)
        try:
            src = open(os.path.join(COQ, f)).read()
        except OSError:
            continue
        for m in re.finditer(r'PySMT\.(\w+)\.(\w+)', src):
            g = "%s/%s.v" % (m.group(1), m.group(2))
            if os.path.exists(os.path.join(COQ, g)):
                todo.append(g)
        for m in re.finditer(r'From PySMT(?:\.(\w+))? Require (?:Import|Export)? *([^.]*(?:\.\w+)*[^.]*)\.\s', src):
            pref = m.group(1)
            for tok in m.group(2).split():
                parts = ([pref] if pref else []) + tok.split(".")
                g = "/".join(parts) + ".v"
                if os.path.exists(os.path.join(COQ, g)):
                    todo.append(g)
    return sorted(seen)


_STMT = re.compile(r'^\s*(?:Local\s+|Global\s+|#\[[^\]]*\]\s*)*(Theorem|Lemma|Corollary|Example|Fact|Remark|Proposition)\s+(\w+)', re.M)


def strip_comments(src):
    out, depth, i = [], 0, 0
    while i < len(src):
        if src.startswith("(*", i):
            depth += 1
            i += 2
        elif src.startswith("*)", i) and depth:
            depth -= 1
            i += 2
        else:
            if not depth:
                out.append(src[i])
            i += 1
    return "".join(out)


def obligations(files):
    """Statements (Theorem/Lemma/...) in the given .v files: list of (file, name)."""
    res = []
    for f in files:
        try:
            src = strip_comments(open(os.path.join(COQ, f)).read())
        except OSError:
            continue
        for m in _STMT.finditer(src):
            res.append((f, m.group(2)))
    return res


FORBIDDEN = re.compile(r'\b(Admitted|admit|Axiom|Axioms|Parameter|Parameters|Conjecture|Conjectures|Unset\s+Guard|bypass_check|type-in-type|impredicative-set|Admit\s+Obligations|native_compute)\b')


def hygiene(files):
    """Forbidden vernacular in the development (comments stripped). `Variable`/
    `Hypothesis` are allowed only inside a Section: checked by a section counter."""
    bad = []
    for f in files:
        try:
            src = strip_comments(open(os.path.join(COQ, f)).read())
        except OSError:
            continue
        for m in FORBIDDEN.finditer(src):
            bad.append("%s: %s" % (f, m.group(0)))
        depth = 0
        for line in src.split("\n"):
            s = line.strip()
            if re.match(r'(Section|Module)\s+\w+', s) and ":=" not in s:
                depth += 1 if s.startswith("Section") else 0
            elif re.match(r'End\s+\w+\s*\.', s) and depth:
                depth -= 1
            elif re.match(r'(Variable|Variables|Hypothesis|Hypotheses|Context)\b', s) and depth == 0:
                bad.append("%s: %s outside section" % (f, s[:60]))
    return bad


def compile_props(prop):
    """Compile props/<prop>.v on its own, capturing the Print Assumptions output."""
    f = "props/%s.v" % prop
    p = subprocess.run(["timeout", str(COQC_TIMEOUT), "coqc", "-Q", ".", "PySMT",
                        "-w", "-notation-overridden,-deprecated-hint-without-locality,-deprecated-instance-without-locality", f],
                       cwd=COQ, stdout=subprocess.PIPE, stderr=subprocess.STDOUT, text=True)
    return p.returncode == 0, p.stdout


def parse_assumptions(out):
    """Axiom names listed by Print Assumptions in the compile output."""
    axioms, closed = set(), 0
    for block in re.split(r'\n(?=Axioms:|Closed under)', "\n" + out):
        if block.startswith("Closed under"):
            closed += 1
        elif block.startswith("Axioms:"):
            for m in re.finditer(r'^([A-Za-z_][\w.\']*)\s*:', block[len("Axioms:"):], re.M):
                axioms.add(m.group(1))
    return sorted(axioms), closed


# ----------------------------------------------------------------------------
# Evaluating the model inside Coq (correspondence)
# ----------------------------------------------------------------------------

COQC_MEM_GB = float(os.environ.get("VERIF_COQC_MEM_GB", "6"))


def _limit_memory():
    # a case file that needs more than this is itself a symptom (e.g. traces blown up by a changed
    # implementation): coqc then fails, the driver sees a case-file error and reports it (fail closed)
    import resource
    lim = int(COQC_MEM_GB * (1 << 30))
    try:
        resource.setrlimit(resource.RLIMIT_AS, (lim, lim))
    except (ValueError, OSError):
        pass


_case_deps_built = set()


def ensure_case_deps(path):
    """Build the PySMT libraries a case file imports (they may lie outside the closure of the
    property file, e.g. core/CaseUtil): a check must not depend on `./check setup` having run."""
    try:
        with open(path) as f:
            head = "".join(f.readline() for _ in range(40))
    except OSError:
        return
    targets = []
    for m in re.finditer(r'From\s+PySMT\.(\w+)\s+Require\s+(?:Import|Export)?\s*([^.]*)\.', head):
        for name in m.group(2).split():
            targets.append("%s/%s.vo" % (m.group(1), name))
    for m in re.finditer(r'Require\s+(?:Import|Export)?\s*((?:PySMT\.\w+\.\w+\s*)+)\.', head):
        for q in m.group(1).split():
            parts = q.split(".")
            if len(parts) == 3:
                targets.append("%s/%s.vo" % (parts[1], parts[2]))
    todo = [t for t in dict.fromkeys(targets) if t not in _case_deps_built
            and os.path.exists(os.path.join(COQ, t[:-1]))]
    if todo:
        coq_make(todo)
        _case_deps_built.update(todo)


def coqc_file(path, timeout=COQC_TIMEOUT):
    ensure_case_deps(path)
    p = subprocess.run(["timeout", str(timeout), "coqc", "-Q", COQ, "PySMT",
                        "-w", "-notation-overridden,-deprecated-hint-without-locality,-deprecated-instance-without-locality", path],
                       stdout=subprocess.PIPE, stderr=subprocess.STDOUT, text=True,
                       cwd=os.path.dirname(path), preexec_fn=_limit_memory)
    return p.returncode, p.stdout


def run_case_files(paths, jobs=NPROC):
    """coqc every file in parallel; returns {path: (rc, output)}."""
    from concurrent.futures import ThreadPoolExecutor
    res = {}
    with ThreadPoolExecutor(max_workers=jobs) as ex:
        for pth, r in zip(paths, ex.map(coqc_file, paths)):
            res[pth] = r
    return res


def parse_nat_list(out, marker="MISMATCH"):
    """The case files print `Eval vm_compute in (marker_tag, <list nat>)`; we read
    the list after the `= ` of each Eval whose value is a list of naturals."""
    m = re.search(r'=\s*\[([^\]]*)\]\s*:\s*list nat', out.replace("\n", " "))
    if not m:
        return None
    body = m.group(1).strip()
    if not body:
        return []
    return [int(x.strip().replace("%nat", "")) for x in body.split(";")]


def clean_cases(dirpath):
    if os.path.isdir(dirpath):
        for f in os.listdir(dirpath):
            if f.startswith("cases") or f.startswith(".cases"):
                try:
                    os.remove(os.path.join(dirpath, f))
                except OSError:
                    pass


def coq_string(s):
    return '"' + s.replace('"', '""') + '"'


def coq_bool(b):
    return "true" if b else "false"


def coq_list(xs):
    return "[" + "; ".join(xs) + "]"


def coq_z(n):
    return "(%d)%%Z" % n


def coq_n(n):
    return "%d%%N" % n


def coq_nat(n):
    return "%d%%nat" % n


# ----------------------------------------------------------------------------
# Evidence, violations, known findings
# ----------------------------------------------------------------------------

def load_known():
    try:
        return json.load(open(os.path.join(VERIF, "known_findings.json")))
    except OSError:
        return []


class Check(object):
    """One run of one property's check."""

    def __init__(self, prop, tier):
        self.prop = prop
        self.tier = tier
        self.seed = seed()
        self.t0 = time.time()
        self.violations = []          # list of (replay_path, found_input)
        self.known_hits = []
        self.cov = {"obligations": 0, "discharged": 0, "checker_cmd": "",
                    "trusted_base": [], "evaluations": 0, "distinct_nontrivial": 0,
                    "rule": "", "samples": []}
        self.assumptions = []
        self.dir = mkdir(os.path.join(BUILD, prop))
        self.nreplay = 0
        self._distinct = set()
        self.level = "proof"
        self.max_reports = int(os.environ.get("VERIF_MAX_REPORTS", "8"))
        # fail closed, never die: drivers poll enough() in their generation loops and stop early;
        # start_watchdog() turns a resource blow-up into a reported VIOLATION and exit 1
        self.max_violations = int(os.environ.get("VERIF_MAX_VIOLATIONS", "50"))
        self.last_input = None        # drivers may keep the input being processed here (for the watchdog)
        self._watchdog = None
        for f in os.listdir(self.dir):
            if f.startswith("replay_"):
                os.remove(os.path.join(self.dir, f))
        # every check runs under a (generous) watchdog: a changed implementation may make a run
        # explode; that must end as a reported violation, not as a dead or endless process
        if os.environ.get("VERIF_WATCHDOG", "1") != "0":
            self.start_watchdog(rss_gb=float(os.environ.get("VERIF_WATCHDOG_RSS_GB", "10")),
                                wall_s=float(os.environ.get("VERIF_WATCHDOG_WALL_S", "2400" if tier == "quick" else "10800")))

    # -- bookkeeping -------------------------------------------------------
    def note(self, msg):
        print("[%s %6.1fs] %s" % (self.prop, time.time() - self.t0, msg), flush=True)

    def count(self, key, nontrivial=True):
        """Record one evaluated case; key identifies the case (for distinctness)."""
        self.cov["evaluations"] += 1
        if nontrivial:
            h = hashlib.md5(repr(key).encode()).digest()[:8]
            self._distinct.add(h)

    def sample(self, s, limit=8):
        if len(self.cov["samples"]) < limit:
            self.cov["samples"].append(s)

    # -- proof part --------------------------------------------------------
    def prove(self, extra_targets=()):
        """Build the Coq closure of props/<prop>.v; returns True iff every
        obligation in the closure was discharged."""
        pf = "props/%s.v" % self.prop
        closure = dep_closure(pf)
        obl = obligations(closure)
        self.cov["obligations"] = len(obl)
        self.cov["closure_files"] = closure
        bad = hygiene(closure)
        targets = [pf[:-2] + ".vo"] + [t for t in extra_targets]
        ok, log = coq_make(targets)
        self.cov["checker_cmd"] = ("coq_makefile -f _CoqProject -o Makefile && make -j%d %s "
                                   "(coqc 8.16.1, full .vo build) && coqc props/%s.v (Print Assumptions)"
                                   % (NPROC, " ".join(targets), self.prop))
        failed = coq_failed_files(log) if not ok else []
        with open(os.path.join(self.dir, "make.log"), "w") as f:
            f.write(log)
        axioms = []
        if ok:
            ok2, out = compile_props(self.prop)
            with open(os.path.join(self.dir, "props.log"), "w") as f:
                f.write(out)
            if not ok2:
                ok = False
                failed = [{"file": pf, "line": 0, "error": out[-800:]}]
            axioms, closed = parse_assumptions(out)
            self.cov["print_assumptions"] = {"axioms": axioms, "closed_theorems": closed}
        if bad:
            ok = False
            failed.append({"file": "hygiene", "line": 0, "error": "; ".join(bad)})
        if ok and self.tier == "thorough" and os.environ.get("VERIF_COQCHK", "1") == "1":
            # independent re-check of the compiled property file and everything it depends on
            t1 = time.time()
            p = subprocess.run(["timeout", "1500", "coqchk", "-silent", "-o", "-Q", ".", "PySMT", "PySMT.props.%s" % self.prop],
                               cwd=COQ, stdout=subprocess.PIPE, stderr=subprocess.STDOUT, text=True)
            with open(os.path.join(self.dir, "coqchk.log"), "w") as f:
                f.write(p.stdout)
            self.cov["coqchk"] = {"exit": p.returncode, "wall_s": round(time.time() - t1, 1),
                                  "axioms": sorted(set(re.findall(r'^\s*([A-Za-z_][\w.]*)\s*$', p.stdout.split("* Axioms:")[-1], re.M)))[:40]
                                  if "* Axioms:" in p.stdout else []}
            if p.returncode == 124:
                self.cov["coqchk"]["note"] = "timed out after 1500 s; not counted"
            elif p.returncode != 0:
                ok = False
                failed.append({"file": "coqchk", "line": 0, "error": p.stdout[-600:]})
        if ok:
            self.cov["discharged"] = len(obl)
        else:
            failed_files = set(x["file"] for x in failed)
            # statements in files that did not compile (or depend on them) are not discharged
            nd = 0
            for f, _ in obl:
                if os.path.exists(os.path.join(COQ, f[:-2] + ".vo")) and f not in failed_files:
                    nd += 1
            self.cov["discharged"] = min(nd, max(0, len(obl) - 1))
        self.proof_ok = ok
        self.proof_failed = failed
        self.axioms = axioms
        return ok

    # -- early stop / watchdog ---------------------------------------------
    def enough(self, extra=0):
        """True once max_violations violations (plus `extra` driver-side records such as
        correspondence disagreements) have been recorded: stop generating, report, exit 1."""
        return len(self.violations) + extra >= self.max_violations

    def start_watchdog(self, rss_gb=None, wall_s=None, period=2.0):
        """Background thread: when this process' RSS exceeds rss_gb or the run lasts longer than
        wall_s, report `VIOLATION ... no-failing-input-found` naming the blow-up (replay = the
        driver's last_input), write the evidence and exit 1.  Defaults: 4 GB; 15 min (quick) /
        none (thorough); VERIF_WATCHDOG_RSS_GB / VERIF_WATCHDOG_WALL_S override."""
        import threading
        if rss_gb is None:
            rss_gb = float(os.environ.get("VERIF_WATCHDOG_RSS_GB", "4"))
        if wall_s is None:
            wall_s = float(os.environ.get("VERIF_WATCHDOG_WALL_S", "900" if self.tier == "quick" else "0"))

        def rss_bytes():
            try:
                with open("/proc/self/status") as f:
                    for line in f:
                        if line.startswith("VmRSS:"):
                            return int(line.split()[1]) * 1024
            except (OSError, ValueError):
                pass
            return 0

        def loop():
            while True:
                time.sleep(period)
                rss, wall = rss_bytes(), time.time() - self.t0
                why = None
                if rss_gb and rss > rss_gb * (1 << 30):
                    why = "resident memory %.1f GB > %.1f GB" % (rss / float(1 << 30), rss_gb)
                elif wall_s and wall > wall_s:
                    why = "wall time %.0f s > %.0f s" % (wall, wall_s)
                if why:
                    try:
                        self.max_reports = max(self.max_reports, len(self.violations) + 1)
                        self.violation({"kind": "obligation",
                                        "theorem_or_correspondence": "resource blow-up in the %s check (%s): the run was stopped; "
                                                                     "nothing is established by it" % (self.prop, why),
                                        "last_input": self.last_input}, found_input=False)
                        self.cov["watchdog"] = why
                        self.finish(["(run aborted by the watchdog)"], [], self.cov.get("rule", ""))
                    finally:
                        os._exit(1)
        t = threading.Thread(target=loop, name="verif-watchdog", daemon=True)
        t.start()
        self._watchdog = t
        return t

    # -- reporting ---------------------------------------------------------
    def replay_path(self):
        self.nreplay += 1
        return os.path.join(self.dir, "replay_%d.json" % self.nreplay)

    def violation(self, replay, found_input=True, key=None):
        """Report a violation unless it is listed in known_findings.json (open)."""
        replay = dict(replay)
        replay["property"] = self.prop
        if key is not None:
            replay["key"] = key
            for k in load_known():
                if k.get("property") != self.prop or k.get("status") != "open":
                    continue
                # one genuine defect may have a family of failing inputs: key_regex names the family
                if k.get("key") == key or (k.get("key_regex") and re.match(k["key_regex"], key)):
                    kid = k.get("key") or k.get("key_regex")
                    if kid not in self.known_hits:
                        self.known_hits.append(kid)
                        print("KNOWN-FINDING: property=%s %s" % (self.prop, k.get("what", kid)), flush=True)
                    return False
        if len(self.violations) >= self.max_reports:
            self.violations.append((None, found_input))
            return True
        path = self.replay_path()
        with open(path, "w") as f:
            json.dump(replay, f, indent=1, default=str)
        self.violations.append((path, found_input))
        print("VIOLATION property=%s replay=%s%s" % (self.prop, path, "" if found_input else " no-failing-input-found"), flush=True)
        return True

    def finish(self, trusted_base, assumptions, rule, extra=None):
        self.cov["distinct_nontrivial"] = len(self._distinct)
        self.cov["rule"] = rule
        self.cov["trusted_base"] = list(trusted_base) + ["axioms reported by Print Assumptions in this run: %s"
                                                         % (", ".join(getattr(self, "axioms", [])) or "none (closed under the global context)")]
        if extra:
            self.cov.update(extra)
        if not self.cov["samples"]:
            self.cov["samples"] = ["(no sample recorded)"]
        if self.level not in ("exploration", "fault_enumeration", "model_checking", "proof", "translation_validation", "other"):
            self.cov["level_qualifier"] = self.level      # e.g. "partial": stated in coverage, schema level stays "proof"
            self.level = "proof"
        ev = {"property_id": self.prop, "tier": self.tier, "seed": self.seed, "level": self.level,
              "coverage": self.cov, "assumptions": list(assumptions),
              "wall_s": round(time.time() - self.t0, 2), "violations": len(self.violations),
              "known_findings_hit": self.known_hits}
        mkdir(EVID)
        with open(os.path.join(EVID, "%s.json" % self.prop), "w") as f:
            json.dump(ev, f, indent=1, default=str)
        self.note("done: obligations %d/%d, evaluations %d (distinct non-trivial %d), violations %d"
                  % (self.cov["discharged"], self.cov["obligations"], self.cov["evaluations"],
                     self.cov["distinct_nontrivial"], len(self.violations)))
        return 1 if self.violations else 0


def proof_failure_summary(chk):
    return "; ".join("%s:%s %s" % (x["file"], x["line"], x["error"].split("\n")[0][:200]) for x in chk.proof_failed)[:1500]
