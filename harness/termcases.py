"""Writing correspondence case files whose inputs are formulas (see tocoq.py) and running them."""
import os

from . import lib, tocoq

PREAMBLE = ("From Coq Require Import List ZArith Bool String.\n"
            "From PySMT.core Require Import CaseUtil Syntax.\n"
            "%s\nImport ListNotations.\nOpen Scope bool_scope.\n")


def write(dirpath, tag, imports, case_type, ok_def, cases, shard=150):
    """cases: list of (roots, body_fn) where body_fn(names) -> Gallina text of type case_type.
    ok_def: Gallina text `Definition ok (c : case_type) : bool := ...` (may define helpers first).
    Returns list of (path, first_index, count)."""
    files = []
    for k in range(0, len(cases), shard):
        rows = []
        for roots, body_fn in cases[k:k + shard]:
            rows.append(tocoq.with_terms(roots, body_fn))
        text = PREAMBLE % imports
        text += "Definition cases : list (%s) := [\n%s\n].\n" % (case_type, ";\n".join(rows))
        text += ok_def + "\nEval vm_compute in mismatches ok cases.\n"
        p = os.path.join(dirpath, "cases_%s_%d.v" % (tag, k // shard))
        with open(p, "w") as f:
            f.write(text)
        files.append((p, k, len(rows)))
    return files


def run(files):
    """Returns (mismatch_indexes_global, errors)."""
    res = lib.run_case_files([p for p, _, _ in files])
    bad, errs = [], []
    for p, first, n in files:
        rc, out = res[p]
        mm = lib.parse_nat_list(out) if rc == 0 else None
        if mm is None:
            errs.append({"file": p, "error": out[-600:]})
        else:
            bad += [first + i for i in mm]
    return bad, errs


def tyopt(t):
    return "None" if t is None else "(Some %s)" % tocoq.ty(t)
