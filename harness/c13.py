"""C13 - detected logic covers the formula; logic ordering and selection are sound."""
import itertools
import os
import random

from . import gen_all, lib

TRUSTED = [
    "Coq 8.16.1 kernel; vm_compute used for the complete enumerations (1728^2 theory pairs, named tables); no native_compute",
    "translator harness/translate/{pyast,logics_tr}.py (Python ast -> Gallina, fail-closed) regenerates gen/Logics.v from pysmt/logics.py on every run; its output is also validated against the running implementation on sampled theory pairs",
    "hand model models/LogicSelect.v of get_closer_logic/most_generic_logic and models/TheoryOracle.v of TheoryOracle, tied by correspondence (this run's counts below)",
    "translator harness/translate/dispatch_tr.py (Python ast -> Gallina, fail-closed) regenerates gen/Operators.v (node types, ids, names, groups) and gen/Dispatch.v (node type -> name of the handling method, per walker class) from the repository on every run; its output is cross-checked against the live tables (pysmt.operators, walker.functions[op].__name__) and the proofs Operators_proofs / Dispatch_theory_proofs tie the hand model's case analysis to it",
    "module-level logic tables are dumped by importing pysmt.logics from the repository under test",
]


def _theories(mod, fields):
    def mk(code):
        kw = {f: bool((code >> i) & 1) for i, f in enumerate(fields)}
        t = mod.Theory()
        for f, v in kw.items():
            setattr(t, f, v)
        return t
    return mk


def _code(t, fields):
    return sum((1 << i) for i, f in enumerate(fields) if getattr(t, f))


def _wf(t):
    return ((not t.integer_difference or t.integer_arithmetic) and (not t.real_difference or t.real_arithmetic)
            and (not t.arrays_const or t.arrays))


COQ_DECODE = """
Definition dec (n : N) : theory :=
  mkT %s.
Definition enc (t : theory) : N :=
  %s.
"""


def coq_codec(fields):
    dec = " ".join("(N.testbit n %d)" % i for i in range(len(fields)))
    enc = " + ".join("(if %s t then %d else 0)" % (f, 1 << i) for i, f in enumerate(fields))
    return COQ_DECODE % (dec, "(" + enc + ")%N")


def search_impl(chk, mod, fields, rnd, tier):
    """Property-level oracle on the implementation itself (independent of the model).
    Returns number of violations reported."""
    mk = _theories(mod, fields)
    n = 0
    wf = [mk(c) for c in range(1 << len(fields))]
    wf = [t for t in wf if _wf(t)]
    # reflexivity, antisymmetry, upper bound: all pairs
    le = {}
    codes = [_code(t, fields) for t in wf]
    for i, a in enumerate(wf):
        row = []
        for j, b in enumerate(wf):
            r = a <= b
            if r:
                row.append(j)
        le[i] = row
    chk.cov["impl_theory_pairs"] = len(wf) ** 2
    for i, a in enumerate(wf):
        if i not in le[i]:
            n += chk.violation({"kind": "input", "what": "Theory <= not reflexive", "theory": str(a)}, key="refl:%d" % codes[i])
        for j in le[i]:
            if j != i and i in le[j]:
                n += chk.violation({"kind": "input", "what": "Theory <= not antisymmetric", "a": str(a), "b": str(wf[j]),
                                    "repro": "a<=b and b<=a and a!=b"}, key="antisym:%d:%d" % (codes[i], codes[j]))
                break
    sample = range(len(wf)) if tier == "thorough" else rnd.sample(range(len(wf)), 400)
    for i in sample:
        a = wf[i]
        for j in range(len(wf)):
            b = wf[j]
            try:
                c = a.combine(b)
            except AssertionError:
                n += chk.violation({"kind": "input", "what": "Theory.combine raises AssertionError on two well-formed theories", "a": str(a), "b": str(b),
                                    "repro": "pysmt.logics.Theory(<flags of a>).combine(Theory(<flags of b>))"}, key="combine-asserts:%d:%d" % (codes[i], codes[j]))
                break
            if not (a <= c and b <= c):
                n += chk.violation({"kind": "input", "what": "combine is not an upper bound", "a": str(a), "b": str(b), "combine": str(c)},
                                   key="upper:%d:%d" % (codes[i], codes[j]))
                break
    # transitivity through the adjacency lists
    sets = {i: set(le[i]) for i in le}
    for i in (range(len(wf)) if tier == "thorough" else rnd.sample(range(len(wf)), 600)):
        bad = None
        for j in le[i]:
            if not sets[j] <= sets[i]:
                k = sorted(sets[j] - sets[i])[0]
                bad = (j, k)
                break
        if bad:
            n += chk.violation({"kind": "input", "what": "Theory <= not transitive", "a": str(wf[i]), "b": str(wf[bad[0]]), "c": str(wf[bad[1]])},
                               key="trans:%d:%d:%d" % (codes[i], codes[bad[0]], codes[bad[1]]))
            break
    # named logics: partial order
    L = sorted(mod.LOGICS | mod.PYSMT_LOGICS, key=lambda l: l.name)
    for a in L:
        if not a <= a:
            n += chk.violation({"kind": "input", "what": "Logic <= not reflexive", "a": a.name}, key="lrefl:" + a.name)
        for b in L:
            if a <= b and b <= a and a != b:
                n += chk.violation({"kind": "input", "what": "Logic <= not antisymmetric", "a": a.name, "b": b.name}, key="lantisym:%s:%s" % (a.name, b.name))
            if a <= b:
                for c in L:
                    if b <= c and not a <= c:
                        n += chk.violation({"kind": "input", "what": "Logic <= not transitive", "a": a.name, "b": b.name, "c": c.name},
                                           key="ltrans:%s:%s:%s" % (a.name, b.name, c.name))
    return n


def _impl_row(a, b, fields):
    return [a <= b, a == b, _code(a.combine(b), fields), _code(a.copy(), fields), _code(a.set_lira(), fields),
            _code(a.set_linear(False), fields), _code(a.set_strings(), fields), _code(a.set_difference_logic(False), fields),
            _code(a.set_arrays(), fields), _code(a.set_arrays_const(), fields), _code(a.set_difference_logic(True), fields)]


def selection_cases(mod, rnd, count):
    """(supported list, target) pairs: sub-lists of the named tables."""
    tables = [sorted(mod.LOGICS, key=str), sorted(mod.PYSMT_LOGICS, key=str), sorted(mod.SMTLIB2_LOGICS, key=str)]
    allL = sorted(mod.LOGICS | mod.PYSMT_LOGICS, key=str)
    cases = []
    for t in tables:
        for target in allL:
            cases.append((list(t), target))
    while len(cases) < count:
        base = rnd.choice(tables)
        k = rnd.choice([0, 1, 2, 3, 5, 8, 13, len(base) // 2])
        sub = rnd.sample(base, min(k, len(base)))
        rnd.shuffle(sub)
        cases.append((sub, rnd.choice(allL)))
    return cases


def check_selection_spec(chk, mod, sub, target, res):
    """The property itself, on the implementation's answer."""
    cands = [l for l in sub if target <= l]
    if isinstance(res, str):
        if res == "NoLogic" and cands:
            return "error although a supported logic is above the target"
        if res not in ("NoLogic",):
            return "unexpected exception %s" % res
        return None
    if not cands:
        return "returned %s although no supported logic is above the target" % res
    if res not in sub:
        return "result not in the supported list"
    if not target <= res:
        return "result is not above the target"
    for k in sub:
        if target <= k and k != res and k <= res:
            return "supported logic %s lies strictly between target and result %s" % (k, res)
    return None


def run(tier):
    chk = lib.Check("C13", tier)
    rnd = random.Random(chk.seed)
    rep = gen_all.regen_all()
    chk.cov["translator"] = rep.get("Logics")
    tr_failed = rep.get("Logics", {}).get("failed")
    import pysmt.logics as mod
    from .translate.logics_tr import read_init
    import ast
    src = open(os.path.join(lib.REPO, "pysmt", "logics.py")).read()
    th = [n for n in ast.parse(src).body if isinstance(n, ast.ClassDef) and n.name == "Theory"][0]
    fields, _ = read_init(th)

    ok = chk.prove(extra_targets=["models/TheoryOracle.vo"]) and not tr_failed
    # ---------------- correspondence -------------------------------------
    lib.clean_cases(chk.dir)
    mk = _theories(mod, fields)
    npairs = 3000 if tier == "quick" else 40000
    files = []
    corr_meta = {}
    shard = 500
    pairs = []
    for _ in range(npairs):
        a, b = rnd.randrange(1 << len(fields)), rnd.randrange(1 << len(fields))
        if rnd.random() < 0.3:
            b = a ^ (1 << rnd.randrange(len(fields)))
        pairs.append((a, b))
    hdr = ("From Coq Require Import List NArith Bool String.\nFrom PySMT.core Require Import CaseUtil.\n"
           "From PySMT.gen Require Import Logics.\nFrom PySMT.models Require Import LogicSelect.\nImport ListNotations.\nOpen Scope N_scope.\n"
           + coq_codec(fields))
    for k in range(0, len(pairs), shard):
        rows = []
        for (ca, cb) in pairs[k:k + shard]:
            a, b = mk(ca), mk(cb)
            try:
                exp = _impl_row(a, b, fields)
            except AssertionError:
                chk.cov["asserting_pairs_skipped"] = chk.cov.get("asserting_pairs_skipped", 0) + 1
                continue
            rows.append("(%d, %d, (%s, %s, [%s]))" % (ca, cb, lib.coq_bool(exp[0]), lib.coq_bool(exp[1]), "; ".join(str(x) for x in exp[2:])))
            chk.count(("pair", ca, cb))
        body = hdr + "Definition cases := [\n %s ].\n" % ";\n ".join(rows)
        body += ("Definition ok (c : N * N * (bool * bool * list N)) : bool :=\n"
                 "  let '(ca, cb, (ele, eeq, outs)) := c in let a := dec ca in let b := dec cb in\n"
                 "  Bool.eqb (t_le a b) ele && Bool.eqb (t_eq a b) eeq &&\n"
                 "  match outs with [c1; c2; c3; c4; c5; c6; c7; c8; c9] =>\n"
                 "    N.eqb (enc (t_combine a b)) c1 && N.eqb (enc (t_copy a)) c2 && N.eqb (enc (t_set_lira a true)) c3 &&\n"
                 "    N.eqb (enc (t_set_linear a false)) c4 && N.eqb (enc (t_set_strings a true)) c5 &&\n"
                 "    N.eqb (enc (t_set_difference_logic a false)) c6 && N.eqb (enc (t_set_arrays a true)) c7 &&\n"
                 "    N.eqb (enc (t_set_arrays_const a true)) c8 && N.eqb (enc (t_set_difference_logic a true)) c9\n"
                 "  | _ => false end.\n"
                 "Eval vm_compute in mismatches ok cases.\n")
        p = os.path.join(chk.dir, "cases_tr_%d.v" % (k // shard))
        open(p, "w").write(body)
        files.append(p)
        corr_meta[p] = ("translator", pairs[k:k + shard])
    chk.sample({"kind": "theory pair (12-bit codes, field order %s)" % fields, "a": pairs[0][0], "b": pairs[0][1]})

    # selection
    nsel = 600 if tier == "quick" else 6000
    sel = selection_cases(mod, rnd, nsel)
    names = {}

    def lit(l):
        return '(mkL "%s" %s (dec %d))' % (l.name, lib.coq_bool(l.quantifier_free), _code(l.theory, fields))
    spec_viol = 0
    for k in range(0, len(sel), 100):
        rows = []
        for (sub, target) in sel[k:k + 100]:
            try:
                r = mod.get_closer_logic(sub, target)
                exp = 'SelOk "%s"' % r.name
            except mod.NoLogicAvailableError:
                r = "NoLogic"
                exp = "SelNoLogic"
            except IndexError:
                r = "IndexError"
                exp = "SelIndexError"
            try:
                g = mod.most_generic_logic(sub)
                gexp = 'SelOk "%s"' % g.name
            except mod.NoLogicAvailableError:
                gexp = "SelNoLogic"
            msg = check_selection_spec(chk, mod, sub, target, r)
            if msg:
                spec_viol += 1
                chk.violation({"kind": "input", "what": "get_closer_logic: " + msg, "supported": [str(x) for x in sub], "target": str(target),
                               "result": str(r), "repro": "pysmt.logics.get_closer_logic([get_logic_by_name(n) for n in supported], get_logic_by_name(target))"},
                              key="closer:%s:%s" % (",".join(str(x) for x in sub), target))
            rows.append("(%s, %s, %s, %s)" % (lib.coq_list([lit(l) for l in sub]), lit(target), exp, gexp))
            chk.count(("sel", tuple(str(x) for x in sub), str(target)), nontrivial=len(sub) > 0)
        body = hdr + "Definition cases : list (list logic * logic * sel_result string * sel_result string) := [\n %s ].\n" % ";\n ".join(rows)
        body += ("Definition res_eqb (a : sel_result logic) (b : sel_result string) : bool :=\n"
                 "  match a, b with SelOk x, SelOk n => String.eqb (lname x) n | SelNoLogic, SelNoLogic => true\n"
                 "  | SelIndexError, SelIndexError => true | _, _ => false end.\n"
                 "Definition ok (c : list logic * logic * sel_result string * sel_result string) : bool :=\n"
                 "  let '(sub, t, e, g) := c in\n"
                 "  res_eqb (get_closer_logic logic l_le l_ne lname sub t) e && res_eqb (most_generic_logic logic l_le sub) g.\n"
                 "Eval vm_compute in mismatches ok cases.\n")
        p = os.path.join(chk.dir, "cases_sel_%d.v" % (k // 100))
        open(p, "w").write(body)
        files.append(p)
        corr_meta[p] = ("selection", sel[k:k + 100])
    chk.sample({"kind": "selection", "supported": [str(x) for x in sel[-1][0]], "target": str(sel[-1][1])})

    # get_closer_smtlib_logic / get_closer_pysmt_logic / get_quantified_version glue (implementation vs property)
    for l in sorted(mod.LOGICS | mod.PYSMT_LOGICS, key=str):
        for fn, table in ((mod.get_closer_pysmt_logic, mod.PYSMT_LOGICS), (mod.get_closer_smtlib_logic, mod.SMTLIB2_LOGICS)):
            try:
                r = fn(l)
            except mod.NoLogicAvailableError:
                r = "NoLogic"
            msg = check_selection_spec(chk, mod, list(table), l, r)
            chk.count(("glue", fn.__name__, l.name))
            if msg:
                chk.violation({"kind": "input", "what": "%s: %s" % (fn.__name__, msg), "target": l.name, "result": str(r)}, key="glue:%s:%s" % (fn.__name__, l.name))

    corr_bad = []
    if ok or os.path.exists(os.path.join(lib.COQ, "gen", "Logics.vo")):
        res = lib.run_case_files(files)
        for p, (rc, out) in res.items():
            mm = lib.parse_nat_list(out) if rc == 0 else None
            if mm is None:
                corr_bad.append({"file": p, "error": out[-500:]})
            elif mm:
                kind, data = corr_meta[p]
                for i in mm[:3]:
                    corr_bad.append({"file": p, "kind": kind, "index": i, "case": str(data[i])[:600]})
    else:
        corr_bad.append({"error": "gen/Logics.v does not compile"})
    chk.cov["correspondence"] = {"translator_pairs": len(pairs), "selection_cases": len(sel), "disagreements": len(corr_bad)}

    # ---------------- property-level oracle on the implementation ----------
    nviol = search_impl(chk, mod, fields, rnd, tier)
    # ---------------- theory oracle (detection) ---------------------------
    try:
        from . import c13_detect
        det_ok = c13_detect.run(chk, rnd, tier)
    except ImportError:
        det_ok = True

    if (not ok or corr_bad or not det_ok) and not chk.violations and not chk.known_hits:
        what = []
        if not ok:
            what.append("proof obligations no longer check: " + (lib.proof_failure_summary(chk) or str(tr_failed)))
        if corr_bad:
            what.append("correspondence model<->implementation differs: %s" % corr_bad[:3])
        chk.violation({"kind": "obligation", "theorem_or_correspondence": what}, found_input=False)
    return chk.finish(TRUSTED,
                      ["well-formed theories only (ID->IA, RD->RA, arrays_const->arrays): combine is not an upper bound on ill-formed ones",
                       "Theory.__eq__ isinstance guard and the two asserts in combine are not modelled"],
                      "theory pairs: uniformly random 12-bit codes, 30% differing in one flag; selection: every named table x every named target, then random sub-lists; detection: random formulas of all theories plus the SORT-SHAPE family (every chain of depth 1..3 over Array index / element positions x leaf sort in {Bool, Int, Real, BV8, String, S} x filler sort x 8 carriers; the nested sort reaches the formula only through a symbol / signature / binder / constant array and is never indexed below the top level) and the NON-VARIABLE-FACTOR family (factors / operands of Times, Div, Pow that are non-ground only through applied function symbols or ground without being literals, all ordered pairs of 17 kinds per sort, no other non-linearity), get_theory compared with the model and get_logic / get_theory with the features of the sort tree; distinct = distinct inputs")


def replay(path):
    import json
    r = json.load(open(path))
    print(json.dumps(r, indent=1))
    return run("quick")
