"""C13, detection part: TheoryOracle / get_logic vs models/TheoryOracle.v and vs an independent
feature extraction."""
import pysmt.operators as op
from pysmt.environment import Environment
from pysmt.exceptions import NoLogicAvailableError
from pysmt.oracles import get_logic

from . import termcases, tocoq
from .gen.formulas import Config, FormulaGen

FIELDS = ['arrays', 'arrays_const', 'bit_vectors', 'floating_point', 'integer_arithmetic', 'real_arithmetic',
          'integer_difference', 'real_difference', 'linear', 'uninterpreted', 'custom_type', 'strings']


def code(t):
    return sum((1 << i) for i, f in enumerate(FIELDS) if getattr(t, f))


def sort_features(t, out):
    if t.is_int_type():
        out.add("integer_arithmetic")
    elif t.is_real_type():
        out.add("real_arithmetic")
    elif t.is_bv_type():
        out.add("bit_vectors")
    elif t.is_string_type():
        out.add("strings")
    elif t.is_array_type():
        out.add("arrays")
        sort_features(t.index_type, out)
        sort_features(t.elem_type, out)
    elif t.is_function_type():
        out.add("uninterpreted")
        sort_features(t.return_type, out)
        for p in t.param_types:
            sort_features(p, out)
    elif t.is_bool_type():
        pass
    else:
        out.add("custom_type")


def features(f):
    """Independent statement of what the formula uses (from the property text): sorts of symbols,
    constants, bound variables and function signatures; operator families; quantifiers;
    non-linear arithmetic (a product of two non-constant terms, a power, a division by a
    non-constant)."""
    feats = set()
    quant = False
    nonlinear = False
    fvs = {}

    def has_sym(n):
        return any(m.is_symbol() or m.is_function_application() for m in tocoq.topo([n]))
    for n in tocoq.topo([f]):
        nt = n.node_type()
        if nt == op.SYMBOL:
            sort_features(n.symbol_type(), feats)
        elif nt == op.FUNCTION:
            feats.add("uninterpreted")
            sort_features(n.function_name().symbol_type(), feats)
        elif nt in (op.FORALL, op.EXISTS):
            quant = True
            for v in n.quantifier_vars():
                sort_features(v.symbol_type(), feats)
        elif nt == op.INT_CONSTANT:
            feats.add("integer_arithmetic")
        elif nt == op.REAL_CONSTANT:
            feats.add("real_arithmetic")
        elif nt == op.BV_CONSTANT or nt in op.BV_OPERATORS or nt in op.BV_RELATIONS:
            feats.add("bit_vectors")
        elif nt == op.STR_CONSTANT or nt in op.STR_OPERATORS or nt in op.STR_RELATIONS:
            feats.add("strings")
            if nt in (op.STR_LENGTH, op.STR_INDEXOF, op.STR_TO_INT, op.INT_TO_STR):
                feats.add("integer_arithmetic")
        elif nt == op.BV_TONATURAL:
            feats.add("integer_arithmetic")
            feats.add("bit_vectors")
        elif nt == op.TOREAL:
            feats.add("integer_arithmetic")
            feats.add("real_arithmetic")
        elif nt == op.ARRAY_VALUE:
            feats.add("arrays")
            feats.add("arrays_const")
            sort_features(n.array_value_index_type(), feats)
        elif nt in (op.ARRAY_SELECT, op.ARRAY_STORE):
            feats.add("arrays")
        elif nt == op.TIMES:
            if sum(1 for a in n.args() if has_sym(a)) > 1:
                nonlinear = True
        elif nt == op.POW:
            nonlinear = True
        elif nt == op.DIV:
            # a division by a non-constant, or by the literal zero ("can only happen in non-linear logics", formula.py Div)
            if has_sym(n.arg(1)) or (n.arg(1).is_constant() and n.arg(1).constant_value() == 0):
                nonlinear = True
    return feats, quant, nonlinear


def sort_shape_cases(tier):
    """SORT-SHAPE family: for every chain of depth 1..3 over Array index / element positions, every leaf sort
    and filler sort, a formula that mentions the nested sort only through one carrier (sortshape.CARRIERS)."""
    from pysmt.typing import BOOL, INT, REAL, STRING, BVType
    from . import sortshape
    fillers = ("Bool", "Int") if tier == "quick" else ("Bool", "Int", "Real", "BV8", "S")
    for ch in sortshape.chains(("idx", "elt"), 1, 3 if tier == "quick" else 4):
        for leaf in ("Bool", "Int", "Real", "BV8", "String", "S"):
            for fil in fillers:
                env = Environment()
                named = {"Bool": BOOL, "Int": INT, "Real": REAL, "BV8": BVType(8), "String": STRING,
                         "S": env.type_manager.Type("S", 0)}
                t = sortshape.build_sort(env, named[leaf], ch, named[fil])
                for c in sortshape.CARRIERS:
                    f = sortshape.carrier_formula(env, t, c)
                    if f is not None:
                        yield env, f, "sortshape:%s:%s:%s:%s" % (leaf, "-".join(ch), fil, c)


def ground_factor_cases(tier):
    """NON-VARIABLE-FACTOR family: factors / operands of Times, Div and Pow that are non-ground only through applied
    function symbols (f(1), f(f(0)) + 1, ite(true, f(1), 2), a constant array holding f(1)), or ground without being a
    literal (1 + 2, ite(1 < 2, 3, 4), a select on a constant array, str.len of a literal, bv2nat of a literal), next to
    literals and variables, in both orders, with no other non-linearity anywhere in the formula."""
    from pysmt.typing import BOOL, INT, REAL, FunctionType
    for sort in ("Int", "Real"):
        env = Environment()
        m = env.formula_manager
        T = INT if sort == "Int" else REAL

        def num(k, T=T, m=m):
            return m.Int(k) if T.is_int_type() else m.Real(k)
        f = m.Symbol("f", FunctionType(T, [T]))
        h = m.Symbol("h", FunctionType(T, [T, BOOL]))
        x, y = m.Symbol("x", T), m.Symbol("y", T)
        f1 = m.Function(f, [num(1)])
        kinds = [
            ("lit", num(3)), ("lit-arith", m.Plus(num(2), num(1))), ("var", x), ("var-sum", m.Plus(y, num(1))),
            ("uf-lit", f1), ("uf-uf", m.Function(f, [m.Function(f, [num(0)])])), ("uf-sum", m.Plus(m.Function(f, [m.Function(f, [num(0)])]), num(1))),
            ("uf-2", m.Function(h, [num(2), m.TRUE()])), ("uf-minus", m.Minus(num(0), f1)), ("uf-ite", m.Ite(m.TRUE(), f1, num(2))),
            ("uf-ite-cond", m.Ite(m.LT(f1, num(2)), num(3), num(4))), ("uf-constarr", m.Select(m.Array(T, f1), num(2))),
            ("uf-of-var", m.Function(f, [x])),
            ("ground-ite", m.Ite(m.LT(num(1), num(2)), num(3), num(4))), ("ground-select", m.Select(m.Array(T, num(5)), num(1))),
        ]
        if sort == "Int":
            kinds += [("ground-strlen", m.StrLength(m.String("ab"))), ("ground-bv2nat", m.BVToNatural(m.BV(3, 8)))]
        else:
            fi = m.Symbol("fi", FunctionType(INT, [INT]))
            kinds += [("uf-toreal", m.ToReal(m.Function(fi, [m.Int(1)]))), ("ground-toreal", m.ToReal(m.Plus(m.Int(1), m.Int(2))))]
        for (ka, a), (kb, b) in ((p, q) for p in kinds for q in kinds):
            yield env, m.Equals(m.Times(a, b), num(0)), "factors:%s:times:%s:%s" % (sort, ka, kb)
            if not (b.is_constant() and b.constant_value() == 0):
                yield env, m.LE(m.Div(a, b), num(0)), "factors:%s:div:%s:%s" % (sort, ka, kb)
        for ka, a in kinds:
            yield env, m.Equals(m.Pow(a, num(2)), m.Real(0)), "factors:%s:pow:%s" % (sort, ka)
            # three factors, one of them a literal; a product below a sum; a product inside an argument of f
            for kb, b in kinds[2:]:
                yield env, m.Equals(m.Times(num(2), a, b), num(0)), "factors:%s:times3:%s:%s" % (sort, ka, kb)
                yield env, m.LE(m.Plus(m.Times(a, b), num(1)), num(7)), "factors:%s:sum-of-times:%s:%s" % (sort, ka, kb)
            yield env, m.Equals(m.Function(f, [m.Times(a, f1)]), num(0)), "factors:%s:times-under-uf:%s" % (sort, ka)


def flag_cases(rnd, tier):
    """ENVIRONMENT-FLAGS family (harness/envflags.py): formulas built under every value of the flags, analysed under every
    value; then a flag is flipped on the SAME environment and formulas sharing sub-terms with the analysed ones (and the
    analysed ones again) are analysed."""
    from . import envflags
    for fb in envflags.combos():
        for fa in envflags.combos():
            env = Environment()
            envflags.set_flags(env, fb)
            fs = envflags.division_formulas(env)
            g = FormulaGen(env, rnd, Config())
            extra = [g.gen(rnd.choice(g.types), rnd.randint(1, 4)) for _ in range(2 if tier == "quick" else 12)]
            envflags.set_flags(env, fa)
            tag = "flags:built-%s:analysed-%s" % (envflags.label(fb), envflags.label(fa))
            for f in fs + extra:
                yield env, f, tag
            # flip between two analyses on one environment
            flipped = dict(fa, enable_div_by_0=not fa["enable_div_by_0"], enable_infix_notation=not fa["enable_infix_notation"])
            envflags.set_flags(env, flipped)
            m = env.formula_manager
            bools = [f for f in fs if f.get_type().is_bool_type()]
            for a, b in zip(bools, bools[1:]):
                yield env, m.And(a, m.Not(b)), tag + ":then-" + envflags.label(flipped)
            for f in fs[:4]:
                yield env, f, tag + ":again-" + envflags.label(flipped)


def run(chk, rnd, tier):
    env0 = Environment()
    n = 600 if tier == "quick" else 6000
    g = FormulaGen(env0, rnd, Config())
    cases, meta = [], []
    ops_seen = set()
    ok = True

    def inputs():
        for i in range(n):
            yield env0, g.gen(rnd.choice(g.types), rnd.randint(1, 5)), "random"
        for x in sort_shape_cases(tier):
            yield x
        for x in ground_factor_cases(tier):
            yield x
        for x in flag_cases(rnd, tier):
            yield x
    nshape = nfactor = nflags = 0
    for env, f, fam in inputs():
        nshape += fam.startswith("sortshape")
        nfactor += fam.startswith("factors")
        nflags += fam.startswith("flags")
        try:
            th = env.theoryo.get_theory(f)
            exp = "(Some (%s, th_dec %d%%N))" % ("true" if env.qfo.is_qf(f) else "false", code(th))
        except Exception as ex:   # noqa
            exp = "None"
            th = None
        for m in tocoq.topo([f]):
            ops_seen.add(m.node_type())
        cases.append(([f], (lambda names, f=f, exp=exp: "(%s, %s)" % (names[f], exp))))
        meta.append(f)
        chk.count(("detect", tocoq.skey(f)), nontrivial=len(f.args()) > 0)
        # property-level oracle on the implementation
        feats, quant, nonlinear = features(f)
        try:
            lg = get_logic(f, env)
        except NoLogicAvailableError:
            lg = None
        for what, theory, qf in (("get_logic(f) = %s" % lg, lg.theory if lg is not None else None, lg.quantifier_free if lg is not None else None),
                                 ("env.theoryo.get_theory(f) = %s" % th, th, None)):
            if theory is None:
                continue
            missing = [x for x in feats if not getattr(theory, x)]
            if quant and qf:
                missing.append("quantifiers")
            if nonlinear and theory.linear:
                missing.append("non-linear")
            if missing:
                ok = False
                kinds = sorted(set(op.op_to_str(m.node_type()) for m in tocoq.topo([f])))
                sorts = sorted(set(str(m.symbol_type()) for m in tocoq.topo([f]) if m.is_symbol()))
                chk.violation({"kind": "input", "what": "%s does not enable %s" % (what, sorted(missing)),
                               "formula": f.serialize(), "node_types": kinds, "symbol_sorts": sorts, "family": fam,
                               "flags_legend": "in a flags: family the three digits after built- / analysed- / then- / again- are enable_div_by_0, "
                                               "enable_infix_notation, allow_empty_var_names of the Environment (1 = True)",
                               "repro": "pysmt.oracles.get_logic(<formula>) / env.theoryo.get_theory(<formula>)"},
                              key="detect:%s:%s" % (lg if lg is not None else "no-logic", ",".join(sorted(missing))))
                break
    chk.cov.setdefault("correspondence", {})["detection_sort_shape_cases"] = nshape
    chk.cov["correspondence"]["detection_non_variable_factor_cases"] = nfactor
    chk.cov["correspondence"]["detection_environment_flag_cases"] = nflags
    chk.sample({"kind": "detection", "formula": meta[0].serialize()[:300]})
    ok_def = ("Definition th_eqb (a b : theory) := t_eq a b.\n"
              "Definition ok (c : term * option (bool * theory)) : bool :=\n"
              "  match detected (fst c), snd c with\n"
              "  | Some (q1, t1), Some (q2, t2) => Bool.eqb q1 q2 && th_eqb t1 t2\n"
              "  | None, None => true | _, _ => false end.\n")
    files = termcases.write(chk.dir, "detect", "From PySMT.gen Require Import Logics.\nFrom PySMT.models Require Import TheoryOracle.", "term * option (bool * theory)", ok_def, cases)
    bad, errs = termcases.run(files)
    chk.cov.setdefault("correspondence", {})["detection_cases"] = len(cases)
    chk.cov["correspondence"]["detection_disagreements"] = len(bad) + len(errs)
    chk.cov["operators_covered_by_detection_cases"] = len(ops_seen)
    for i in bad[:3]:
        f = meta[i]
        chk.note("detection model/impl disagreement on %s" % f.serialize()[:200])
        chk.cov["correspondence"].setdefault("detection_examples", []).append(f.serialize()[:300])
    for e in errs[:2]:
        chk.note("detection case file error: %s" % e["error"][-300:])
    return ok and not bad and not errs
