"""C20 - work is linear in DAG size and independent of nesting depth."""
import io
import signal
import json
import os
import random
import sys
import time
import traceback

from . import lib, walktap
from .walktap import Tap, WorkExceeded, export_dag, distinct_subformulas

TRUSTED = [
    "Coq 8.16.1 kernel; vm_compute evaluates the walker model on the exported DAGs of the correspondence cases; no native_compute",
    "hand model core/DagWalk.v of pysmt/walkers/dag.py (loop, stack, memo, early hit, one-shot clearing), tied by correspondence: callback invocation ORDER, number of loop iterations, final stack and memo domain are compared on every case of this run",
    "harness/walktap.py: counting wrappers shadowing walker.functions / measure_to_fun and the two loop methods on the instance; export of the traversal DAG through the walker's own _get_children/_get_key",
    "recursion-freedom is a fact about CPython frames: decided by running the implementation under the default recursion limit (1000) on chains deeper than the limit, not by the model",
    "work inside callbacks is observed as the number of structural accesses to FNodes (node_type/args/arg shadowed on the class while an operation runs on a sharing family or ladder) with a growth test between two sizes (allowed factor 3*(n2/n1)^2); wall-clock time itself is not an observable (several callbacks do O(size) work per node on CHAINS: frozenset-valued size measures, flattening of n-ary sums)",
]
ASSUMPTIONS = [
    "the walker object is clean (no earlier call raised): see C15 for what happens otherwise",
    "callbacks that re-enter walk() on the same walker object are not modelled (none of the measured operations does it)",
    "TreeWalker clients (HR serializer, non-daggified SMT-LIB printer) are outside: they expand the tree by design",
]

# --------------------------------------------------------------------------------------------
# formula families
# --------------------------------------------------------------------------------------------


def _families():
    import pysmt.environment
    from pysmt.typing import BOOL, INT, REAL, STRING
    BV8 = lambda m: m.env.type_manager.BVType(8)
    ARR = lambda m: m.env.type_manager.ArrayType(INT, INT)
    FT = lambda m: m.env.type_manager.FunctionType(INT, [INT, INT])
    const = lambda t: (lambda m: t)
    BOOL_, INT_, REAL_, STRING_ = const(BOOL), const(INT), const(REAL), const(STRING)

    def leafs(sort, pfx):
        return lambda m, i: m.Symbol("%s%d" % (pfx, i % 7), sort(m))
    F = {}

    def add(name, sort, pfx, chain, shared):
        F[name] = {"sort": sort, "leaf": leafs(sort, pfx), "chain": chain, "shared": shared}
    c = lambda m: m.Symbol("c", BOOL)
    add("and", BOOL_, "a", lambda m, x, l: m.And(x, l), lambda m, x: m.And(x, x))
    add("or", BOOL_, "a", lambda m, x, l: m.Or(l, x), lambda m, x: m.Or(x, x))
    add("not_and", BOOL_, "a", lambda m, x, l: m.Not(m.And(x, l)), lambda m, x: m.Not(m.And(x, x)))
    add("implies", BOOL_, "a", lambda m, x, l: m.Implies(l, x), lambda m, x: m.Implies(x, x))
    add("iff", BOOL_, "a", lambda m, x, l: m.Iff(x, l), lambda m, x: m.Iff(x, x))
    add("ite_bool", BOOL_, "a", lambda m, x, l: m.Ite(l, x, c(m)), lambda m, x: m.Ite(c(m), x, x))
    add("plus", INT_, "i", lambda m, x, l: m.Plus(x, l), lambda m, x: m.Plus(x, x))
    add("minus", INT_, "i", lambda m, x, l: m.Minus(l, x), lambda m, x: m.Minus(x, x))
    add("times", INT_, "i", lambda m, x, l: m.Times(x, m.Int(3)), lambda m, x: m.Times(x, x))
    add("plus_real", REAL_, "r", lambda m, x, l: m.Plus(l, x), lambda m, x: m.Plus(x, x))
    add("div_real", REAL_, "r", lambda m, x, l: m.Div(x, m.Real(3)), lambda m, x: m.Div(x, x))
    add("ite_int", INT_, "i", lambda m, x, l: m.Ite(c(m), x, l), lambda m, x: m.Ite(c(m), x, x))
    add("ite_real", REAL_, "r", lambda m, x, l: m.Ite(c(m), l, x), lambda m, x: m.Ite(c(m), x, x))
    add("bvadd", BV8, "b", lambda m, x, l: m.BVAdd(x, l), lambda m, x: m.BVAdd(x, x))
    add("bvand", BV8, "b", lambda m, x, l: m.BVAnd(l, x), lambda m, x: m.BVAnd(x, x))
    add("bvmul", BV8, "b", lambda m, x, l: m.BVMul(x, l), lambda m, x: m.BVMul(x, x))
    add("bvnot_xor", BV8, "b", lambda m, x, l: m.BVNot(m.BVXor(x, l)), lambda m, x: m.BVNot(m.BVXor(x, x)))
    add("bvshl", BV8, "b", lambda m, x, l: m.BVLShl(x, l), lambda m, x: m.BVLShl(x, x))
    add("ite_bv_else", BV8, "b", lambda m, x, l: m.Ite(c(m), l, x), lambda m, x: m.Ite(c(m), x, x))
    add("ite_bv_then", BV8, "b", lambda m, x, l: m.Ite(c(m), x, l), lambda m, x: m.Ite(c(m), x, x))
    add("store", ARR, "arr", lambda m, x, l: m.Store(x, m.Symbol("i1", INT), m.Symbol("i2", INT)),
        lambda m, x: m.Store(x, m.Symbol("i1", INT), m.Select(x, m.Symbol("i2", INT))))
    add("ite_array", ARR, "arr", lambda m, x, l: m.Ite(c(m), x, l), lambda m, x: m.Ite(c(m), x, x))
    add("str_concat", STRING_, "s", lambda m, x, l: m.StrConcat(x, l), lambda m, x: m.StrConcat(x, x))
    add("uf", INT_, "i", lambda m, x, l: m.Function(m.Symbol("fun", FT(m)), [x, l]),
        lambda m, x: m.Function(m.Symbol("fun", FT(m)), [x, x]))
    # a BV operator applied on top of an ITE chain (the width accessor of fnode.py)
    add("bvneg_over_ite_then", BV8, "b", lambda m, x, l: m.Ite(c(m), x, l), lambda m, x: m.Ite(c(m), x, x))
    F["bvneg_over_ite_then"]["top"] = lambda m, x: m.BVNeg(x)
    return F


class AccessCounter(object):
    """Counts the structural accesses to FNodes (node_type()/args()/arg(); every is_* test goes
    through node_type()) made while an operation runs: the work done INSIDE the callbacks, which
    the callback counters cannot see.  The three methods are shadowed on the class for the
    duration of the measurement only (in this process; nothing in /repo is touched)."""

    NAMES = ("node_type", "args", "arg")

    def __init__(self):
        self.n = 0

    def __enter__(self):
        from pysmt.fnode import FNode
        self.cls = FNode
        self.orig = dict((k, FNode.__dict__[k]) for k in self.NAMES)
        me = self
        o_nt, o_args, o_arg = self.orig["node_type"], self.orig["args"], self.orig["arg"]

        def node_type(s):
            me.n += 1
            return o_nt(s)

        def args(s):
            me.n += 1
            return o_args(s)

        def arg(s, i):
            me.n += 1
            return o_arg(s, i)
        FNode.node_type, FNode.args, FNode.arg = node_type, args, arg
        return self

    def __exit__(self, *a):
        for k, v in self.orig.items():
            setattr(self.cls, k, v)


def _ladders():
    """Two-chain cross-sharing ladders  L_k = opL(L_{k-1}, M_{k-1}),  M_k = opM(M_{k-1}, L_{k-1}),
    with constant and with symbol leaves, closed by a comparison with a constant.  2n+O(1)
    distinct nodes per level pair, tree size 2^n; branches stay distinct after simplification."""
    from pysmt.typing import BOOL, INT, REAL
    L = {}

    def add(name, leaves, stepL, stepM, top, blowup_key=None):
        L[name] = {"leaves": leaves, "stepL": stepL, "stepM": stepM, "top": top, "blowup_key": blowup_key}
    bv8 = lambda m: m.env.type_manager.BVType(8)
    P = lambda m, k: m.Symbol("lp%d" % k, BOOL)
    Q = lambda m, k: m.Symbol("lq%d" % k, BOOL)
    ite_steps = (lambda m, a, b, k: m.Ite(P(m, k), a, b), lambda m, a, b, k: m.Ite(Q(m, k), a, b))
    for nm, const, sym, seven, lt in (
            ("int", lambda m: (m.Int(1), m.Int(2)), lambda m: (m.Symbol("li", INT), m.Symbol("lj", INT)), lambda m: m.Int(7), lambda m, a, b: m.LT(a, b)),
            ("real", lambda m: (m.Real(1), m.Real(2)), lambda m: (m.Symbol("lr", REAL), m.Symbol("ls", REAL)), lambda m: m.Real(7), lambda m, a, b: m.LT(a, b)),
            ("bv", lambda m: (m.BV(1, 8), m.BV(2, 8)), lambda m: (m.Symbol("lv", bv8(m)), m.Symbol("lw", bv8(m))), lambda m: m.BV(7, 8), lambda m, a, b: m.BVULT(a, b))):
        for lk, leaves in (("const", const), ("sym", sym)):
            add("ite_cross_%s_%s_eq" % (nm, lk), leaves, ite_steps[0], ite_steps[1], (lambda seven: lambda m, a, b: m.Equals(a, seven(m)))(seven))
            add("ite_cross_%s_%s_lt" % (nm, lk), leaves, ite_steps[0], ite_steps[1], (lambda seven, lt: lambda m, a, b: lt(m, a, seven(m)))(seven, lt))
        add("ite_cross_%s_mixed_eq" % nm, (lambda const, sym: lambda m: (const(m)[0], sym(m)[0]))(const, sym), ite_steps[0], ite_steps[1],
            (lambda seven: lambda m, a, b: m.Equals(a, seven(m)))(seven))
    add("ite_cross_bool_const", lambda m: (m.TRUE(), m.FALSE()), ite_steps[0], ite_steps[1], lambda m, a, b: m.Iff(a, b))
    add("ite_cross_bool_sym", lambda m: (m.Symbol("lx", BOOL), m.Symbol("ly", BOOL)), ite_steps[0], ite_steps[1], lambda m, a, b: m.Iff(a, b))
    ao = (lambda m, a, b, k: m.And(m.Or(a, P(m, k)), b), lambda m, a, b, k: m.Or(m.And(a, Q(m, k)), b))
    add("andor_cross_const", lambda m: (m.TRUE(), m.FALSE()), ao[0], ao[1], lambda m, a, b: m.Implies(a, b))
    add("andor_cross_sym", lambda m: (m.Symbol("lx", BOOL), m.Symbol("ly", BOOL)), ao[0], ao[1], lambda m, a, b: m.Implies(a, b))
    pl = (lambda m, a, b, k: m.Plus(a, b), lambda m, a, b, k: m.Plus(a, b, m.Int(1)))
    add("plus_cross_const", lambda m: (m.Int(1), m.Int(2)), pl[0], pl[1], lambda m, a, b: m.Equals(a, m.Int(7)))
    add("plus_cross_sym", lambda m: (m.Symbol("li", INT), m.Symbol("lj", INT)), pl[0], pl[1], lambda m, a, b: m.Equals(a, m.Int(7)),
        blowup_key="blowup:simplify:plus:shared")
    tm_ = (lambda m, a, b, k: m.Times(a, b), lambda m, a, b, k: m.Times(a, b, m.Int(3)))
    add("times_cross_const", lambda m: (m.Int(1), m.Int(2)), tm_[0], tm_[1], lambda m, a, b: m.Equals(a, m.Int(7)))
    add("times_cross_sym", lambda m: (m.Symbol("li", INT), m.Symbol("lj", INT)), tm_[0], tm_[1], lambda m, a, b: m.Equals(a, m.Int(7)),
        blowup_key="blowup:simplify:times:shared")
    bvs = (lambda m, a, b, k: m.BVAdd(a, b), lambda m, a, b, k: m.BVXor(a, b))
    add("bv_cross_const", lambda m: (m.BV(1, 8), m.BV(2, 8)), bvs[0], bvs[1], lambda m, a, b: m.BVULT(a, m.BV(7, 8)))
    add("bv_cross_sym", lambda m: (m.Symbol("lv", bv8(m)), m.Symbol("lw", bv8(m))), bvs[0], bvs[1], lambda m, a, b: m.Equals(a, m.BV(7, 8)))
    arr = lambda m: m.env.type_manager.ArrayType(INT, INT)
    st = (lambda m, a, b, k: m.Store(a, m.Int(k), m.Select(b, m.Int(0))), lambda m, a, b, k: m.Store(a, m.Int(0), m.Select(b, m.Int(k))))
    add("store_cross", lambda m: (m.Symbol("la", arr(m)), m.Symbol("lb", arr(m))), st[0], st[1], lambda m, a, b: m.Equals(m.Select(a, m.Int(1)), m.Int(7)))
    return L


def build_ladder(env, lad, n):
    m = env.formula_manager
    a, b = lad["leaves"](m)
    for k in range(n):
        a, b = lad["stepL"](m, a, b, k), lad["stepM"](m, b, a, k)
    return lad["top"](m, a, b)


def _position_ops():
    """(name, sort in, sort out, fn(m, x, k)): one operator through one argument position."""
    from pysmt.typing import BOOL, INT, REAL
    T = {"bv": lambda m: m.env.type_manager.BVType(8), "bv16": lambda m: m.env.type_manager.BVType(16),
         "arr": lambda m: m.env.type_manager.ArrayType(m.env.type_manager.BVType(8), m.env.type_manager.BVType(8)),
         "arri": lambda m: m.env.type_manager.ArrayType(INT, INT), "int": lambda m: INT, "real": lambda m: REAL, "bool": lambda m: BOOL}
    S = lambda m, nm, t: m.Symbol("t_" + nm, T[t](m))
    ops = []

    def add(name, i, o, fn):
        ops.append((name, i, o, fn))
    for el, ar in (("bv", "arr"), ("int", "arri")):
        add("select[array]", ar, el, lambda m, x, k, el=el: m.Select(x, S(m, "j" + el, el)))
        add("select[index]", el, el, lambda m, x, k, el=el, ar=ar: m.Select(S(m, "A" + ar, ar), x))
        add("store[array]", ar, ar, lambda m, x, k, el=el: m.Store(x, S(m, "i" + el, el), S(m, "v" + el, el)))
        add("store[value]", el, ar, lambda m, x, k, el=el, ar=ar: m.Store(S(m, "A" + ar, ar), S(m, "i" + el, el), x))
        add("store[index]", el, ar, lambda m, x, k, el=el, ar=ar: m.Store(S(m, "A" + ar, ar), x, S(m, "v" + el, el)))
    for t in ("bv", "arr", "int", "real", "arri", "bool", "bv16"):
        add("ite[then]", t, t, lambda m, x, k, t=t: m.Ite(S(m, "c", "bool"), x, S(m, "e" + t, t)))
        add("ite[else]", t, t, lambda m, x, k, t=t: m.Ite(S(m, "c", "bool"), S(m, "e" + t, t), x))
    for t in ("bv", "arr", "int"):
        add("fapp", t, t, lambda m, x, k, t=t: m.Function(m.Symbol("t_f" + t, m.env.type_manager.FunctionType(T[t](m), [T[t](m)])), [x]))
    add("bvadd", "bv", "bv", lambda m, x, k: m.BVAdd(x, S(m, "b", "bv")))
    add("bvconcat", "bv", "bv16", lambda m, x, k: m.BVConcat(x, S(m, "b", "bv")))
    add("bvzext", "bv", "bv16", lambda m, x, k: m.BVZExt(x, 8))
    add("bvextract", "bv16", "bv", lambda m, x, k: m.BVExtract(x, 0, 7))
    add("plus", "int", "int", lambda m, x, k: m.Plus(x, S(m, "n", "int")))
    add("plus", "real", "real", lambda m, x, k: m.Plus(x, S(m, "r", "real")))
    add("times", "int", "int", lambda m, x, k: m.Times(x, m.Int(3)))
    add("toreal", "int", "real", lambda m, x, k: m.ToReal(x))
    add("lt", "real", "bool", lambda m, x, k: m.LT(x, S(m, "r", "real")))
    add("lt", "int", "bool", lambda m, x, k: m.LT(x, S(m, "n", "int")))
    add("equals", "bv", "bool", lambda m, x, k: m.Equals(x, S(m, "b", "bv")))
    add("equals", "arr", "bool", lambda m, x, k: m.Equals(x, S(m, "Aarr", "arr")))
    for t in ("bv", "int", "real", "arr"):
        add("ite[cond]", "bool", t, lambda m, x, k, t=t: m.Ite(x, S(m, "e" + t, t), S(m, "g" + t, t)))
    add("not", "bool", "bool", lambda m, x, k: m.Not(x))
    add("and", "bool", "bool", lambda m, x, k: m.And(x, S(m, "c", "bool")))
    return T, ops


def _towers():
    """Alternating towers: every ordered pair (and a few triples) of operator positions that
    alternates well-typed:  x_{k+1} = op1(op2(x_k))."""
    T, ops = _position_ops()
    tw = {}

    def mk(seq):
        base = seq[-1][1]            # the innermost operator's input sort
        name = " o ".join("%s:%s" % (o[0], o[1]) for o in seq)

        def chain(m, x, l, seq=seq):
            for o in reversed(seq):
                x = o[3](m, x, 0)
            return x
        tw[name] = {"sort": T[base], "leaf": (lambda m, i, base=base: m.Symbol("t_x" + base, T[base](m))), "chain": chain,
                    "shared": None, "period": len(seq), "top_sort": base}
    for o1 in ops:
        for o2 in ops:
            if o2[2] == o1[1] and o1[2] == o2[1] and o1 is not o2:
                mk([o1, o2])
    byname = dict(((o[0], o[1]), o) for o in ops)
    for names in ((("ite[cond]", "bool"), ("lt", "real"), ("toreal", "int")),
                  (("select[array]", "arr"), ("store[value]", "bv"), ("bvadd", "bv")),
                  (("select[array]", "arr"), ("ite[then]", "arr"), ("store[value]", "bv")),
                  (("bvextract", "bv16"), ("ite[then]", "bv16"), ("bvconcat", "bv")),
                  (("select[array]", "arri"), ("store[value]", "int"), ("plus", "int")),
                  (("fapp", "bv"), ("select[array]", "arr"), ("store[index]", "bv"))):
        seq = [byname[n] for n in names]
        if seq[0][1] == "bool" and names[0][0] == "ite[cond]":
            seq[0] = [o for o in ops if o[0] == "ite[cond]" and o[2] == seq[-1][1]][0]
        mk(seq)
    return tw


def tower_tops(env, x, sort):
    """Constructors and accessors applied on top of a tower of the given sort."""
    m = env.formula_manager
    tm = env.type_manager
    from pysmt.typing import BOOL
    c = m.Symbol("t_c", BOOL)
    if sort in ("bv", "bv16"):
        return [("bv_width", lambda: x.bv_width()), ("get_type", lambda: x.get_type()), ("BVNot", lambda: m.BVNot(x)), ("BVNeg", lambda: m.BVNeg(x)),
                ("BVAdd", lambda: m.BVAdd(x, x)), ("BVMul", lambda: m.BVMul(x, x)), ("BVExtract", lambda: m.BVExtract(x, 0, 3)), ("BVZExt", lambda: m.BVZExt(x, 5)),
                ("BVSExt", lambda: m.BVSExt(x, 5)), ("BVConcat", lambda: m.BVConcat(x, x)), ("BVULT", lambda: m.BVULT(x, x)), ("BVLShl", lambda: m.BVLShl(x, x)),
                ("BVRol", lambda: m.BVRol(x, 1)), ("Equals", lambda: m.Equals(x, x)), ("BVNot(Ite)", lambda: m.BVNot(m.Ite(c, x, x))),
                ("BVToNatural", lambda: m.BVToNatural(x)), ("simplify(BVNot)", lambda: env.simplifier.simplify(m.BVNot(x)))]
    if sort in ("arr", "arri"):
        idx = m.Symbol("t_top_i", x.get_type().index_type)
        el = m.Symbol("t_top_e", x.get_type().elem_type)
        tops = [("get_type", lambda: x.get_type()), ("Select", lambda: m.Select(x, idx)), ("Store", lambda: m.Store(x, idx, el)), ("Equals", lambda: m.Equals(x, x)),
                ("Ite", lambda: m.Ite(c, x, x))]
        if sort == "arr":
            tops += [("BVNot(Select)", lambda: m.BVNot(m.Select(x, idx))), ("BVAdd(Select)", lambda: m.BVAdd(m.Select(x, idx), el)),
                     ("bv_width(Select)", lambda: m.Select(x, idx).bv_width()), ("BVExtract(Select)", lambda: m.BVExtract(m.Select(x, idx), 0, 3))]
        else:
            tops += [("Plus(Select)", lambda: m.Plus(m.Select(x, idx), el))]
        return tops
    if sort in ("int", "real"):
        return [("get_type", lambda: x.get_type()), ("Plus", lambda: m.Plus(x, x)), ("Times", lambda: m.Times(x, x)), ("Minus", lambda: m.Minus(x, x)),
                ("LT", lambda: m.LT(x, x)), ("Equals", lambda: m.Equals(x, x)), ("Ite", lambda: m.Ite(c, x, x))] + \
               ([("ToReal", lambda: m.ToReal(x))] if sort == "int" else [("Div", lambda: m.Div(x, m.Real(2)))])
    return [("get_type", lambda: x.get_type()), ("Not", lambda: m.Not(x)), ("And", lambda: m.And(x, c)), ("Iff", lambda: m.Iff(x, c)), ("Ite", lambda: m.Ite(x, c, x))]


def build(env, fam, mode, n):
    """mode 'chain': nesting depth n; mode 'shared': x_{i+1} = op(x_i, x_i), tree size 2^n;
    mode 'ladder': two-chain cross-sharing ladder of n levels."""
    m = env.formula_manager
    if mode == "ladder":
        return build_ladder(env, fam, n)
    x = fam["leaf"](m, 0)
    if mode == "chain":
        step, leaf = fam["chain"], fam["leaf"]
        for i in range(n):
            x = step(m, x, leaf(m, i + 1))
    else:
        step = fam["shared"]
        for _ in range(n):
            x = step(m, x)
    if "top" in fam:
        x = fam["top"](m, x)
    return x


def boolify(env, fam, f):
    m = env.formula_manager
    if "leaves" in fam:          # ladders are closed by a comparison already
        return f
    if fam["sort"](m).is_bool_type():
        return f
    return m.Equals(f, fam["leaf"](m, 0))


# --------------------------------------------------------------------------------------------
# operations: (name, kind, early, oneshot, K, make_walker(env), call(walker, env, g))
# K = keys per distinct sub-formula that the operation may legitimately visit
# --------------------------------------------------------------------------------------------

def _ops():
    import pysmt.oracles as orc
    import pysmt.rewritings as rw
    import pysmt.simplifier
    import pysmt.substituter as sb
    from pysmt.smtlib.printers import SmtDagPrinter
    import pysmt.environment as pe

    def subst_call(w, env, g):
        m = env.formula_manager
        fv = sorted(env.fvo.get_free_variables(g), key=lambda s: s.symbol_name())
        subs = {}
        for s in fv[:3]:
            if s.symbol_type().is_function_type():
                continue
            subs[s] = m.Symbol(s.symbol_name() + "_new", s.symbol_type())
        return w.substitute(g, subs)

    def dagprint(w, env, g):
        w.printer(g)
        return w.stream.getvalue()

    def mk_dagprinter(env):
        pe.push_env(env)
        try:
            return SmtDagPrinter(io.StringIO())
        finally:
            pe.pop_env()

    ops = [
        ("simplify", "plain", True, False, 1, lambda env: pysmt.simplifier.Simplifier(env), lambda w, env, g: w.simplify(g)),
        ("substitute", "subst", True, True, 1, lambda env: sb.MGSubstituter(env), subst_call),
        ("substitute_ms", "subst", True, True, 1, lambda env: sb.MSSubstituter(env), subst_call),
        ("free_vars", "plain", True, False, 1, lambda env: orc.FreeVarsOracle(env), lambda w, env, g: w.get_free_variables(g)),
        ("atoms", "plain", True, False, 1, lambda env: orc.AtomsOracle(env), lambda w, env, g: w.get_atoms(g)),
        ("qf", "plain", True, False, 1, lambda env: orc.QuantifierOracle(env), lambda w, env, g: w.is_qf(g)),
        ("types", "plain", True, False, 1, lambda env: orc.TypesOracle(env), lambda w, env, g: w.get_types(g)),
        ("theory", "plain", True, False, 1, lambda env: orc.TheoryOracle(env), lambda w, env, g: w.get_theory(g)),
    ]
    for k, nm in enumerate(["tree", "dag", "leaves", "depth", "symbols", "booldag"]):
        ops.append(("size_" + nm, "size", False, False, 1, lambda env: orc.SizeOracle(env),
                    (lambda k: lambda w, env, g: w.get_size(g, k))(k)))
    ops += [
        ("nnf", "plain", True, False, 2, lambda env: rw.NNFizer(env), lambda w, env, g: w.convert(g)),
        ("prenex", "plain", True, False, 1, lambda env: rw.PrenexNormalizer(env), lambda w, env, g: w.normalize(g)),
        ("aig", "plain", True, False, 1, lambda env: rw.AIGer(env), lambda w, env, g: w.convert(g)),
        ("cnf", "plain", True, False, 1, lambda env: rw.CNFizer(env), lambda w, env, g: w.convert(g)),
        ("pcnf", "pcnf", False, False, 2, lambda env: rw.PolarityCNFizer(env), lambda w, env, g: w.convert(g)),
        ("dagprint", "dagprint", True, True, 1, mk_dagprinter, dagprint),
    ]
    return ops


TWO_WALK_OPS = ("simplify", "free_vars", "qf", "types", "theory")
QUADRATIC_TIME = ("size_dag", "size_symbols", "size_booldag", "cnf", "pcnf")   # callbacks build O(size) sets


def root_key(kind, g, opname):
    if kind == "pcnf":
        return (g, True)
    if kind == "size":
        return (["tree", "dag", "leaves", "depth", "symbols", "booldag"].index(opname[5:]), g)
    return g


def rec_key(opname, famname, tb):
    """Stable key of a RecursionError: the known accessor defect is recognised by the frames."""
    frames = traceback.extract_tb(tb)
    tail = [f.name for f in frames[-40:]]
    if len(tail) >= 20 and sum(1 for n in tail[:-2] if n == "bv_width") >= len(tail) - 4 and "ite_then" in famname:
        return "recursion:fnode.bv_width:ite-then-chain"
    files = [os.path.basename(f.filename) for f in frames[-40:]]
    if len(tail) >= 20 and all(n == "walk" or n.startswith("walk_str_") or n.startswith("walk_int_to_str") for n in tail[:-1]) and files.count("printers.py") >= len(files) // 3:
        return "recursion:hrprinter:string-operators"
    return "recursion:%s:%s:%s" % (opname, famname, tail[-1] if tail else "?")


def dag_size(f):
    """(distinct nodes, edges) of an FNode DAG, own iterative traversal."""
    seen, edges, stack = set(), 0, [f]
    while stack:
        x = stack.pop()
        if x in seen:
            continue
        seen.add(x)
        a = x.args()
        edges += len(a)
        stack.extend(a)
    return len(seen), edges


class _Alarm(object):
    """Safety net: an operation that runs longer than `secs` is aborted (WorkExceeded)."""

    def __init__(self, secs):
        self.secs = secs

    def _fire(self, *a):
        raise WorkExceeded("no result after %d s" % self.secs)

    def __enter__(self):
        self.old = signal.signal(signal.SIGALRM, self._fire)
        signal.alarm(self.secs)

    def __exit__(self, *a):
        signal.alarm(0)
        signal.signal(signal.SIGALRM, self.old)


class Runner(object):
    def __init__(self, tier):
        self.blown = set()
        self.acc = {}         # (op, family, mode, n) -> structural accesses to FNodes during the operation
        self.blowup_keys = {}  # family -> key of the known simplifier blow-up it is an instance of
        self.viol = []        # (replay dict, key)
        self.counts = []
        self.meta_disagree = []
        self.tier = tier
        self.rows = []        # Coq cases
        self.meta = []        # description of each Coq case
        self.skipped = {}
        self.depth_hist = {}
        self.nviol = 0

    def violation(self, rep, key):
        self.nviol += 1
        self.viol.append((rep, key))

    def skip(self, what):
        self.skipped[what] = self.skipped.get(what, 0) + 1

    # -- one operation on one formula -------------------------------------------------------
    def run_op(self, env, op, famname, mode, n, g, model=False, mid=None):
        opname, kind, early, oneshot, K, mk, call = op
        replay = "harness.c20.replay_one(%r, %r, %d, %r)" % (famname, mode, n, opname)
        try:
            w = mk(env)
            ids, table = export_dag(w, kind, [root_key(kind, g, opname)])
        except AssertionError as ex:
            self.skip("%s: not applicable (%s)" % (opname, type(ex).__name__))
            return None
        except RecursionError:
            self.violation({"kind": "input", "what": "RecursionError in _get_children of %s" % opname, "repro": replay},
                           key="recursion:%s:%s:children" % (opname, famname))
            return None
        edges = sum(len(r) for r in table)
        tap = Tap(w, kind, limit=4 * (len(table) + edges) + 64)
        walks = []
        t0 = time.time()
        try:
            import pysmt.environment as pe
            pe.push_env(env)
            try:
                with _Alarm(30 + (len(table) + edges) // 4000):
                    if mid is not None and model and opname in TWO_WALK_OPS:
                        w.walk(mid)
                        walks.append((mid, list(tap.log), tap.pops))
                        tap.reset()
                    if mode in ("shared", "ladder") and n <= 24:
                        with AccessCounter() as ac:
                            res = call(w, env, g)
                        self.acc[(opname, famname, mode, n)] = ac.n
                    else:
                        res = call(w, env, g)
            finally:
                pe.pop_env()
        except RecursionError:
            tb = sys.exc_info()[2]
            self.violation({"kind": "input", "what": "RecursionError under the default recursion limit (%d) in %s on family %s %s(%d)"
                            % (sys.getrecursionlimit(), opname, famname, mode, n), "repro": replay,
                            "expected": "no call-stack recursion over operator nesting", "observed": "RecursionError",
                            "innermost_frames": [f.name for f in traceback.extract_tb(tb)[-6:]]},
                           key=rec_key(opname, famname, tb))
            return None
        except WorkExceeded as ex:
            self.blown.add((opname, famname, mode))
            self.violation({"kind": "input", "what": "%s: %s on a DAG with %d keys and %d edges (family %s %s(%d))"
                            % (opname, ex, len(table), edges, famname, mode, n), "repro": replay,
                            "expected": "at most 2*(1+edges) loop iterations (theorem C20_pops_linear) and a result in time linear in the DAG"},
                           key="work:%s:%s:%s" % (opname, famname, mode))
            return None
        except (NotImplementedError, AssertionError) as ex:
            self.skip("%s on %s: %s" % (opname, famname, type(ex).__name__))
            return None
        dt = time.time() - t0
        self.counts.append((opname, famname, mode, n))
        self.depth_hist[(mode, n)] = self.depth_hist.get((mode, n), 0) + 1
        self.depth_hist[(mode, n, opname)] = self.depth_hist.get((mode, n, opname), 0) + 1
        calls, pops = len(tap.log) + sum(len(lg) for _, lg, _ in walks), tap.pops
        all_log = [k for _, lg, _ in walks for k in lg] + list(tap.log)
        distinct = distinct_subformulas(g)
        # property-level oracle (independent of the model): bounded visits per distinct sub-formula
        if calls > K * distinct + 2:
            self.violation({"kind": "input", "what": "%s invoked its callbacks %d times on a formula with %d distinct sub-formulas "
                            "(family %s %s(%d)); at most %d per sub-formula are expected" % (opname, calls, distinct, famname, mode, n, K),
                            "repro": replay, "observed": calls, "expected": "<= %d" % (K * distinct + 2)},
                           key="count:%s:%s:%s" % (opname, famname, mode))
        if len(set(all_log)) != calls:
            self.violation({"kind": "input", "what": "%s invoked a callback more than once on the same key (family %s %s(%d)): %d calls, %d keys"
                            % (opname, famname, mode, n, calls, len(set(all_log))), "repro": replay},
                           key="dup:%s:%s:%s" % (opname, famname, mode))
        # size of the produced formula: linear in the input DAG, not in its tree expansion
        if hasattr(res, "node_id") and mode in ("shared", "ladder"):
            rn, re_ = dag_size(res)
            if rn + re_ > 16 * (distinct + edges) + 64:
                self.blown.add((opname, famname, mode))
                self.violation({"kind": "input", "what": "%s returns a formula with %d nodes and %d argument slots for an input DAG with %d distinct "
                                "sub-formulas (family %s: x_(i+1) = op(x_i, x_i), n = %d): the work follows the tree expansion 2^n, not the DAG"
                                % (opname, rn, re_, distinct, famname, n), "repro": replay,
                                "expected": "result DAG size linear in the input DAG size", "observed": [rn, re_]},
                               key=self.blowup_keys.get(famname) if (opname == "simplify" and self.blowup_keys.get(famname))
                               else "blowup:%s:%s:%s" % (opname, famname, mode))
        disagreement = None
        if calls != len(table):
            disagreement = "callback count %d differs from the theorem's count %d (distinct reachable keys)" % (calls, len(table))
        elif pops > 2 * (1 + edges):
            disagreement = "loop iterations %d exceed the proved bound %d" % (pops, 2 * (1 + edges))
        if opname == "dagprint" and isinstance(res, str):
            nonleaf = sum(1 for r in table if r)
            if res.count("(let ") > len(table):
                self.violation({"kind": "input", "what": "DAG printer emitted %d let-bindings for %d distinct nodes" % (res.count("(let "), len(table)),
                                "repro": replay}, key="lets:%s:%s" % (famname, mode))
            elif res.count("(let ") != nonleaf:
                disagreement = "let-bindings %d differ from distinct non-leaf nodes %d" % (res.count("(let "), nonleaf)
        if model and len(table) <= 400:
            ws = []
            for (rt, lg, pp) in walks:
                ws.append(walktap.coq_walk(ids[root_key(kind, rt, opname)], [], (0, 0), [ids[k] for k in lg], pp, [],
                                           sorted(ids[k] for k in set(lg))))
            memo = [] if oneshot else [ids[k] for k in w.memoization if k in ids]
            ws.append(walktap.coq_walk(ids[root_key(kind, g, opname)], [], (0, 0), [ids[k] for k in tap.log], pops,
                                       walktap.stack_ids(w, kind, ids), memo))
            self.rows.append(walktap.coq_case(table, early, oneshot, ws))
            self.meta.append({"op": opname, "family": famname, "mode": mode, "n": n, "keys": len(table), "repro": replay})
        if disagreement:
            self.meta_disagree.append({"op": opname, "family": famname, "mode": mode, "n": n, "what": disagreement, "repro": replay})
        return {"calls": calls, "pops": pops, "keys": len(table), "time": dt, "result": res}

    # -- type checking at construction -------------------------------------------------------
    def build_tapped(self, env, fam, famname, mode, n, model=False):
        """Builds the family with env.stc tapped: every create_node is one walk of the type
        checker.  Returns the formula or None."""
        mgr = env.formula_manager
        tap = Tap(env.stc, "plain", limit=None)
        created = []
        orig_create = mgr.create_node

        def create_node(node_type, args, payload=None):
            start, p0 = len(tap.log), tap.pops
            tap.limit = tap.pops + 8 * (1 + len(args)) + 64      # theorem: 2 * (1 + arity)
            node = orig_create(node_type=node_type, args=args, payload=payload)
            created.append((node, tap.log[start:], tap.pops - p0))
            return node
        mgr.create_node = create_node
        n_before = len(mgr.formulae)
        replay = "harness.c20.replay_one(%r, %r, %d, 'typecheck')" % (famname, mode, n)
        try:
            with _Alarm(120):
                f = build(env, fam, mode, n)
                g = boolify(env, fam, f)
                if model:        # re-creation of existing nodes: early memo hit, no loop iteration
                    build(env, fam, mode, n)
        except RecursionError:
            tb = sys.exc_info()[2]
            self.violation({"kind": "input", "what": "RecursionError under the default recursion limit while CONSTRUCTING family %s %s(%d)"
                            % (famname, mode, n), "repro": replay, "expected": "construction type-checks the new node only, iteratively",
                            "observed": "RecursionError", "innermost_frames": [x.name for x in traceback.extract_tb(tb)[-6:]]},
                           key=rec_key("construct", famname, tb))
            return None
        except WorkExceeded as ex:
            self.violation({"kind": "input", "what": "type checking ONE new node at construction ran %s (family %s %s(%d)): the memoised types of the "
                            "children are not reused" % (ex, famname, mode, n), "repro": replay,
                            "expected": "<= 2*(1+arity) loop iterations and one callback per created node (theorem C20_typecheck_at_creation)"},
                           key="work:typecheck:%s:%s" % (famname, mode))
            return None
        finally:
            del mgr.create_node
            tap.remove()
        new_nodes = len(mgr.formulae) - n_before
        total = sum(len(lg) for _, lg, _ in created)
        self.counts.append(("typecheck", famname, mode, n))
        worst = max([len(lg) for _, lg, _ in created] + [0])
        worst_pops = max([pp - 2 * (1 + len(nd.args())) for nd, _, pp in created] + [0])
        if total > new_nodes + 2 or worst > 1:
            self.violation({"kind": "input", "what": "type checking at construction invoked %d callbacks for %d new nodes (worst single creation: %d) "
                            "on family %s %s(%d)" % (total, new_nodes, worst, famname, mode, n), "repro": replay,
                            "expected": "one callback per created node (theorem C20_typecheck_at_creation)"},
                           key="count:typecheck:%s:%s" % (famname, mode))
        elif worst_pops > 0:
            self.violation({"kind": "input", "what": "type checking one new node ran %d loop iterations more than 2*(1+arity) on family %s %s(%d)"
                            % (worst_pops, famname, mode, n), "repro": replay}, key="work:typecheck:%s:%s" % (famname, mode))
        if model and len(created) <= 300:
            ids, table = {}, []
            ws = []
            memo = set()
            for node, lg, pp in created:
                export_dag(env.stc, "plain", [node], ids, table)
            for node, lg, pp in created:
                memo |= set(ids[k] for k in lg)
                ws.append(walktap.coq_walk(ids[node], [], (0, 0), [ids[k] for k in lg], pp, [], sorted(memo)))
            # nodes that existed before the tap (none of the families uses them) would be missing from memo
            self.rows.append(walktap.coq_case(table, True, False, ws))
            self.meta.append({"op": "typecheck", "family": famname, "mode": mode, "n": n, "keys": len(table), "repro": replay})
        return g

    # -- printing and re-parsing -------------------------------------------------------------
    def parse_back(self, env, famname, mode, n, g, text):
        from pysmt.smtlib.parser import SmtLibParser
        mgr = env.formula_manager
        replay = "harness.c20.replay_one(%r, %r, %d, 'parse')" % (famname, mode, n)
        decls = []
        for s in sorted(env.fvo.get_free_variables(g), key=lambda s: s.symbol_name()):
            ty = s.symbol_type()
            if ty.is_function_type():
                decls.append("(declare-fun %s (%s) %s)" % (s.symbol_name(), " ".join(p.as_smtlib(False) for p in ty.param_types), ty.return_type.as_smtlib(False)))
            else:
                decls.append("(declare-fun %s () %s)" % (s.symbol_name(), ty.as_smtlib(False)))
        script = "\n".join(decls) + "\n(assert %s)\n" % text
        count = [0]
        orig_create = mgr.create_node

        def create_node(node_type, args, payload=None):
            count[0] += 1
            return orig_create(node_type=node_type, args=args, payload=payload)
        mgr.create_node = create_node
        try:
            p = SmtLibParser(environment=env)
            sc = p.get_script(io.StringIO(script))
            back = sc.get_last_formula()
        except RecursionError:
            tb = sys.exc_info()[2]
            self.violation({"kind": "input", "what": "RecursionError while parsing the DAG-printed text of family %s %s(%d)" % (famname, mode, n),
                            "repro": replay}, key=rec_key("parse", famname, tb))
            return
        except Exception as ex:      # not C20's business (C07-C09), but recorded
            self.skip("parse of %s: %s" % (famname, type(ex).__name__))
            return
        finally:
            del mgr.create_node
        self.counts.append(("parse", famname, mode, n))
        distinct = distinct_subformulas(g)
        if count[0] > 4 * distinct + 64:
            self.violation({"kind": "input", "what": "re-parsing the DAG-printed text created %d nodes for a formula with %d distinct sub-formulas "
                            "(family %s %s(%d))" % (count[0], distinct, famname, mode, n), "repro": replay},
                           key="count:parse:%s:%s" % (famname, mode))
        if back is not g:
            self.skip("parse of %s: round trip not identical (C09)" % famname)


def measure_family(R, famname, fam, mode, n, ops, model, budget_end, only_fast=False, fast_ops=None, light=False):
    """The cyclic garbage collector is switched off while a deep chain is measured: its full
    passes over millions of live tuples dominate the time otherwise (nothing here is cyclic)."""
    import gc
    if n >= 20000:
        gc.disable()
    try:
        return _measure_family(R, famname, fam, mode, n, ops, model, budget_end, only_fast, fast_ops, light)
    finally:
        gc.enable()


def _measure_family(R, famname, fam, mode, n, ops, model, budget_end, only_fast=False, fast_ops=None, light=False):
    from pysmt.environment import Environment
    env = Environment()
    g = R.build_tapped(env, fam, famname, mode, n, model=model)
    if g is None:
        return {}
    mid = None
    if model:
        x = g
        for _ in range(3):
            if x.args():
                x = x.arg(0) if not x.arg(0).is_symbol() else x.arg(len(x.args()) - 1)
        mid = x if x is not g and x.args() else None
    times = {}
    text = None
    for op in ops:
        if only_fast and op[0] not in fast_ops:
            continue
        if (op[0], famname, mode) in R.blown:
            continue
        if time.time() > budget_end:
            R.skip("time budget: %s %s(%d) %s not run" % (famname, mode, n, op[0]))
            continue
        r = R.run_op(env, op, famname, mode, n, g, model=model, mid=mid)
        if r is not None:
            times[op[0]] = r["time"]
            if op[0] == "dagprint":
                text = r["result"]
    if light:
        return times
    try:
        with _Alarm(60):
            if text is not None and time.time() <= budget_end:
                R.parse_back(env, famname, mode, n, g, text)
    except WorkExceeded as ex:
        R.violation({"kind": "input", "what": "re-parsing the DAG-printed text of family %s %s(%d): %s" % (famname, mode, n, ex),
                     "repro": "harness.c20.replay_one(%r, %r, %d, 'parse')" % (famname, mode, n)}, key="work:parse:%s:%s" % (famname, mode))
    # get_logic end to end (environment singletons), recursion only
    try:
        import pysmt.oracles
        if not only_fast:
            with _Alarm(60):
                pysmt.oracles.get_logic(g, env)
    except RecursionError:
        R.violation({"kind": "input", "what": "RecursionError in get_logic on family %s %s(%d)" % (famname, mode, n),
                     "repro": "harness.c20.replay_one(%r, %r, %d, 'get_logic')" % (famname, mode, n)},
                    key="recursion:get_logic:%s" % famname)
    except WorkExceeded as ex:
        R.violation({"kind": "input", "what": "get_logic on family %s %s(%d): %s" % (famname, mode, n, ex),
                     "repro": "harness.c20.replay_one(%r, %r, %d, 'get_logic')" % (famname, mode, n)}, key="work:get_logic:%s:%s" % (famname, mode))
    except Exception:
        pass
    return times


# ---------------------------------------------------------------------------------------------
# Work accumulated ACROSS operations on one long-lived environment, with failing operations
# interleaved (C20-F class): the family is built level by level, every k-th level a failing
# operation of some kind is attempted and caught, and every 50 levels the persistent walkers
# analyse the formula built so far.  Theorems asserted continuously: one type-checker callback
# and <= 2*(1+arity) loop iterations per created node (C20_typecheck_at_creation); a persistent
# memo only grows (C20_terminates_memo_correct), so repeated analyses of a growing formula cost
# one callback per NEW node.
# ---------------------------------------------------------------------------------------------

FAIL_KINDS = ("And(i, b)", "Plus(i, b)", "BVAdd(v, i)", "Ite(i, b, b)", "Equals(i, v)", "LT(v, i)", "Not(i)", "op(x, wrong sort)", "same rejected construction again",
              "substitute ill-typed", "simplify unsupported operator", "free_vars unsupported operator", "theory unsupported operator", "parse undefined symbol",
              "create_node unknown type")
_C20_NT = []


def _failing_ops(env):
    """kind -> thunk(x) that must raise, for the environment's own long-lived services."""
    from pysmt.typing import BOOL, INT, REAL
    import pysmt.operators as op
    from pysmt.smtlib.parser import SmtLibParser
    if not _C20_NT:
        _C20_NT.append(op.new_node_type(node_str="C20_CUSTOM"))
        _C20_NT.append(op.new_node_type(node_str="C20_UNKNOWN"))
    NT, NT2 = _C20_NT
    m, tm = env.formula_manager, env.type_manager
    env.add_dynamic_walker_function(NT, type(env.stc), lambda self, formula, args, **kw: BOOL)
    b, i, r, v = m.Symbol("fk_b", BOOL), m.Symbol("fk_i", INT), m.Symbol("fk_r", REAL), m.Symbol("fk_v", tm.BVType(8))
    cn = m.create_node(node_type=NT, args=(b,))
    small = m.And(b, m.Or(m.Not(b), cn))
    parser = SmtLibParser(environment=env)

    def wrong(x):
        t = x.get_type()
        return m.Plus(x, i) if t.is_bool_type() else m.And(x, b)
    return {"And(i, b)": lambda x: m.And(i, b), "Plus(i, b)": lambda x: m.Plus(i, b), "BVAdd(v, i)": lambda x: m.BVAdd(v, i), "Ite(i, b, b)": lambda x: m.Ite(i, b, b),
            "Equals(i, v)": lambda x: m.Equals(i, v), "LT(v, i)": lambda x: m.LT(v, i), "Not(i)": lambda x: m.Not(i), "op(x, wrong sort)": wrong,
            "same rejected construction again": lambda x: m.Plus(i, b),
            "substitute ill-typed": lambda x: env.substituter.substitute(m.And(b, m.Not(m.LT(i, m.Int(1)))), {i: r}),
            "simplify unsupported operator": lambda x: env.simplifier.simplify(small),
            "free_vars unsupported operator": lambda x: env.fvo.get_free_variables(small),
            "theory unsupported operator": lambda x: env.theoryo.get_theory(small),
            "parse undefined symbol": lambda x: parser.get_script(io.StringIO("(declare-fun fk_i () Int)\n(assert (< fk_i fk_undefined))\n")),
            "create_node unknown type": lambda x: m.create_node(node_type=NT2, args=(b,))}


def interleaved_build(R, famname, fam, depth, every):
    """Returns nothing; violations go to R."""
    from pysmt.environment import Environment
    env = Environment()
    mgr = env.formula_manager
    fails = _failing_ops(env)
    kinds = sorted(fails)
    state = {"level": 0, "failed": 0, "not_failing": {}, "analyses": 0}
    walkers = {"fvo": (env.fvo, lambda w, f: w.get_free_variables(f)), "theoryo": (env.theoryo, lambda w, f: w.get_theory(f)),
               "qfo": (env.qfo, lambda w, f: w.is_qf(f)), "typeso": (env.typeso, lambda w, f: w.walk(f)),
               "sizeo": (env.sizeo, lambda w, f: w.get_size(f, 0)), "simplifier": (env.simplifier, lambda w, f: w.simplify(f))}
    taps = dict((nm, Tap(w, "size" if nm == "sizeo" else "plain", limit=None)) for nm, (w, _) in walkers.items())
    sizes = dict((nm, len(getattr(env, nm).memoization)) for nm in ("stc", "fvo", "theoryo", "qfo", "typeso", "sizeo", "simplifier"))
    name = "%s + a failing operation every %d level(s)" % (famname, every)
    replay = "harness.c20.replay_interleaved(%r, %d, %d)" % (famname, depth, every)

    def memo_watch(label):
        for nm in sizes:
            cur = len(getattr(env, nm).memoization)
            if cur < sizes[nm] and ("memo", nm) not in state:
                state[("memo", nm)] = True
                R.violation({"kind": "history", "what": "the memo table of env.%s shrank from %d to %d entries across a failing operation (%s) while the family %s was being "
                             "built: later work repeats earlier work (model: a persistent memo only grows, also across a call that raises)" % (nm, sizes[nm], cur, label, name),
                             "repro": replay}, key="memo-shrinks:%s" % nm)
            sizes[nm] = cur
    orig_chain = fam["chain"]

    def chain(m, x, l):
        state["level"] += 1
        lv = state["level"]
        if lv % every == 0:
            kind = kinds[(lv // every) % len(kinds)]
            try:
                fails[kind](x)
                state["not_failing"][kind] = state["not_failing"].get(kind, 0) + 1
            except RecursionError:
                tb = sys.exc_info()[2]
                state["failed"] += 1
                if "rec" not in state:
                    state["rec"] = True
                    R.violation({"kind": "history", "what": "RecursionError (instead of the operation's own error) from the failing operation `%s` at level %d of family %s"
                                 % (kind, lv, name), "repro": replay, "innermost_frames": [f.name for f in traceback.extract_tb(tb)[-6:]]},
                                key=rec_key("interleaved:" + kind, famname, tb))
            except WorkExceeded:
                raise
            except Exception:        # noqa: the failing operation, caught as any client would
                state["failed"] += 1
            memo_watch(kind)
        if lv % 50 == 0:
            state["analyses"] += 1
            for nm, (w, call) in walkers.items():
                if nm == "simplifier" and lv % 250:
                    continue          # its callbacks may do O(size) work per node (n-ary flattening)
                try:
                    call(w, x)
                except (NotImplementedError, AssertionError):
                    pass
        return orig_chain(m, x, l)
    ifam = dict(fam)
    ifam["chain"] = chain
    n0 = len(mgr.formulae)
    g = R.build_tapped(env, ifam, name, "chain", depth)
    for t in taps.values():
        t.remove()
    if g is None:
        return
    created = len(mgr.formulae) - n0
    R.counts.append(("interleaved", famname, depth, every))
    distinct = distinct_subformulas(g)
    for nm, t in taps.items():
        calls = len(t.log)
        bound = 2 * distinct + 64 * state["failed"] + 256
        if calls > bound:
            R.violation({"kind": "history", "what": "over the history (family %s, %d levels, %d failing operations caught, %d analyses of the growing formula) env.%s invoked its "
                         "callbacks %d times for %d distinct nodes: earlier results are recomputed (a persistent memo must survive failing calls)"
                         % (name, depth, state["failed"], state["analyses"], nm, calls, distinct), "repro": replay,
                         "expected": "<= %d" % bound, "observed": calls}, key="cumulative:%s:%s" % (nm, famname))
    R.acc[("interleaved", famname, every)] = (created, state["failed"])
    if state["not_failing"]:
        R.skip("interleaved: operation did not fail: %s" % sorted(state["not_failing"]))


def replay_interleaved(famname, depth, every):
    import warnings
    warnings.simplefilter("ignore")
    R = Runner("quick")
    interleaved_build(R, famname, _families()[famname], depth, every)
    for rep, key in R.viol:
        print("VIOLATION (replayed) key=%s: %s" % (key, rep.get("what")))
    print("violations: %d" % len(R.viol))
    return 1 if R.viol else 0


def growth_check(R, famname, mode, n1, n2, opnames):
    """Work inside the callbacks: structural accesses at size n2 against size n1.  Linear work
    doubles when the ladder doubles, quadratic quadruples; work that follows the tree expansion
    grows by 2^(n2-n1).  Allowed: 3 * (n2/n1)^2 times the smaller measurement, plus slack."""
    for opname in opnames:
        a1, a2 = R.acc.get((opname, famname, mode, n1)), R.acc.get((opname, famname, mode, n2))
        if a1 is None or a2 is None or (opname, famname, mode) in R.blown:
            continue
        R.counts.append(("inner-work", opname, famname, mode, n1, n2))
        allowed = 3.0 * (float(n2) / n1) ** 2 * a1 + 4000
        if a2 > allowed:
            R.violation({"kind": "input", "what": "%s does work that is not linear in the DAG on family %s: %d structural accesses to nodes at %s(%d) but %d at %s(%d) "
                         "(the DAG has only grown by the factor %.1f; callbacks are still invoked once per node: the work is INSIDE a callback or helper)"
                         % (opname, famname, a1, mode, n1, a2, mode, n2, float(n2) / n1),
                         "repro": "harness.c20.replay_one(%r, %r, %d, %r)" % (famname, mode, n2, opname),
                         "expected": "<= %d accesses" % allowed, "observed": a2}, key="inner-work:%s:%s" % (opname, famname))


def ladder_job(arg):
    """Cross-sharing ladders with constant / symbol leaves: every operation at two sizes, with
    the work inside the callbacks measured (runs in a worker process)."""
    names, tier = arg
    import warnings
    warnings.simplefilter("ignore")
    R = Runner(tier)
    lads = _ladders()
    ops = _ops()
    budget_end = time.time() + (60 if tier == "quick" else 600)
    sizes = (8, 16) if tier == "quick" else (8, 16, 20)
    for nm in names:
        if lads[nm]["blowup_key"]:
            R.blowup_keys[nm] = lads[nm]["blowup_key"]
        for n in sizes:
            measure_family(R, nm, lads[nm], "ladder", n, ops, False, budget_end)
        for a, b in zip(sizes, sizes[1:]):
            growth_check(R, nm, "ladder", a, b, [o[0] for o in ops])
    return {"rows": R.rows, "meta": R.meta, "disagree": R.meta_disagree, "skipped": R.skipped,
            "depth_hist": R.depth_hist, "counts": R.counts, "viol": R.viol}


TOWER_OPS = ("simplify", "substitute", "free_vars", "theory", "size_tree", "dagprint")


def tower_job(arg):
    """Alternating towers deeper than the recursion limit: construction (type check), the fast
    operations, and every constructor / accessor family applied on top."""
    names, tier = arg
    import warnings
    warnings.simplefilter("ignore")
    from pysmt.environment import Environment
    R = Runner(tier)
    tw = _towers()
    ops = _ops()
    budget_end = time.time() + (70 if tier == "quick" else 600)
    periods = 3000 if tier == "quick" else 10000
    for nm in names:
        fam = tw[nm]
        times = measure_family(R, nm, fam, "chain", 100, ops, False, budget_end, only_fast=True, fast_ops=set(TOWER_OPS), light=True)
        fast = set(k for k, v in times.items() if v < 0.03)
        measure_family(R, nm, fam, "chain", periods, ops, False, budget_end, only_fast=True, fast_ops=fast, light=True)
        if time.time() > budget_end:
            R.skip("time budget: tops of %s not run" % nm)
            continue
        env = Environment()
        try:
            x = build(env, fam, "chain", periods)
        except RecursionError:
            continue              # reported by the tapped construction above
        for tname, fn in tower_tops(env, x, fam["top_sort"]):
            R.counts.append(("top", tname, nm, periods))
            try:
                with _Alarm(60):
                    fn()
            except RecursionError:
                tb = sys.exc_info()[2]
                R.violation({"kind": "input", "what": "RecursionError under the default recursion limit when %s is applied on top of the alternating tower "
                             "x_(k+1) = %s(x_k), %d periods (%d levels)" % (tname, nm, periods, periods * fam["period"]),
                             "repro": "harness.c20.replay_one(%r, 'chain', %d, %r)" % (nm, periods, "top:" + tname),
                             "expected": "width / type accessors and constructors do not recurse over the nesting",
                             "innermost_frames": [f.name for f in traceback.extract_tb(tb)[-6:]]}, key="recursion:top:%s:%s" % (tname, nm))
            except WorkExceeded as ex:
                R.violation({"kind": "input", "what": "%s on top of the tower %s: %s" % (tname, nm, ex),
                             "repro": "harness.c20.replay_one(%r, 'chain', %d, %r)" % (nm, periods, "top:" + tname)}, key="work:top:%s:%s" % (tname, nm))
            except Exception as ex:        # noqa: ill-sorted top for this tower etc.
                R.skip("top %s on %s: %s" % (tname, fam["top_sort"], type(ex).__name__))
    return {"rows": R.rows, "meta": R.meta, "disagree": R.meta_disagree, "skipped": R.skipped,
            "depth_hist": R.depth_hist, "counts": R.counts, "viol": R.viol}


def family_job(arg):
    """Everything that is measured for one operator family (runs in a worker process)."""
    nm, tier, small_chain, small_shared = arg
    import warnings
    warnings.simplefilter("ignore")
    assert sys.getrecursionlimit() == 1000
    R = Runner(tier)
    fam = _families()[nm]
    ops = _ops()
    budget_end = time.time() + (75 if tier == "quick" else 700)
    # 1. model-sized cases (every operation, both shapes): exact order / iterations / stack / memo
    measure_family(R, nm, fam, "chain", small_chain, ops, True, budget_end)
    measure_family(R, nm, fam, "shared", small_shared, ops, True, budget_end)
    # 2. exponential tree size over n DAG nodes (16 first: detects work that follows the tree)
    measure_family(R, nm, fam, "shared", 16, ops, False, budget_end)
    growth_check(R, nm, "shared", small_shared, 16, [o[0] for o in ops])
    measure_family(R, nm, fam, "shared", 40 if tier == "quick" else 64, ops, False, budget_end)
    # 3. chains deeper than the recursion limit; deeper still for the operations that are fast
    times = measure_family(R, nm, fam, "chain", 1500, ops, False, budget_end)
    fast = set(k for k, v in times.items() if v < 0.12 and k not in QUADRATIC_TIME)
    measure_family(R, nm, fam, "chain", 20000, ops, False, budget_end, only_fast=True, fast_ops=fast)
    # 4. the family built with failing operations interleaved (every level, every 2nd, every 7th)
    for every in ((1, 7) if tier == "quick" and nm not in ("and", "plus", "bvadd", "ite_int", "store") else (1, 2, 7)):
        if time.time() > budget_end:
            R.skip("time budget: interleaved %s every %d not run" % (nm, every))
            continue
        interleaved_build(R, nm, fam, 1500 if tier == "quick" else 6000, every)
    if tier == "thorough" and nm in ("and", "not_and", "plus", "bvadd", "ite_int", "ite_bv_else", "store", "uf"):
        measure_family(R, nm, fam, "chain", 200000, ops, False, budget_end, only_fast=True,
                       fast_ops=fast & set(["free_vars", "qf", "types", "theory", "size_tree", "size_depth", "size_leaves", "atoms", "aig"]))
    return {"rows": R.rows, "meta": R.meta, "disagree": R.meta_disagree, "skipped": R.skipped,
            "depth_hist": R.depth_hist, "counts": R.counts, "viol": R.viol}


def run_corpus(chk):
    """Former finding, now a regression case: BV operators whose payload needs the width, built
    over an ITE chain (then-branch) deeper than the recursion limit (fnode.bv_width)."""
    from pysmt.environment import Environment
    env = Environment()
    m = env.formula_manager
    bv8 = env.type_manager.BVType(8)
    from pysmt.typing import BOOL
    x, b, c = m.Symbol("b0", bv8), m.Symbol("b", bv8), m.Symbol("c", BOOL)
    for _ in range(3000):
        x = m.Ite(c, x, b)
    for nm, fn in [("BVNeg", lambda: m.BVNeg(x)), ("BVNot", lambda: m.BVNot(x)), ("BVAdd", lambda: m.BVAdd(x, x)),
                   ("BVExtract", lambda: m.BVExtract(x, 0, 3)), ("BVZExt", lambda: m.BVZExt(x, 3)), ("bv_width", lambda: x.bv_width()),
                   ("simplify(BVNeg)", lambda: env.simplifier.simplify(m.BVNeg(x)))]:
        chk.count(("corpus", nm))
        try:
            fn()
        except RecursionError:
            chk.violation({"kind": "input", "what": "regression of a repaired defect: %s over an ITE chain of depth 3000 raises RecursionError" % nm,
                           "repro": "x=b0; for i in range(3000): x=Ite(c,x,b); %s(x)" % nm}, key="recursion:fnode.bv_width:ite-then-chain")


def run(tier, only=None):
    chk = lib.Check("C20", tier)
    rnd = random.Random(chk.seed)
    assert sys.getrecursionlimit() == 1000, "C20 must run under the default recursion limit"
    ok = chk.prove()
    run_corpus(chk)
    names = sorted(_families())
    if only:
        names = [x for x in names if x in only]
    small_chain = 24 + rnd.randrange(8)
    small_shared = 7 + rnd.randrange(4)
    from concurrent.futures import ProcessPoolExecutor
    R = Runner(tier)
    lnames = sorted(_ladders()) if not only else [x for x in sorted(_ladders()) if x in only]
    tnames = sorted(_towers()) if not only else [x for x in sorted(_towers()) if x in only]
    nw = lib.NPROC
    with ProcessPoolExecutor(max_workers=nw) as ex:
        futs = [ex.submit(family_job, (nm, tier, small_chain, small_shared)) for nm in names]
        futs += [ex.submit(ladder_job, (lnames[k::6], tier)) for k in range(6) if lnames[k::6]]
        futs += [ex.submit(tower_job, (tnames[k::24], tier)) for k in range(24) if tnames[k::24]]
        parts = [f.result() for f in futs]
    for part in parts:
        R.rows += part["rows"]
        R.meta += part["meta"]
        R.meta_disagree += part["disagree"]
        for k, v in part["skipped"].items():
            R.skipped[k] = R.skipped.get(k, 0) + v
        for k, v in part["depth_hist"].items():
            R.depth_hist[k] = R.depth_hist.get(k, 0) + v
        for c in part["counts"]:
            chk.count(c)
        for rep, key in part["viol"]:
            chk.violation(rep, key=key)
    ops = _ops()
    chk.note("implementation measured: %d (op, family, shape) runs, %d model-sized cases" % (chk.cov["evaluations"], len(R.rows)))

    # ---------------- correspondence with the model ------------------------------------------
    lib.clean_cases(chk.dir)
    files, per = [], 40
    for k in range(0, len(R.rows), per):
        p = os.path.join(chk.dir, "cases_%d.v" % (k // per))
        with open(p, "w") as f:
            f.write(walktap.case_file(R.rows[k:k + per]))
        files.append(p)
    corr_bad = list(R.meta_disagree)
    lib.coq_make(["models/DagWalkRun.vo"])   # not in the closure of the property file: build it here
    if os.path.exists(os.path.join(lib.COQ, "models", "DagWalkRun.vo")):
        res = lib.run_case_files(files)
        for i, p in enumerate(files):
            rc, out = res[p]
            mm = lib.parse_nat_list(out) if rc == 0 else None
            if mm is None:
                corr_bad.append({"file": p, "error": out[-400:]})
            else:
                for j in mm:
                    corr_bad.append(dict(R.meta[i * per + j], what="model and implementation differ in callback order / loop iterations / stack / memo domain"))
    else:
        corr_bad.append({"error": "models/DagWalkRun.v does not compile"})
    chk.cov["correspondence"] = {"model_cases": len(R.rows), "disagreements": len(corr_bad), "examples": corr_bad[:12],
                                 "compared": "callback invocation order, loop iterations, final stack, memoised keys; children<parent checked in Coq"}
    chk.cov["shapes"] = {"%s(%d)" % k: v for k, v in sorted(x for x in R.depth_hist.items() if len(x[0]) == 2)}
    deep = {}
    for k, v in R.depth_hist.items():
        if len(k) == 3 and k[1] >= 20000:
            deep.setdefault("%s(%d)" % (k[0], k[1]), {})[k[2]] = v
    chk.cov["operations_on_deep_chains"] = deep
    chk.cov["skipped"] = R.skipped
    chk.cov["operations"] = ["typecheck-at-construction", "parse-back"] + [o[0] for o in ops] + ["get_logic"]
    chk.cov["families"] = names
    chk.cov["interleaved"] = {"per_family": "built to depth %d with a failing operation every 1 / 2 / 7 levels and the persistent walkers (fvo, theoryo, qfo, typeso, sizeo, simplifier) "
                              "analysing the growing formula every 50 levels" % (1500 if tier == "quick" else 6000), "failing_kinds": list(FAIL_KINDS),
                              "asserted": "per created node: <= 1 type-checker callback and <= 2*(1+arity) iterations; memo tables never shrink across a failing operation; "
                                          "per persistent walker: total callbacks <= 2 * distinct nodes + slack"}
    chk.cov["ladders"] = {"names": lnames, "sizes": [8, 16] if tier == "quick" else [8, 16, 20],
                          "measured": "callbacks, loop iterations, result size, and structural accesses to FNodes (node_type/args/arg) with the growth test 3*(n2/n1)^2"}
    chk.cov["towers"] = {"count": len(tnames), "periods": 3000 if tier == "quick" else 10000, "operations": list(TOWER_OPS), "names": tnames}
    if R.meta:
        chk.sample(R.meta[0])
        chk.sample(R.meta[len(R.meta) // 2])
        chk.sample(R.meta[-1])
    if (not ok or corr_bad) and not chk.violations:
        what = []
        if not ok:
            what.append("proof obligations no longer check: " + lib.proof_failure_summary(chk))
        if corr_bad:
            what.append("correspondence model<->implementation differs: %s" % corr_bad[:4])
        chk.violation({"kind": "obligation", "theorem_or_correspondence": what}, found_input=False)
    return chk.finish(TRUSTED, ASSUMPTIONS,
                      "every operation x every operator family x {chain(depth), shared(n): tree size 2^n}; model-sized cases "
                      "(chain ~%d, shared ~%d) go through Coq; distinct = distinct (operation, family, shape, size)" % (small_chain, small_shared))


def replay_one(famname, mode, n, opname):
    """Replays one measurement and prints what was observed."""
    from pysmt.environment import Environment
    import warnings
    warnings.simplefilter("ignore")
    if " + a failing operation every " in famname:
        base, rest = famname.split(" + a failing operation every ")
        return replay_interleaved(base, n, int(rest.split(" ")[0]))
    fams = dict(_families())
    fams.update(_ladders())
    fams.update(_towers())
    env = Environment()
    R = Runner("quick")
    if opname.startswith("top:"):
        x = build(env, fams[famname], mode, n)
        for tname, fn in tower_tops(env, x, fams[famname]["top_sort"]):
            if tname == opname[4:]:
                try:
                    fn()
                    print("ok")
                    return 0
                except RecursionError:
                    print("RecursionError")
                    return 1
    if mode in ("shared", "ladder") and n > 8:
        R.build_tapped(Environment(), fams[famname], famname, mode, n // 2)
        e0 = Environment()
        g0 = R.build_tapped(e0, fams[famname], famname, mode, n // 2)
        for op in _ops():
            if op[0] == opname:
                R.run_op(e0, op, famname, mode, n // 2, g0)
    g = R.build_tapped(env, fams[famname], famname, mode, n)
    if g is not None:
        for op in _ops():
            if op[0] == opname or (opname == "parse" and op[0] == "dagprint"):
                r = R.run_op(env, op, famname, mode, n, g)
                if r:
                    print("calls=%d pops=%d keys=%d distinct=%d" % (r["calls"], r["pops"], r["keys"], distinct_subformulas(g)))
                if op[0] == "dagprint" and r and opname == "parse":
                    R.parse_back(env, famname, mode, n, g, r["result"])
    if mode in ("shared", "ladder") and n > 8:
        print("structural accesses:", dict((k[3], v) for k, v in R.acc.items() if k[0] == opname))
        growth_check(R, famname, mode, n // 2, n, [opname])
    for rep, key in R.viol:
        print("VIOLATION (replayed) key=%s: %s" % (key, rep.get("what")))
    print("violations: %d, disagreements with the theorem's count: %s" % (len(R.viol), R.meta_disagree))
    return 1 if R.viol else 0


def replay(path):
    r = json.load(open(path))
    print(json.dumps(r, indent=1))
    rep = r.get("repro", "")
    if rep.startswith("harness.c20.replay_one("):
        return eval(rep[len("harness.c20."):])
    return run("quick")
