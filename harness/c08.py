"""C08 - SMT-LIB import never misreads: accepted text means what the standard says."""
import ast
import bz2
import functools
import glob
import hashlib
import io
import json
import os
import random
import re
import sys
import warnings

from pysmt.environment import Environment
from pysmt.exceptions import (PysmtSyntaxError, PysmtTypeError, PysmtValueError, UnknownSmtLibCommandError)
from pysmt.fnode import FNode
from pysmt.logics import Logic
from pysmt.smtlib.parser import SmtLibParser
from pysmt.typing import PySMTType, _TypeDecl, PartialType

from . import c08_ref, gen_all, lib, tocoq
from . import refeval as R
from .gen import scripts as G

TRUSTED = [
    "Coq 8.16.1 kernel (coqc); no native_compute",
    "core/Sem.v (meaning of pySMT terms) and the local statement of the SMT-LIB reading of let / binders / define-fun in proofs/SmtParser_proofs.v (specification)",
    "hand models models/SmtLex.v (Tokenizer) and models/SmtParser.v (SmtLibParser, execution cache, command readers) on top of models/Ctors.v, TypeChecker.v, Substituter.v, gen/Logics.v, tied to pysmt/smtlib/parser/parser.py by this run's correspondence (exact command lists; exceptions by class)",
    "harness/c08_ref.py (independent SMT-LIB reader/evaluator written from the standard) + harness/refeval.py (values, operator semantics) as the property-level oracle; harness/tocoq.py",
]
ASSUME = [
    "ASCII input; non-interactive reader; the optimisation-extension commands and the annotation store are not modelled",
    "quantifiers over infinite sorts are compared on the same finite sample on both sides (refeval.Interp.sample_domain): a difference there is a real difference of reading, agreement is evidence only",
    "the deviation switches of c08_ref.py are used only to give an already-found difference a stable key",
]
RULE = ("generated scripts: random well-sorted scripts of gen/scripts.py (all constructs, colliding names), the directed shapes, "
        "malformed variants (truncation, token deletion/duplication/insertion, reserved tokens in bars, bad literals, wrong arities, "
        "undeclared names) and the fixed malformed list; distinct = distinct script texts")

OMT = ("assert-soft", "maximize", "minimize", "minmax", "maxmin", "check-allsat", "get-objectives", "load-objective-model")


# ----------------------------------------------------------------------------- implementation
def err_class(ex):
    if isinstance(ex, PysmtSyntaxError):
        return "ESyntax"
    if isinstance(ex, UnknownSmtLibCommandError):
        return "EUnknownCmd"
    if isinstance(ex, PysmtTypeError):
        return "EType"
    if isinstance(ex, PysmtValueError):
        return "EValue"
    if isinstance(ex, NotImplementedError):
        return "ENotImpl"
    return "EOther"


def run_impl(text):
    """('ok', script, env) or ('err', class, exception)."""
    env = Environment()
    parser = SmtLibParser(env)
    with warnings.catch_warnings():
        warnings.simplefilter("ignore")
        try:
            return ("ok", parser.get_script(io.StringIO(text)), env)
        except RecursionError:
            raise
        except Exception as ex:  # noqa
            return ("err", err_class(ex), ex)


# ----------------------------------------------------------------------------- Coq literals
def coq_chars(text):
    if all((32 <= ord(c) < 127) or c in "\n\t" for c in text):
        return "(list_ascii_of_string %s)" % lib.coq_string(text)
    return "(map ascii_of_nat [%s])" % "; ".join("%d%%nat" % min(ord(c), 255) for c in text)


def is_ascii(text):
    return all(ord(c) < 128 for c in text)


def carg(a, names):
    if isinstance(a, FNode):
        return "(ATerm %s)" % names[a]
    if isinstance(a, bool):
        return "ACallable"
    if isinstance(a, str):
        return "(AStr %s)" % lib.coq_string(a) if all(32 <= ord(c) < 127 or c in "\n\t" for c in a) else \
            "(AStr (string_of_list_ascii (map ascii_of_nat [%s])))" % "; ".join("%d%%nat" % min(ord(c), 255) for c in a)
    if isinstance(a, int):
        return "(AInt %s)" % tocoq.z(a)
    if isinstance(a, PySMTType):
        return "(AType %s)" % tocoq.ty(a)
    if isinstance(a, _TypeDecl):
        return "(ADecl %s %s)" % (lib.coq_string(a.name), tocoq.z(a.arity))
    if isinstance(a, PartialType):
        return "APartial"
    if isinstance(a, Logic):
        return "(ALogic (Some %s))" % lib.coq_string(a.name)
    if a is None:
        return "ANone"
    if isinstance(a, (list, tuple)):
        return "(AList [%s])" % "; ".join(carg(x, names) for x in a)
    if type(a).__name__ == "dict_keys":
        return "(AList [%s])" % "; ".join(carg(x, names) for x in a)
    return "ACallable"


def fnodes_of(a, acc):
    if isinstance(a, FNode):
        acc.append(a)
    elif isinstance(a, (list, tuple)):
        for x in a:
            fnodes_of(x, acc)


def expected_literal(res):
    """(roots, body_fn) for the expected `er (list cmd)`."""
    if res[0] == "err":
        return [], (lambda names, c=res[1]: "(Er %s)" % c)
    cmds = list(res[1].commands)
    roots = []
    for c in cmds:
        fnodes_of(c.args, roots)

    def body(names):
        return "(Ok [%s])" % "; ".join("mkC %s [%s]" % (lib.coq_string(c.name), "; ".join(carg(a, names) for a in c.args)) for c in cmds)
    return roots, body


PRE = ("From Coq Require Import List ZArith Bool String Ascii.\n"
       "From PySMT.core Require Import CaseUtil Syntax.\n"
       "From PySMT.models Require Import SmtLex SmtParser.\n"
       "Import ListNotations.\nOpen Scope bool_scope.\nOpen Scope string_scope.\n")


def write_cases(dirpath, tag, cases, shard):
    """cases: list of (text, impl result).  Returns list of (path, first, count)."""
    files = []
    # shards of at most `shard` cases and ~60 kB of script text (a multi-MB literal overflows coqc's stack)
    bounds, start, size = [], 0, 0
    for i, (text, _) in enumerate(cases):
        if i > start and (i - start >= shard or size + len(text) > 60000):
            bounds.append((start, i))
            start, size = i, 0
        size += len(text)
    if start < len(cases):
        bounds.append((start, len(cases)))
    for k, k_end in bounds:
        rows = []
        for text, res in cases[k:k_end]:
            roots, body = expected_literal(res)
            rows.append(tocoq.with_terms(roots, lambda names, t=text, b=body: "(%s, %s)" % (coq_chars(t), b(names))))
        src = PRE + "Definition cases : list (list ascii * er (list cmd)) := [\n%s\n].\n" % ";\n".join(rows)
        src += ("Definition results := map (fun c => (parse_chars (fst c), snd c)) cases.\n"
                "Eval vm_compute in (mismatches (fun c => result_eqb (fst c) (snd c)) results,\n"
                "                    mismatches (fun c => accept_eqb (fst c) (snd c)) results,\n"
                "                    mismatches (fun c => negb (is_unmodelled (fst c))) results).\n")
        p = os.path.join(dirpath, "cases_%s_%d.v" % (tag, len(files)))
        with open(p, "w") as f:
            f.write(src)
        files.append((p, k, len(rows)))
    return files


def parse_three(out):
    m = re.search(r"=\s*\(\s*\[([^\]]*)\]\s*,\s*\[([^\]]*)\]\s*,\s*\[([^\]]*)\]\s*\)", out.replace("\n", " "))
    if not m:
        return None
    return [[int(x.strip().replace("%nat", "")) for x in g.split(";") if x.strip()] for g in m.groups()]


def run_cases(files):
    res = lib.run_case_files([p for p, _, _ in files])
    cls, acc, unm, errs = [], [], [], []
    for p, first, n in files:
        rc, out = res[p]
        three = parse_three(out) if rc == 0 else None
        if three is None:
            errs.append({"file": p, "error": out[-800:]})
            continue
        cls += [first + i for i in three[0]]
        acc += [first + i for i in three[1]]
        unm += [first + i for i in three[2]]
    return cls, acc, unm, errs


# ----------------------------------------------------------------------------- the interpreted table
def impl_table():
    p = SmtLibParser(Environment())
    mgr = p.env.formula_manager
    out = []
    for tok, h in p.interpreted.items():
        f = h
        if getattr(h, "__closure__", None) and h.__name__ == "res":
            f = h.__closure__[0].cell_contents
        if isinstance(f, functools.partial):
            desc = "%s:%s" % (f.func.__name__, f.args[0].__name__)
        elif getattr(f, "__self__", None) is mgr:
            desc = "mgr:" + f.__name__
        elif getattr(f, "__self__", None) is p:
            desc = "self:" + f.__name__
        else:
            desc = "?:" + getattr(f, "__name__", repr(f))
        out.append((tok, desc))
    return out, sorted(p.commands.keys())


# ----------------------------------------------------------------------------- property-level oracle
NINTERP = 5


def interps(seed):
    return [R.Interp(seed=(seed, k), div0="raise", int_range=(-4, 4), default_usize=2) for k in range(NINTERP)]


def impl_items(script):
    """[(cmd_index, kind, arg_index, fnode, formal parameters)] of the terms pySMT returned."""
    out = []
    for i, c in enumerate(script.commands):
        if c.name == "assert":
            out.append((i, "assert", 0, c.args[0], []))
        elif c.name == "define-fun":
            out.append((i, "define-fun", 3, c.args[3], list(c.args[1])))
        elif c.name in ("get-value", "check-sat-assuming"):
            for k, a in enumerate(c.args):
                out.append((i, c.name, k, a, []))
    return out


def compare_reading(text, script, flags, seed):
    """None if the reference reading of the text (with the given deviation switches) agrees with the
    FNodes pySMT returned, else a description of the first difference.  Raises c08_ref.Unsupported."""
    try:
        rd = c08_ref.Reader(text, flags)
    except c08_ref.Reject as ex:
        return {"what": "the standard rejects the text (%s) but pySMT accepted it" % ex, "reject": ex.why}
    its = impl_items(script)
    if len(its) != len(rd.items):
        return {"what": "number of terms differs: reference %d, pySMT %d" % (len(rd.items), len(its))}
    # declared symbols and their sorts
    decl = [(i, c.args[0]) for i, c in enumerate(script.commands) if c.name in ("declare-fun", "declare-const")]
    for (i, nm, ty), (j, sym) in zip(rd.decls, decl):
        if i != j or not isinstance(sym, FNode) or sym.symbol_name() != nm or sym.symbol_type() != ty:
            return {"what": "declaration %d: reference %s : %s, pySMT %s" % (i, nm, ty, sym)}
    evaluated = 0
    for I in interps(seed):
        cache = R.EvalCache()
        for item, (ci, kind, ai, f, formal) in zip(rd.items, its):
            if (item.cmd_index, item.kind, item.arg_index) != (ci, kind, ai):
                return {"what": "term positions differ"}
            if not isinstance(f, FNode):
                return {"what": "pySMT returned a non-term (%r) for %s #%d" % (f, kind, ci), "nonterm": True}
            try:
                pv = [I.value((p.symbol_name(), p.symbol_type())) for p in formal]
                if len(pv) != len(item.params) or any(p.symbol_type() != t for p, (_, t) in zip(formal, item.params)):
                    return {"what": "define-fun parameters differ in command %d" % ci}
                want = rd.value(item, I, pv)
            except c08_ref.Reject as ex:
                return {"what": "the standard rejects term %d of command %d (%s) but pySMT accepted it" % (ai, ci, ex), "reject": ex.why}
            except (R.DivisionByZeroEvaluated, R.Unsupported, RecursionError):
                continue
            try:
                got, _exact = R.evaluate_ex(f, I, cache)
            except (R.DivisionByZeroEvaluated, R.Unsupported, RecursionError):
                continue
            except R.IllTyped as ex:
                return {"what": "pySMT returned an ill-typed term: %s" % ex}
            evaluated += 1
            if not c08_ref.values_equal(want, got):
                return {"what": "command %d (%s) argument %d: the text denotes %r, the returned formula %s denotes %r"
                                % (ci, kind, ai, want, f.serialize()[:200], got),
                        "interpretation": I.describe()}
    return None if evaluated or not its else {"what": "nothing evaluated", "skip": True}


def explain_one(text, script, seed, flag):
    try:
        return compare_reading(text, script, (flag,), seed) is None
    except _Timeout:
        raise
    except Exception:  # noqa
        return False


def explain(text, script, seed):
    """The smallest set of known deviations of pySMT that makes the reference reading agree; the
    pseudo-deviation "non-term-returned" is added when what remains is a non-term argument."""
    flags = c08_ref.FLAGS[1:]
    sets = [(f,) for f in flags] + [(a, b) for i, a in enumerate(flags) for b in flags[i + 1:]]
    nonterm = None
    for fl in sets:
        try:
            d = compare_reading(text, script, fl, seed)
        except _Timeout:
            raise
        except Exception:  # noqa
            continue
        if d is None:
            return list(fl)
        if d.get("nonterm") and nonterm is None:
            nonterm = list(fl) + ["non-term-returned"]
    return nonterm


class _Timeout(Exception):
    pass


def _alarm(*a):
    raise _Timeout()


def oracle(chk, text, res, tag, stats):
    """Per-script time budget: quantifier enumeration on a large benchmark can take very long."""
    import signal
    signal.signal(signal.SIGALRM, _alarm)
    signal.setitimer(signal.ITIMER_REAL, 4.0)
    try:
        _oracle(chk, text, res, tag, stats)
    except _Timeout:
        stats["timeout"] = stats.get("timeout", 0) + 1
    finally:
        signal.setitimer(signal.ITIMER_REAL, 0)


def _oracle(chk, text, res, tag, stats):
    if res[0] != "ok":
        return
    try:
        diff = compare_reading(text, res[1], (), chk.seed)
    except c08_ref.Unsupported:
        stats["ref_unsupported"] += 1
        return
    except RecursionError:
        stats["ref_unsupported"] += 1
        return
    if diff is None:
        stats["agree"] += 1
        return
    if diff.get("skip"):
        stats["not_evaluated"] += 1
        return
    if diff.get("reject") and diff["reject"] != "undeclared":
        # accepted text outside the standard that is not a mis-reading of an identifier: pySMT's
        # lenient extensions (unary and/or, <->, 1e3, (_ to_bv ..) ...); enumerated in the evidence
        ext = stats.setdefault("accepted_outside_standard", {})
        ext[diff["reject"]] = ext.get(diff["reject"], 0) + 1
        ex = stats.setdefault("accepted_outside_standard_examples", [])
        if len(ex) < 25:
            ex.append(text[:160])
        return
    if diff.get("reject") == "undeclared" and explain_one(text, res[1], chk.seed, "let-extension-issue159"):
        ext = stats.setdefault("accepted_outside_standard", {})
        ext["let-extension-issue159"] = ext.get("let-extension-issue159", 0) + 1
        return
    if diff.get("nonterm"):
        why, key = ["non-term-returned"], "accepted:non-term-returned"
    else:
        why = explain(text, res[1], chk.seed)
        if why and why[-1] == "non-term-returned":
            key = "accepted:non-term-returned"
        else:
            key = "misread:" + "+".join(why) if why else "misread-unexplained:" + hashlib.md5(text.encode()).hexdigest()[:12]
    stats["differences"] += 1
    stats.setdefault("by_key", {}).setdefault(key, 0)
    stats["by_key"][key] += 1
    chk.violation({"kind": "input", "what": diff["what"], "repro": text, "shape": tag,
                   "explained_by_known_deviation": why, "interpretation": diff.get("interpretation"),
                   "oracle": "harness/c08_ref.py (independent SMT-LIB reader) vs harness/refeval.py on the FNodes returned by SmtLibParser.get_script",
                   "replay": "./check C08 --replay <this file>"}, key=key)


# ----------------------------------------------------------------------------- regression corpus
BASELINE = os.path.join(lib.VERIF, "harness", "corpus", "c08_accept.json")


def corpus_items():
    """(id, text) of every SMT-LIB text of the test-suite and the examples."""
    out = []
    for f in sorted(glob.glob(os.path.join(lib.REPO, "pysmt", "test", "smtlib", "**", "*.smt2*"), recursive=True)):
        try:
            txt = bz2.open(f, "rt").read() if f.endswith(".bz2") else open(f).read()
        except Exception:  # noqa
            continue
        out.append(("file:" + os.path.relpath(f, lib.REPO), txt))
    pys = glob.glob(os.path.join(lib.REPO, "pysmt", "test", "**", "*.py"), recursive=True) + glob.glob(os.path.join(lib.REPO, "examples", "*.py"))
    seen = set()
    for f in sorted(pys):
        try:
            tree = ast.parse(open(f).read())
        except Exception:  # noqa
            continue
        for node in ast.walk(tree):
            if isinstance(node, ast.Constant) and isinstance(node.value, str):
                s = node.value
                if "(" in s and re.search(r"\((assert|declare-fun|declare-const|define-fun|set-logic|check-sat|declare-sort|push|get-value)\b", s):
                    h = hashlib.md5(s.encode()).hexdigest()[:16]
                    if h not in seen:
                        seen.add(h)
                        out.append(("str:%s:%s" % (os.path.relpath(f, lib.REPO), h), s))
    return out


def run_corpus(chk, tier):
    items = corpus_items()
    try:
        base = json.load(open(BASELINE))
    except OSError:
        base = None
    accepted, small = {}, []
    for cid, txt in items:
        res = run_impl(txt)
        accepted[cid] = res[0] == "ok"
        limit = 6000 if tier == "quick" else 20000      # larger literals overflow coqc's stack
        if len(txt) <= limit and is_ascii(txt) and not any("(" + c in txt for c in OMT):
            small.append((cid, txt, res))
    if base is None:
        lib.mkdir(os.path.dirname(BASELINE))
        with open(BASELINE, "w") as f:
            json.dump({k: v for k, v in sorted(accepted.items())}, f, indent=0)
        base = accepted
    lost = [cid for cid, ok in base.items() if ok and cid in accepted and not accepted[cid]]
    for cid in lost[:5]:
        txt = dict(items)[cid]
        chk.violation({"kind": "input", "what": "a text the test-suite parses is no longer accepted", "corpus_id": cid,
                       "repro": txt[:4000], "error": repr(run_impl(txt)[2])[:300]}, key="regression:" + cid)
    chk.cov["regression_corpus"] = {"texts": len(items), "accepted_in_baseline": sum(1 for v in base.values() if v),
                                    "accepted_now": sum(1 for v in accepted.values() if v), "no_longer_accepted": len(lost)}
    return small


# ----------------------------------------------------------------------------- main
def generate(rnd, tier):
    """[(tag, text)]"""
    n = 260 if tier == "quick" else 3000
    out = []
    for rep in range(3 if tier == "quick" else 25):
        for tag, t in G.directed(rnd):
            out.append(("directed:" + tag, t))
    # stateful sequences over a tiny name pool (per-name binding stacks, push/pop, define after declare)
    for rep in range(3 if tier == "quick" else 25):
        for tag, t in G.stateful_directed(rnd):
            out.append(("stateful:" + tag, t))
    sg = G.StatefulGen(rnd)
    for _ in range(150 if tier == "quick" else 2500):
        out.append(("stateful-random", sg.script()))
    # scope stacks of ONE name: nested binders, the same value at non-adjacent depths (A-B-A ...)
    for rep in range(3 if tier == "quick" else 25):
        for tag, t in G.scope_directed(rnd):
            out.append(("scope:" + tag, t))
    ss = G.ScopeStackGen(rnd)
    for _ in range(120 if tier == "quick" else 2500):
        out.append(("scope-random", ss.script()))
    g = G.ScriptGen(rnd)
    good = []
    for i in range(n):
        if i % 7 == 3:
            g = G.ScriptGen(rnd, strings=rnd.random() < 0.5, quantifiers=rnd.random() < 0.8, quoted=rnd.random() < 0.5)
        t = g.script()
        good.append(t)
        out.append(("random", t))
    for t in good[: (120 if tier == "quick" else 1200)]:
        for m in G.malformed(rnd, t):
            out.append(("malformed", m))
    for t in G.FIXED_MALFORMED:
        out.append(("malformed-fixed", t))
    for a in G.BAD_ATOMS:
        out.append(("malformed-atom", "(assert %s)" % a))
        out.append(("malformed-atom", "(declare-fun %s () Int)(assert (= %s %s))" % (a, a, a)))
    seen, uniq = set(), []
    for tag, t in out:
        if t not in seen and is_ascii(t):
            seen.add(t)
            uniq.append((tag, t))
    return uniq


def run(tier, only_texts=None):
    chk = lib.Check("C08", tier)
    rnd = random.Random(chk.seed)
    sys.setrecursionlimit(20000)
    gen_all.regen_all()
    ok = chk.prove()
    lib.clean_cases(chk.dir)
    stats = {"agree": 0, "differences": 0, "ref_unsupported": 0, "not_evaluated": 0}

    # ---- the interpreted table and the command table
    table, commands = impl_table()
    tab_src = PRE + ("Definition impl_table : list (string * string) := [%s].\n" % "; ".join("(%s, %s)" % (lib.coq_string(a), lib.coq_string(b)) for a, b in table)
                     + "Definition pair_eqb (a b : string * string) := String.eqb (fst a) (fst b) && String.eqb (snd a) (snd b).\n"
                     + "Eval vm_compute in (if list_eqb pair_eqb impl_table table_desc then @nil nat else [1%nat]).\n")
    tab_file = os.path.join(chk.dir, "cases_table.v")
    with open(tab_file, "w") as f:
        f.write(tab_src)

    # ---- generated scripts
    texts = only_texts if only_texts is not None else generate(rnd, tier)
    cases, metas = [], []
    hist = {}
    for tag, t in texts:
        res = run_impl(t)
        cases.append((t, res))
        metas.append(tag)
        k = tag.split(":")[0] + ("/accepted" if res[0] == "ok" else "/" + res[1])
        hist[k] = hist.get(k, 0) + 1
        chk.count(("c08", t), nontrivial=len(t) > 2)
        oracle(chk, t, res, tag, stats)
    if only_texts is None:
        from . import layout
        layout.run_text_sweep(chk, tier, stats)
    small = run_corpus(chk, tier) if only_texts is None else []
    ncorp = 0
    for cid, txt, res in small:
        cases.append((txt, res))
        metas.append("corpus:" + cid)
        ncorp += 1
        chk.count(("c08", cid))
        oracle(chk, txt, res, "corpus", stats)
    files = write_cases(chk.dir, "c08", cases, shard=40)
    cls, acc, unm, errs = run_cases(files)
    rc_t, out_t = lib.coqc_file(tab_file)
    table_ok = rc_t == 0 and lib.parse_nat_list(out_t) == []
    unm_set = set(unm)
    acc_bad = [i for i in acc if i not in unm_set]
    cls_bad = [i for i in cls if i not in unm_set and i not in acc]
    chk.cov["correspondence"] = {"cases": len(cases), "corpus_cases_in_model": ncorp, "histogram": hist,
                                 "accept_or_result_disagreements": len(acc_bad), "error_class_disagreements": len(cls_bad),
                                 "outside_model": len(unm), "case_file_errors": len(errs), "interpreted_table_equal": table_ok,
                                 "commands_in_table": commands,
                                 "examples": [{"shape": metas[i], "text": cases[i][0][:300], "impl": cases[i][1][0] if cases[i][1][0] == "ok" else cases[i][1][1]} for i in (acc_bad + cls_bad)[:6]]}
    chk.cov["oracle"] = stats
    for tag, t in texts[:3]:
        chk.sample({"shape": tag, "text": t[:300]})
    for e in errs[:2]:
        chk.note("case file error: " + e["error"][-500:])
    for i in (acc_bad + cls_bad)[:6]:
        chk.note("model/implementation disagree (%s) on [%s]: %r -> impl %s" % ("result" if i in acc_bad else "error class", metas[i], cases[i][0][:160],
                                                                             cases[i][1][0] if cases[i][1][0] == "ok" else cases[i][1][1]))
    broken = (not ok) or acc_bad or cls_bad or errs or not table_ok
    if broken and not chk.violations:
        what = []
        if not ok:
            what.append("proof obligations no longer check: " + lib.proof_failure_summary(chk))
        if not table_ok:
            what.append("the parser's `interpreted` table differs from models/SmtParser.v interpreted_table")
        if acc_bad or cls_bad or errs:
            what.append("correspondence models/SmtParser.v <-> SmtLibParser.get_script differs on %d cases, e.g. %s"
                        % (len(acc_bad) + len(cls_bad) + len(errs), [cases[i][0][:200] for i in (acc_bad + cls_bad)[:2]]))
        chk.violation({"kind": "obligation", "theorem_or_correspondence": what}, found_input=False)
    return chk.finish(TRUSTED, ASSUME, RULE)


def replay(path):
    d = json.load(open(path))
    print(json.dumps({k: d[k] for k in d if k != "interpretation"}, indent=1)[:3000])
    if "repro" in d:
        return run("quick", only_texts=[(d.get("shape", "replay"), d["repro"])])
    return run("quick")
