"""C03, parser part: small SMT-LIB scripts in which a DECLARED sort meets a term of a DERIVED sort, for every ordered
pair of sorts, through every binding construct of the parser (define-fun with parameters / constant / over a declared
symbol, application of a declared function, application of a defined function, let, quantifier binders), with ground
and non-ground terms - and a strict sort checker of our own that says whether the script is well-sorted.

The checker is strict SMT-LIB (numerals are Int, decimals are Real, no implicit conversion) with the ONE leniency pySMT
documents: a ground Int term is read as a Real (a) as the body of a define-fun declared Real, (b) as an operand of
= < <= > >= + - * / ite distinct when the operator does not type-check otherwise.
Scripts are built as trees and rendered to text; nothing of pysmt is used to decide the verdict.
"""
import itertools

BASE_SORTS = ("Bool", "Int", "Real", "BV8", "BV9", "String", "AII", "AIR")
# NAME-COLLISION sorts: an instance of a user parametric sort and 0-ary user sorts whose NAMES are spelled like the
# rendering of another sort.  The checker never looks at names: a sort is the key it is registered under.
COLLIDE = ("PairII", "NPair", "NArr", "NBV")
SORTS = BASE_SORTS + COLLIDE
PREAMBLE = "(declare-sort Pair 2)\n(declare-sort |Pair{Int, Int}| 0)\n(declare-sort |Array{Int, Int}| 0)\n(declare-sort |BV{8}| 0)\n"
TEXT = {"Bool": "Bool", "Int": "Int", "Real": "Real", "BV8": "(_ BitVec 8)", "BV9": "(_ BitVec 9)", "String": "String",
        "AII": "(Array Int Int)", "AIR": "(Array Int Real)",
        "PairII": "(Pair Int Int)", "NPair": "|Pair{Int, Int}|", "NArr": "|Array{Int, Int}|", "NBV": "|BV{8}|"}
# structural descriptors (the shape of harness/tocoq.tkey) of the pysmt types the sorts must be read as
KEY = {"Bool": ("Bool",), "Int": ("Int",), "Real": ("Real",), "BV8": ("BV", 8), "BV9": ("BV", 9), "String": ("String",),
       "AII": ("Array", ("Int",), ("Int",)), "AIR": ("Array", ("Int",), ("Real",)),
       "PairII": ("User", "Pair", (("Int",), ("Int",))), "NPair": ("User", "Pair{Int, Int}", ()),
       "NArr": ("User", "Array{Int, Int}", ()), "NBV": ("User", "BV{8}", ())}
PYSMT = {"Bool": "Bool", "Int": "Int", "Real": "Real", "BV8": "BV{8}", "BV9": "BV{9}", "String": "String",
         "AII": "Array{Int, Int}", "AIR": "Array{Int, Real}"}
ARR = {"AII": ("Int", "Int"), "AIR": ("Int", "Real")}
LENIENT = ("=", "<", "<=", ">", ">=", "+", "-", "*", "/", "ite", "distinct")


# ------------------------------------------------------------------ terms
def lit(sort, text):
    return ("lit", sort, text)


def var(name):
    return ("var", name)


def app(opname, *args):
    return ("app", opname, list(args))


def call(fname, *args):
    return ("call", fname, list(args))


def let(bindings, body):
    return ("let", list(bindings), body)


def quant(q, binders, body):
    return ("q", q, list(binders), body)


def constarr(sort, value):
    return ("constarr", sort, value)


def render(t):
    k = t[0]
    if k == "lit":
        return t[2]
    if k == "var":
        return t[1]
    if k == "app":
        return "(%s %s)" % (t[1], " ".join(render(a) for a in t[2]))
    if k == "call":
        return "(%s %s)" % (t[1], " ".join(render(a) for a in t[2])) if t[2] else t[1]
    if k == "let":
        return "(let (%s) %s)" % (" ".join("(%s %s)" % (n, render(v)) for n, v in t[1]), render(t[2]))
    if k == "q":
        return "(%s (%s) %s)" % (t[1], " ".join("(%s %s)" % (n, TEXT[s]) for n, s in t[2]), render(t[3]))
    if k == "constarr":
        return "((as const %s) %s)" % (TEXT[t[1]], render(t[2]))
    raise ValueError(k)


def render_cmd(c):
    if c[0] == "declare-fun":
        return "(declare-fun %s (%s) %s)" % (c[1], " ".join(TEXT[s] for s in c[2]), TEXT[c[3]])
    if c[0] == "define-fun":
        return "(define-fun %s (%s) %s %s)" % (c[1], " ".join("(%s %s)" % (n, TEXT[s]) for n, s in c[2]), TEXT[c[3]], render(c[4]))
    if c[0] == "assert":
        return "(assert %s)" % render(c[1])
    raise ValueError(c[0])


def render_script(cmds):
    text = "\n".join(render_cmd(c) for c in cmds) + "\n"
    return (PREAMBLE if any(TEXT[c] in text for c in COLLIDE) else "") + text


# ------------------------------------------------------------------ strict sort checker
class Ill(Exception):
    pass


class Ctx(object):
    def __init__(self):
        self.maybe = False      # a ground Int actual met a Real formal of a defined function: rejection and promotion both acceptable


def _rule(opname, sorts):
    n = len(sorts)

    def need(c, why):
        if not c:
            raise Ill("%s applied to %s: %s" % (opname, sorts, why))
    if opname in ("=", "distinct"):
        need(n >= 2 and len(set(sorts)) == 1, "operands of one sort expected")
        return "Bool"
    if opname in ("<", "<=", ">", ">="):
        need(n == 2 and sorts[0] == sorts[1] and sorts[0] in ("Int", "Real"), "two Int or two Real expected")
        return "Bool"
    if opname in ("+", "-", "*"):
        need(n >= 2 and len(set(sorts)) == 1 and sorts[0] in ("Int", "Real"), "all Int or all Real expected")
        return sorts[0]
    if opname == "/":
        need(n == 2 and sorts == ["Real", "Real"], "two Real expected")
        return "Real"
    if opname == "not":
        need(sorts == ["Bool"], "Bool expected")
        return "Bool"
    if opname in ("and", "or"):
        need(n >= 2 and set(sorts) == {"Bool"}, "Bool expected")
        return "Bool"
    if opname == "ite":
        need(n == 3 and sorts[0] == "Bool" and sorts[1] == sorts[2], "(Bool s s) expected")
        return sorts[1]
    if opname in ("bvadd", "bvand"):
        need(n == 2 and sorts[0] == sorts[1] and sorts[0] in ("BV8", "BV9"), "two bit-vectors of one width expected")
        return sorts[0]
    if opname == "bvult":
        need(n == 2 and sorts[0] == sorts[1] and sorts[0] in ("BV8", "BV9"), "two bit-vectors of one width expected")
        return "Bool"
    if opname == "str.++":
        need(n >= 2 and set(sorts) == {"String"}, "Strings expected")
        return "String"
    if opname == "str.len":
        need(sorts == ["String"], "String expected")
        return "Int"
    if opname == "select":
        need(n == 2 and sorts[0] in ARR and sorts[1] == ARR[sorts[0]][0], "(Array i e) i expected")
        return ARR[sorts[0]][1]
    if opname == "store":
        need(n == 3 and sorts[0] in ARR and sorts[1] == ARR[sorts[0]][0] and sorts[2] == ARR[sorts[0]][1], "(Array i e) i e expected")
        return sorts[0]
    raise Ill("unknown operator %s" % opname)


def sort_of(t, scope, funs, ctx):
    """(sort, ground) of term t.  scope: name -> (sort, ground);  funs: name -> (params [(name, sort)], ret, kind, body, scope at definition).
    ground = the term has no free symbol once defined functions are expanded (what the leniency looks at)."""
    k = t[0]
    if k == "lit":
        return t[1], True
    if k == "var":
        if t[1] in scope:
            return scope[t[1]]
        if t[1] in funs and not funs[t[1]][0]:
            return sort_of(("call", t[1], []), scope, funs, ctx)
        raise Ill("unknown symbol %s" % t[1])
    if k == "app":
        res = [sort_of(a, scope, funs, ctx) for a in t[2]]
        sorts = [s for s, _ in res]
        ground = all(g for _, g in res)
        try:
            return _rule(t[1], sorts), ground
        except Ill:
            if t[1] not in LENIENT:
                raise
            fixed = ["Real" if (s == "Int" and g) else s for s, g in res]
            if fixed == sorts:
                raise
            return _rule(t[1], fixed), ground
    if k == "call":
        if t[1] not in funs:
            raise Ill("unknown function %s" % t[1])
        params, ret, kind, body, defscope = funs[t[1]]
        res = [sort_of(a, scope, funs, ctx) for a in t[2]]
        if len(res) != len(params):
            raise Ill("%s expects %d arguments" % (t[1], len(params)))
        for (s, g), (_, p) in zip(res, params):
            if s != p:
                if kind == "defined" and s == "Int" and g and p == "Real":
                    ctx.maybe = True
                    continue
                raise Ill("%s applied to an argument of sort %s where %s is declared" % (t[1], s, p))
        if kind != "defined":
            return ret, False
        inner = dict(defscope)
        inner.update((n, (p, g)) for (n, p), (_, g) in zip(params, res))
        return ret, sort_of(body, inner, funs, Ctx())[1]
    if k == "let":
        vals = [(n, sort_of(v, scope, funs, ctx)) for n, v in t[1]]
        inner = dict(scope)
        inner.update(vals)
        return sort_of(t[2], inner, funs, ctx)
    if k == "q":
        inner = dict(scope)
        inner.update((n, (s, False)) for n, s in t[2])
        s, _ = sort_of(t[3], inner, funs, ctx)
        if s != "Bool":
            raise Ill("quantifier body of sort %s" % s)
        inner.update((n, (s, True)) for n, s in t[2])      # bound variables are not free
        return "Bool", sort_of(t[3], inner, funs, Ctx())[1]
    if k == "constarr":
        s, g = sort_of(t[2], scope, funs, ctx)
        if s != ARR[t[1]][1]:
            raise Ill("constant array of %s with a value of sort %s" % (t[1], s))
        return t[1], g
    raise ValueError(k)


def reference(cmds):
    """("ok" | "ill" | "either", reason)."""
    scope, funs, ctx = {}, {}, Ctx()
    try:
        for c in cmds:
            if c[0] == "declare-fun":
                if c[2]:
                    funs[c[1]] = ([("_", x) for x in c[2]], c[3], "declared", None, None)
                else:
                    scope[c[1]] = (c[3], False)
            elif c[0] == "define-fun":
                local = dict(scope)
                local.update((n, (s, False)) for n, s in c[2])
                bs, bg = sort_of(c[4], local, funs, ctx)
                if bs != c[3] and not (bs == "Int" and c[3] == "Real" and bg):
                    raise Ill("define-fun %s declared %s but its body has sort %s%s" % (c[1], c[3], bs, "" if bg else " (not ground)"))
                funs[c[1]] = (list(c[2]), c[3], "defined", c[4], dict(scope))
                scope.pop(c[1], None)
            elif c[0] == "assert":
                s, _ = sort_of(c[1], scope, funs, ctx)
                if s != "Bool":
                    raise Ill("assertion of sort %s" % s)
    except Ill as ex:
        return "ill", str(ex)
    return ("either", "a ground Int actual for a Real formal of a defined function") if ctx.maybe else ("ok", "")


# ------------------------------------------------------------------ term templates per sort
def ground_terms(s):
    """[(tag, term)]: a literal and a compound ground term of sort s (none for a user sort)."""
    if s in COLLIDE:
        return []
    return {
        "Bool": [("lit", lit("Bool", "true")), ("cmp", app("not", lit("Bool", "false")))],
        "Int": [("lit", lit("Int", "3")), ("cmp", app("+", lit("Int", "1"), lit("Int", "2")))],
        "Real": [("lit", lit("Real", "2.5")), ("cmp", app("+", lit("Real", "1.5"), lit("Real", "2.5")))],
        "BV8": [("lit", lit("BV8", "#x0f")), ("cmp", app("bvadd", lit("BV8", "#x01"), lit("BV8", "#b00000010")))],
        "BV9": [("lit", lit("BV9", "(_ bv3 9)")), ("cmp", app("bvadd", lit("BV9", "(_ bv1 9)"), lit("BV9", "#b000000010")))],
        "String": [("lit", lit("String", '"ab"')), ("cmp", app("str.++", lit("String", '"a"'), lit("String", '"b"')))],
        "AII": [("lit", constarr("AII", lit("Int", "0"))), ("cmp", app("store", constarr("AII", lit("Int", "0")), lit("Int", "1"), lit("Int", "2")))],
        "AIR": [("lit", constarr("AIR", lit("Real", "0.5"))), ("cmp", app("store", constarr("AIR", lit("Real", "0.5")), lit("Int", "1"), lit("Real", "2.5")))],
    }[s]


def over(s, x):
    """[(tag, term)]: terms of sort s that mention the symbol x of sort s."""
    if s in COLLIDE:
        return [("id", var(x)), ("cmp", app("ite", lit("Bool", "true"), var(x), var(x)))]
    return [("id", var(x)), ("cmp", {
        "Bool": app("not", var(x)),
        "Int": app("+", var(x), lit("Int", "1")),
        "Real": app("+", var(x), lit("Real", "1.5")),
        "BV8": app("bvadd", var(x), lit("BV8", "#x01")),
        "BV9": app("bvadd", var(x), lit("BV9", "(_ bv1 9)")),
        "String": app("str.++", var(x), lit("String", '"b"')),
        "AII": app("store", var(x), lit("Int", "0"), lit("Int", "1")),
        "AIR": app("store", var(x), lit("Int", "0"), lit("Real", "1.5")),
    }[s])]


def same(t):
    return app("=", t, t)


# ------------------------------------------------------------------ the family
def cases(tier):
    """Yields (key, commands, probe path, sort the probe must have when the script is accepted).
    D = the declared sort, B = the sort the term really has."""
    for D, B in itertools.product(SORTS, SORTS):
        pair = "%s<-%s" % (D, B)
        # define-fun whose body mentions a parameter
        for tag, body in over(B, "a"):
            yield ("definefun-param:%s:%s" % (pair, tag),
                   [("define-fun", "f", [("a", B)], D, body), ("declare-fun", "y", [], B), ("assert", same(call("f", var("y"))))], (0,), D)
        # define-fun whose body mentions a declared symbol
        for tag, body in over(B, "k"):
            yield ("definefun-global:%s:%s" % (pair, tag),
                   [("declare-fun", "k", [], B), ("define-fun", "g", [], D, body), ("assert", same(var("g")))], (0,), D)
        for tag, body in ground_terms(B):
            # ground body, with an (unused) parameter and without
            yield ("definefun-ground:%s:%s" % (pair, tag),
                   [("define-fun", "f", [("a", "Int")], D, body), ("declare-fun", "y", [], "Int"), ("assert", same(call("f", var("y"))))], (0,), D)
            yield ("defineconst-ground:%s:%s" % (pair, tag), [("define-fun", "c", [], D, body), ("assert", same(var("c")))], (0,), D)
        # actual arguments against the formal sorts: declared and defined functions
        actuals = [("ground-" + tag, [], t) for tag, t in ground_terms(B)] + \
                  [("sym-" + tag, [("declare-fun", "k", [], B)], t) for tag, t in over(B, "k")]
        for tag, decls, t in actuals:
            yield ("declared-app:%s:%s" % (pair, tag), decls + [("declare-fun", "h", [D], "Bool"), ("assert", call("h", t))], (0,), D)
            yield ("declared-app2:%s:%s" % (pair, tag),
                   decls + [("declare-fun", "h", ["Int", D], D), ("assert", same(call("h", lit("Int", "1"), t)))], (0, 1), D)
            yield ("macro-app:%s:%s" % (pair, tag), decls + [("define-fun", "g", [("a", D)], "Bool", same(var("a"))), ("assert", call("g", t))], (0,), D)
            yield ("macro-app-id:%s:%s" % (pair, tag), decls + [("define-fun", "g", [("a", D)], D, var("a")), ("assert", same(call("g", t)))], (0,), D)
            yield ("macro-app2:%s:%s" % (pair, tag),
                   decls + [("define-fun", "g", [("b", "Int"), ("a", D)], D, app("ite", app("<", var("b"), lit("Int", "0")), var("a"), var("a"))),
                            ("assert", same(call("g", lit("Int", "1"), t)))], (0, 1), D)
            # let: the bound term is used where a term of sort D is required
            yield ("let:%s:%s" % (pair, tag), decls + [("declare-fun", "y", [], D), ("assert", let([("v", t)], app("=", var("v"), var("y"))))], (0,), D)
            yield ("let-nested:%s:%s" % (pair, tag),
                   decls + [("declare-fun", "y", [], D), ("assert", let([("v", t)], let([("w", var("v"))], app("=", var("y"), var("w")))))], (1,), D)
        # binders: the bound variable of sort D is used where sort B is required
        for q in ("forall", "exists"):
            yield ("binder-%s:%s" % (q, pair), [("declare-fun", "y", [], B), ("assert", quant(q, [("v", D)], app("=", var("v"), var("y"))))], (0, 0), D)
        yield ("binder-in-definefun:%s" % pair,
               [("define-fun", "f", [("a", B)], "Bool", quant("forall", [("v", D)], app("=", var("a"), var("v")))), ("declare-fun", "y", [], B),
                ("assert", call("f", var("y")))], (0, 1), D)
    # use sites of a defined function in arithmetic contexts that tolerate Int and Real
    for D, B in itertools.product(("Int", "Real"), ("Int", "Real")):
        pair = "%s<-%s" % (D, B)
        bodies = [("param-" + tag, [("a", B)], b, [("declare-fun", "y", [], B)], [var("y")]) for tag, b in over(B, "a")] + \
                 [("ground-" + tag, [("a", "Int")], b, [("declare-fun", "y", [], "Int")], [var("y")]) for tag, b in ground_terms(B)]
        for tag, params, body, decls, actual in bodies:
            fy = call("f", *actual)
            # (the decimal contexts and / are used for a function declared Real only: for an Int one they are ill-sorted
            #  or, when the expansion is ground, promoted - pySMT also reads / on Int as integer division)
            uses = [("lt-num", app("<", fy, lit("Int", "3")), (0,)),
                    ("ite", same(app("ite", app("<", fy, fy), fy, lit("Int", "0"))), (0, 1))]
            if D == "Real":
                uses += [("lt-dec", app("<", fy, lit("Real", "3.5")), (0,)), ("div", same(app("/", fy, lit("Int", "2"))), (0, 0)),
                         ("plus-dec", app("<", app("+", fy, lit("Real", "1.5")), lit("Real", "3.0")), (0, 0))]
            for utag, use, path in uses:
                yield ("use:%s:%s:%s" % (pair, tag, utag), [("define-fun", "f", params, D, body)] + decls + [("assert", use)], path, D)
