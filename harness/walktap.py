"""Observation of pysmt DagWalker objects from outside (shared by C20, C15, C14).

Nothing in /repo is touched: the per-instance dispatch table ``walker.functions`` and the two
per-instance loop methods are shadowed by counting wrappers, and the traversal DAG that the
walker sees (``_get_children`` / ``_get_key``) is exported with ids numbered so that children
are smaller than parents (the hypothesis of the Coq theorems).
"""


class WorkExceeded(Exception):
    """Raised by the tap when the loop runs more iterations than the given limit."""


class Tap(object):
    """Counts callback invocations (with their order) and loop iterations of one walker."""

    def __init__(self, walker, kind="plain", limit=None):
        self.w = walker
        self.kind = kind
        self.log = []          # keys in callback invocation order
        self.pushes = 0        # _push_with_children_to_stack calls  (pops of (False, n))
        self.computes = 0      # _compute_node_result calls          (pops of (True, n))
        self.limit = limit
        tab = walker.measure_to_fun if kind == "size" else walker.functions
        self._tab = tab
        self._orig = dict(tab)
        for k, fn in list(tab.items()):
            tab[k] = self._wrap(fn)
        self._orig_push = walker._push_with_children_to_stack
        self._orig_comp = walker._compute_node_result
        walker._push_with_children_to_stack = self._push
        walker._compute_node_result = self._comp

    def _key(self, formula, kw):
        if self.kind == "pcnf":
            return (formula, kw.get("pol"))
        if self.kind == "size":
            return (kw.get("measure"), formula)
        return formula

    def _wrap(self, fn):
        log = self.log

        def tapped(formula, *a, **kw):
            log.append(self._key(formula, kw))
            return fn(formula, *a, **kw)
        return tapped

    def _check(self):
        if self.limit is not None and self.pushes + self.computes > self.limit:
            raise WorkExceeded("more than %d loop iterations" % self.limit)

    def _push(self, formula, *a, **kw):
        self.pushes += 1
        if self.kind in ("subst", "dagprint") and formula.is_quantifier():
            # Substituter / SmtDagPrinter compute a quantifier in one piece when it is expanded and
            # never push (True, n): counted as the expand + compute iterations of the model's leaf
            self.computes += 1
        self._check()
        return self._orig_push(formula, *a, **kw)

    def _comp(self, formula, *a, **kw):
        self.computes += 1
        self._check()
        return self._orig_comp(formula, *a, **kw)

    @property
    def pops(self):
        return self.pushes + self.computes

    def reset(self):
        del self.log[:]
        self.pushes = 0
        self.computes = 0

    def remove(self):
        for k, fn in self._orig.items():
            self._tab[k] = fn
        try:
            del self.w._push_with_children_to_stack
            del self.w._compute_node_result
        except AttributeError:
            pass


def walker_children(walker, kind, key):
    """Keys of the children of `key` as the walker's loop sees them."""
    if kind == "pcnf":
        f, pol = key
        return [(c, p) for c, p in walker._get_children(f, pol)]
    if kind == "size":
        m, f = key
        return [(m, c) for c in walker._get_children(f)]
    if kind in ("subst", "dagprint") and key.is_quantifier():
        return []     # handled in one piece at push time (sub-walker / direct call)
    return list(walker._get_children(key))


def export_dag(walker, kind, roots, ids=None, table=None):
    """Number the keys reachable from `roots` in the walker's traversal DAG so that children
    are smaller than parents (iterative post-order).  `ids`/`table` may carry a numbering from
    earlier calls (same walker, growing DAG).  Returns (ids: key -> nat, table: list of
    children-id lists)."""
    ids = {} if ids is None else ids
    table = [] if table is None else table
    for root in roots:
        if root in ids:
            continue
        stack = [(root, None)]
        while stack:
            key, it = stack.pop()
            if it is None:
                if key in ids:
                    continue
                ch = walker_children(walker, kind, key)
                stack.append((key, (ch, 0)))
                continue
            ch, i = it
            while i < len(ch) and ch[i] in ids:
                i += 1
            if i < len(ch):
                stack.append((key, (ch, i + 1)))
                stack.append((ch[i], None))
            else:
                if key not in ids:
                    ids[key] = len(table)
                    table.append([ids[c] for c in ch])
    return ids, table


def distinct_subformulas(f):
    """Number of distinct FNodes below f (own iterative traversal over args())."""
    seen = set()
    stack = [f]
    while stack:
        x = stack.pop()
        if x in seen:
            continue
        seen.add(x)
        stack.extend(x.args())
    return len(seen)


def stack_ids(walker, kind, ids):
    """The walker's residual stack, top first, as (expanded?, id)."""
    out = []
    for e in reversed(walker.stack):
        if kind == "pcnf":
            out.append((bool(e[0]), ids.get((e[1], e[2]), -1)))
        elif kind == "size":
            hit = [ids[(m, e[1])] for m in range(6) if (m, e[1]) in ids]
            out.append((bool(e[0]), hit[0] if hit else -1))
        else:
            out.append((bool(e[0]), ids.get(e[1], -1)))
    return out


# ---- Gallina literals ----------------------------------------------------------------------

def coq_nats(xs):
    return "[" + "; ".join(str(int(x)) for x in xs) + "]"


def coq_table(table):
    return "[" + "; ".join(coq_nats(r) for r in table) + "]"


def coq_stack(st):
    return "[" + "; ".join("(%s, %d)" % ("true" if b else "false", n) for b, n in st) + "]"


def coq_walk(root, bad, code, log, pops, stack, memo):
    return "(%d, %s, (%d, %d), %s, %d, %s, %s)" % (root, coq_nats(bad), code[0], code[1], coq_nats(log), pops,
                                                     coq_stack(stack), coq_nats(memo))


def coq_case(table, early, oneshot, walks):
    return "(%s, %s, %s, [%s])" % (coq_table(table), "true" if early else "false",
                                   "true" if oneshot else "false", "; ".join(walks))


CASE_HEADER = ("From Coq Require Import List Arith Bool.\nFrom PySMT.core Require Import CaseUtil DagWalk.\n"
               "From PySMT.models Require Import DagWalkRun.\nImport ListNotations.\n")


def case_file(rows):
    return (CASE_HEADER + "Definition cases : list wcase := [\n %s ].\n" % ";\n ".join(rows)
            + "Eval vm_compute in mismatches (fun c => wcase_wf c && wcase_ok c) cases.\n")
