"""C02 - model evaluation returns the exact value of any ground-evaluable formula."""
import os
import random
import warnings

import pysmt.environment
import pysmt.operators as op
from pysmt.solvers.eager import EagerModel
from pysmt.typing import BOOL, INT, REAL, STRING, BVType, ArrayType

from . import gen_all, lib, refeval, tocoq
from . import c01 as S        # literal emission, order oracle and case-file plumbing of the simplifier model
from .gen.formulas import Config, FormulaGen

TRUSTED = [
    "Coq 8.16.1 kernel (coqc); no native_compute",
    "hand models models/EagerModel.v (get_value, _complete_model, satisfies) over models/Substituter.v and models/Simplifier.v, "
    "tied to pysmt/solvers/eager.py, pysmt/solvers/solver.py by this run's correspondence (exact structural equality of the returned constant / error outcome)",
    "harness/refeval.py: independent evaluator used as the property-level oracle (value of the formula under the assignment, defaults for absent symbols)",
    "core/Sem.v: semantic specification the theorems are stated against; the semantic theorems of props/C02.v "
    "(get_value_exact / total / partial_sound / satisfies_iff, all `_partial`) are the composition of C05's substitution lemma with "
    "C01's simplify_sound / fold_complete on their common fragment `gfrag` (proofs/EagerModelSem_proofs.v); the `_wide_partial` "
    "theorems (proofs/EagerModelSemWide_proofs.v) do the same on `gwfrag` = every operator except Pow, function applications and "
    "quantifiers (all string operators, array select / store / values / equality, ToReal, every BV operator), with a total "
    "substitution lemma, C05's typed substitution lemma and C01's fold_complete_wide",
]
ASSUME = [
    "quantifier-free, UF-free formulas; assignments map symbols to constants of their sort",
    "interpretations under which an Int/Real division by zero is evaluated are skipped by the oracle (the property leaves them unconstrained)",
    "theorems: `nodiv0 I f` (no divisor evaluates to 0) and, for the `_wide_partial` ones, `strlim I f`: every str.to_int argument has at most "
    "4300 characters and every str.from_int argument is below 10^4300 (CPython's int <-> str conversion limit, modelled in core/PyPrims.v; "
    "beyond it the simplifier leaves the node unfolded and get_value raises); models assign scalar constants (array-sorted symbols have no "
    "default and are not assigned in the theorems; the harness does assign constant arrays and checks them against the reference evaluator)",
]

OK_DEF = """
Definition entry := (op * list term * term)%type.
Definition lookup (tbl : list entry) : oracle := fun o args =>
  match find (fun e : entry => op_eqb o (fst (fst e)) && list_eqb term_eqb args (snd (fst e))) tbl with
  | Some e => Some (snd e)
  | None => None
  end.
Definition opt_eqb (a b : option term) : bool :=
  match a, b with Some x, Some y => term_eqb x y | None, None => true | _, _ => false end.
Definition optb_eqb (a b : option bool) : bool :=
  match a, b with Some x, Some y => Bool.eqb x y | None, None => true | _, _ => false end.
(* (assignment, formula, completion?, order table, expected get_value, expected satisfies (None = not asked)) *)
Definition ok (c : list (term * term) * term * bool * list entry * option term * option (option bool)) : bool :=
  let '(m, f, compl, tbl, ev, es) := c in
  opt_eqb (get_value (lookup tbl) m f compl) ev &&
  match es with None => true | Some e => optb_eqb (satisfies (lookup tbl) m f) e end.
"""
CASE_T = "list (term * term) * term * bool * list (op * list term * term) * option term * option (option bool)"


def hook_orders(env, records):
    s = env.simplifier
    saved = {}
    for nt in S.ORDERED:
        orig = s.functions[nt]
        saved[nt] = orig

        def w(formula, args, orig=orig, nt=nt, **kw):
            r = orig(formula, args=args, **kw)
            if r.node_type() == nt:
                records.append((formula, list(args), r))
            return r
        s.functions[nt] = w
    return saved


def unhook(env, saved):
    for nt, f in saved.items():
        env.simplifier.functions[nt] = f


def const_of(g, env, rnd, t):
    m = env.formula_manager
    if t.is_array_type():
        d = const_of(g, env, rnd, t.elem_type)
        assigned = {}
        for _ in range(rnd.choice([0, 1, 2])):
            assigned[const_of(g, env, rnd, t.index_type)] = const_of(g, env, rnd, t.elem_type)
        return m.Array(t.index_type, d, assigned)
    c = g.const(t)
    return c


def interp_of(f, assignment, defaults=True):
    """refeval interpretation: assigned constants, documented defaults for the rest."""
    vals = {}
    for s in f.get_free_variables():
        if s in assignment:
            vals[s] = refeval.evaluate_ex(assignment[s], refeval.Interp({}))[0]
        elif defaults:
            t = s.symbol_type()
            if t.is_bool_type():
                vals[s] = False
            elif t.is_int_type():
                vals[s] = 0
            elif t.is_real_type():
                from fractions import Fraction
                vals[s] = Fraction(0)
            elif t.is_bv_type():
                vals[s] = refeval.BV(t.width, 0)
            else:
                return None
        else:
            return None
    return refeval.Interp(vals)


# ---------------------------------------------------------------------------------------------
# directed families (second seeding round): finite-index array values with different defaults, and the
# string hazard pool of harness/c01.py (STR_HAZARD)
# ---------------------------------------------------------------------------------------------
FIN_IDX = [BOOL, BVType(1), BVType(2)]


def fin_consts(m, t):
    if t.is_bool_type():
        return [m.FALSE(), m.TRUE()]
    return [m.BV(v, t.width) for v in range(1 << t.width)]


def fin_vals(m, ty):
    """three extensionally different values of sort ty (Int, or arrays over finite index sorts)"""
    if not ty.is_array_type():
        return [m.Int(0), m.Int(1), m.Int(2)]
    e = fin_vals(m, ty.elem_type)
    dom = fin_consts(m, ty.index_type)
    return [m.Array(ty.index_type, e[0]), m.Array(ty.index_type, e[1]), m.Array(ty.index_type, e[0], {dom[0]: e[2]})]


def alt_spelling(m, ty, k):
    """fin_vals(ty)[k] for k in (0, 1), spelled with the OTHER default and every index assigned"""
    e = fin_vals(m, ty.elem_type)
    dom = fin_consts(m, ty.index_type)
    return m.Array(ty.index_type, e[1 - k], dict((i, e[k]) for i in dom))


def fin_array_pairs(m, ty):
    """[(tag, A, B, extensionally_equal)]: A and B have DIFFERENT defaults d0 / d1; their explicit entries are
    disjoint / overlapping / jointly covering / covering all but one index / not covering, and agree pointwise
    (then A = B iff the entries jointly cover the index sort) or disagree at one index."""
    it = ty.index_type
    d0, d1, c = fin_vals(m, ty.elem_type)
    dom = fin_consts(m, it)
    n = len(dom)
    pats = [("disjoint-covering", dom[:n // 2], dom[n // 2:]), ("overlapping-covering", dom[:-1], dom[1:]),
            ("full-vs-none", dom, []), ("full-vs-full", dom, dom), ("covering-but-one", dom[:n // 2], dom[n // 2:-1]),
            ("none-vs-none", [], []), ("one-vs-none", dom[:1], [])]
    if n > 2:
        pats += [("disjoint-not-covering", dom[:1], dom[1:2]), ("overlapping-not-covering", dom[:2], dom[1:3]),
                 ("overlapping-covering-2", dom[:3], dom[2:]), ("covering-but-one-2", dom[:2], dom[1:3])]
    deep = ty.elem_type.is_array_type()
    out, seen = [], set()
    for tag, ka, kb in pats:
        covering = set(ka) | set(kb) == set(dom)
        ea = dict((k, (c if k in kb else d1)) for k in ka)
        eb = dict((k, (c if k in ka else d0)) for k in kb)
        variants = [("agree", ea, eb, covering)]
        only_a = [k for k in ka if k not in kb]
        both = [k for k in ka if k in kb]
        if only_a:
            bad = dict(ea)
            bad[only_a[-1]] = c
            variants.append(("disagree", bad, eb, False))
        elif both:
            bad = dict(ea)
            bad[both[0]] = d1
            variants.append(("disagree", bad, eb, False))
        if deep and eb:
            # the entries of B that must equal A's default, spelled differently one level down
            alt = dict((k, (alt_spelling(m, ty.elem_type, 0) if v is d0 else v)) for k, v in eb.items())
            variants.append(("agree-alt-spelling", ea, alt, covering))
        for vt, xa, xb, eq in variants:
            A, B = m.Array(it, d0, xa), m.Array(it, d1, xb)
            if (A, B) not in seen:
                seen.add((A, B))
                out.append((tag + "/" + vt, A, B, eq))
    return out


def run(tier):
    chk = lib.Check("C02", tier)
    rnd = random.Random(chk.seed)
    warnings.simplefilter("ignore")
    gen_all.regen_all()
    ok = chk.prove()
    lib.clean_cases(chk.dir)
    rows, meta = [], []
    stats = {"constant_results": 0, "errors": 0, "partial_calls": 0, "oracle_evaluations": 0, "div0_skipped": 0, "bv_exhaustive": 0}

    def one(env, f, assignment, completion, ask_sat):
        records = []
        saved = hook_orders(env, records)
        model = EagerModel(assignment=assignment, environment=env)
        try:
            try:
                v = model.get_value(f, model_completion=completion)
            except RecursionError:
                raise
            except Exception:   # noqa
                v = None
            sat = "skip"
            if ask_sat:
                try:
                    sat = model.satisfies(f)
                except Exception:   # noqa
                    sat = None
        finally:
            unhook(env, saved)
        stats["constant_results" if v is not None else "errors"] += 1
        # ---- oracle: the value the formula denotes under the assignment (independent evaluator)
        key = "gv:%s:%s:%s" % (str(tocoq.skey(f))[:150], sorted((str(k), str(val)) for k, val in assignment.items()), completion)
        try:
            I = interp_of(f, assignment, defaults=completion)
            if I is not None:
                ev, exact = refeval.evaluate_ex(f, I)
                stats["oracle_evaluations"] += 1
                if v is None:
                    chk.violation({"kind": "input", "what": "get_value raised although the formula is ground-evaluable under the assignment",
                                   "formula": S.ser(f), "assignment": {str(k): S.ser(x) for k, x in assignment.items()},
                                   "completion": completion, "expected_value": repr(ev)},
                                  key="gv-raises:" + key)
                else:
                    got = refeval.evaluate_ex(v, refeval.Interp({}))[0]
                    if got != ev:
                        chk.violation({"kind": "input", "what": "get_value returned %s but the formula denotes %r" % (S.ser(v), ev),
                                       "formula": S.ser(f), "assignment": {str(k): S.ser(x) for k, x in assignment.items()},
                                       "completion": completion}, key="gv-wrong:" + key)
                if ask_sat and f.get_type().is_bool_type() and sat != "skip" and sat != bool(ev):
                    chk.violation({"kind": "input", "what": "satisfies() = %s but the formula's value is %r" % (sat, ev),
                                   "formula": S.ser(f), "assignment": {str(k): S.ser(x) for k, x in assignment.items()}},
                                  key="sat-wrong:" + key)
            elif v is not None and not completion:
                # partial assignment: a returned value must hold for EVERY completion of the unassigned symbols:
                # all of them when they are Bool / BV of at most 4 bits with at most 256 combinations, else the boundary
                # values (0, +-1, all-ones, min / max signed, neighbours of the constants in the formula and in the
                # model) uniformly and at random, plus random completions
                stats["partial_calls"] += 1
                got = refeval.evaluate_ex(v, refeval.Interp({}))[0]
                vals = {s: refeval.evaluate_ex(c, refeval.Interp({}))[0] for s, c in assignment.items()}
                missing = [s for s in f.get_free_variables() if s not in assignment]
                base = refeval.random_interp(rnd, [f])
                comps = S.boundary_assignments(missing, S.formula_constants([f] + list(assignment.values())), rnd, base, 256, 24)
                for _ in range(4):
                    rb = refeval.random_interp(rnd, [f])
                    comps.append(dict((s, rb.value(s)) for s in missing))
                stats["completions_checked"] = stats.get("completions_checked", 0) + len(comps)
                for comp in comps:
                    upd = dict(vals)
                    upd.update(comp)
                    J = refeval.interp_updated(base, upd)
                    try:
                        ev, exact = refeval.evaluate_ex(f, J)
                    except refeval.DivisionByZeroEvaluated:
                        continue
                    stats["oracle_evaluations"] += 1
                    if ev != got:
                        chk.violation({"kind": "input", "what": "get_value without completion returned %s, but the completion %s gives %r"
                                                                 % (S.ser(v), {str(k): repr(x) for k, x in comp.items()}, ev),
                                       "formula": S.ser(f), "assignment": {str(k): S.ser(x) for k, x in assignment.items()},
                                       "counter_completion": {str(k): repr(x) for k, x in comp.items()},
                                       "returned": S.ser(v), "value_under_completion": repr(ev)}, key="gv-partial:" + key)
                        break
        except refeval.DivisionByZeroEvaluated:
            stats["div0_skipped"] += 1
        except (refeval.Unsupported, refeval.Inexact, refeval.IllTyped):
            pass
        # ---- case for the model
        roots = [f] + list(assignment.keys()) + list(assignment.values()) + ([v] if v is not None else [])
        for frm, args, res in records:
            roots += args + [res]

        def body(names, f=f, assignment=dict(assignment), v=v, sat=sat, records=list(records), completion=completion):
            asg = "[%s]" % "; ".join("(%s, %s)" % (names[k], names[x]) for k, x in assignment.items())
            tbl = "[%s]" % "; ".join("(%s, [%s], %s)" % (S.opr(frm), "; ".join(names[a] for a in args), names[res]) for frm, args, res in records)
            es = "None" if sat == "skip" else ("(Some None)" if sat is None else "(Some (Some %s))" % ("true" if sat else "false"))
            return "(%s, %s, %s, %s, %s, %s)" % (asg, names[f], "true" if completion else "false", tbl,
                                                 "None" if v is None else "(Some %s)" % names[v], es)
        rows.append(S.emit(roots, body))
        meta.append((S.ser(f, 300), {str(k): S.ser(x, 300) for k, x in assignment.items()}, completion, None if v is None else S.ser(v, 300)))
        chk.count(("c02", tocoq.skey(f), tuple(sorted((str(k), str(x)) for k, x in assignment.items())), completion), nontrivial=len(f.args()) > 0)

    # ---------------- random formulas x total / partial / empty assignments -------------------
    n = 500 if tier == "quick" else 6000
    i = 0
    while i < n:
        with S.EnvCtx() as env:
            g = FormulaGen(env, rnd, Config(uf=False, quantifiers=False, custom=False))
            for _ in range(50):
                t = rnd.choice(g.types)
                f = g.gen(t, rnd.randint(1, 4))
                fvs = sorted(f.get_free_variables(), key=lambda s: s.symbol_name())
                total = {}
                for s in fvs:
                    c = const_of(g, env, rnd, s.symbol_type())
                    if c is not None:
                        total[s] = c
                mode = rnd.choice(["total", "total", "partial", "empty", "partial-nocompletion", "total-nocompletion"])
                if mode.startswith("total"):
                    asg = total
                elif mode.startswith("partial"):
                    asg = {k: v for k, v in total.items() if rnd.random() < 0.5}
                else:
                    asg = {}
                one(env, f, asg, not mode.endswith("nocompletion"), ask_sat=f.get_type().is_bool_type() and rnd.random() < 0.5)
                i += 1
    # ---------------- bit-vector operators: every operand value at small widths ----------------
    maxw = 3 if tier == "quick" else 5
    with S.EnvCtx() as env:
        m = env.formula_manager
        for w in range(1, maxw + 1):
            x, y = m.Symbol("x%d" % w, BVType(w)), m.Symbol("y%d" % w, BVType(w))
            bins = [m.BVAnd, m.BVOr, m.BVXor, m.BVAdd, m.BVSub, m.BVMul, m.BVUDiv, m.BVURem, m.BVLShl, m.BVLShr, m.BVAShr,
                    m.BVSDiv, m.BVSRem, m.BVULT, m.BVULE, m.BVSLT, m.BVSLE, m.BVComp, m.BVConcat, m.BVSMod]
            uns = [m.BVNot, m.BVNeg, m.BVToNatural, lambda a: m.BVRol(a, 1 % (w + 1)), lambda a: m.BVRor(a, w), lambda a: m.BVZExt(a, 2),
                   lambda a: m.BVSExt(a, 2), lambda a: m.BVExtract(a, 0, w - 1), lambda a: m.BVExtract(a, w - 1, w - 1)]
            forms = [b(x, y) for b in bins] + [u(x) for u in uns]
            step = 1 if (tier == "thorough" or w <= 2) else 1
            for f in forms:
                for a in range(0, 1 << w, step):
                    for b in (range(0, 1 << w) if y in f.get_free_variables() else [0]):
                        one(env, f, {x: m.BV(a, w), y: m.BV(b, w)} if y in f.get_free_variables() else {x: m.BV(a, w)}, True, ask_sat=False)
                        stats["bv_exhaustive"] += 1
    # ---------------- finite-index array values with different defaults ------------------------
    fam = {"chains": 0, "pairs": 0, "pairs_equal": 0, "pairs_different": 0, "cases": 0, "by_depth": {}}
    n0 = len(rows)
    with S.EnvCtx() as env:
        m = env.formula_manager
        chains = [c for d in (1, 2, 3) for c in __import__("itertools").product(FIN_IDX, repeat=d)]
        for ch in chains:
            ty = INT
            for i in reversed(ch):
                ty = ArrayType(i, ty)
            nm = "_".join(("b" if t.is_bool_type() else "v%d" % t.width) for t in ch)
            a, b = m.Symbol("fa_" + nm, ty), m.Symbol("fb_" + nm, ty)
            x = m.Symbol("fx", INT)
            dom = fin_consts(m, ty.index_type)
            pairs = fin_array_pairs(m, ty)
            if len(ch) == 3 and tier == "quick":
                keep = [p for p in pairs if p[0].startswith(("disjoint-covering", "overlapping-covering/"))]
                pairs = keep + rnd.sample([p for p in pairs if p not in keep], 2)
            elif len(ch) == 2 and tier == "quick":
                keep = [p for p in pairs if "covering" in p[0] and "not-covering" not in p[0]]
                pairs = keep + rnd.sample([p for p in pairs if p not in keep], 3)
            fam["chains"] += 1
            before = len(rows)
            for tag, A, B, eq in pairs:
                fam["pairs"] += 1
                fam["pairs_equal" if eq else "pairs_different"] += 1
                k = rnd.choice(dom)
                forms = [(m.Equals(a, b), {a: A, b: B}, True, True),                       # symbols, total
                         (m.Equals(A, B), {}, True, True),                                   # literals
                         (m.Not(m.Equals(a, B)), {a: A}, True, True),                         # mixed, negated
                         (m.Ite(m.Equals(a, b), m.Int(1), m.Plus(x, m.Int(5))), {a: A, b: B, x: m.Int(2)}, True, False),   # guard
                         (m.Equals(m.Select(a, k), m.Select(b, k)), {a: A, b: B}, True, True)]
                if len(ch) == 1 or tier != "quick":
                    forms += [(m.And([m.Equals(m.Select(a, i), m.Select(B, i)) for i in dom]), {a: A}, True, True),
                              (m.Equals(a, b), {a: A}, False, False),                        # partial, no completion
                              (m.Ite(m.Equals(A, b), x, m.Int(0)), {b: B}, True, False),      # partial (x completed with 0)
                              (m.Equals(m.Store(a, k, m.Select(b, k)), b), {a: A, b: B}, True, True)]
                elif len(ch) == 3:
                    forms = [forms[j] for j in sorted(rnd.sample(range(5), 3))]
                for f, asg, compl, ask in forms:
                    one(env, f, asg, compl, ask_sat=ask)
            fam["by_depth"][len(ch)] = fam["by_depth"].get(len(ch), 0) + len(rows) - before
    fam["cases"] = len(rows) - n0
    chk.cov["family_finite_index_arrays"] = fam
    # ---------------- partial assignments, no completion: absorbing-looking constants ----------
    # one operand is a symbol the model assigns to a constant that LOOKS absorbing for the operator (0, 1, all-ones,
    # min / max signed, "", TRUE / FALSE, a constant array), the other operand is an unassigned symbol or a term over
    # one; also one level under Ite / And / Or / Equals / arithmetic.  get_value(..., model_completion=False) must
    # raise or return a value that is right for EVERY completion (checked above, exhaustively at these widths).
    n0 = len(rows)
    pstat = {"returned_a_value": 0}
    before_calls = stats["partial_calls"]
    with S.EnvCtx() as env:
        m = env.formula_manager
        p_, q_ = m.Symbol("pp", BOOL), m.Symbol("pq", BOOL)
        i_, j_, k_ = m.Symbol("pi", INT), m.Symbol("pj", INT), m.Symbol("pk", INT)
        r_, t_ = m.Symbol("pr", REAL), m.Symbol("pt", REAL)
        sx, sy = m.Symbol("psx", STRING), m.Symbol("psy", STRING)

        def wrap(f, kx):
            """f one level under another operator (the wrapper's other operands are constants)"""
            t = f.get_type()
            if t.is_bool_type():
                return [m.Ite(f, m.Int(1), m.Int(2)), m.And(f, m.TRUE()), m.Or(f, m.FALSE()), m.Not(f), m.Iff(f, m.TRUE()), m.Implies(m.TRUE(), f)][kx % 6]
            if t.is_bv_type():
                w = t.width
                return [m.Equals(f, m.BV(0, w)), m.BVULE(f, m.BV((1 << w) - 1, w)), m.BVAdd(f, m.BV(0, w)), m.Ite(m.TRUE(), f, m.BV(0, w))][kx % 4]
            if t.is_int_type():
                return [m.Equals(f, m.Int(0)), m.Plus(f, m.Int(0)), m.Times(f, m.Int(1)), m.LE(f, m.Int(0))][kx % 4]
            if t.is_real_type():
                return [m.Equals(f, m.Real(0)), m.Plus(f, m.Real(0)), m.Times(f, m.Real(1))][kx % 3]
            if t.is_string_type():
                return [m.StrLength(f), m.Equals(f, m.String("")), m.StrConcat(f, m.String(""))][kx % 3]
            return m.Equals(f, f)

        cases = []         # (formula, assignment)
        for w in ((2, 4) if tier == "quick" else (1, 2, 3, 4)):
            x, y, z = m.Symbol("px%d" % w, BVType(w)), m.Symbol("py%d" % w, BVType(w)), m.Symbol("pz%d" % w, BVType(w))
            mx = (1 << w) - 1
            consts = []
            for v in (0, 1, mx, 1 << (w - 1), (1 << (w - 1)) - 1):
                if v not in consts:
                    consts.append(v)
            bins = [m.BVAnd, m.BVOr, m.BVXor, m.BVAdd, m.BVSub, m.BVMul, m.BVUDiv, m.BVURem, m.BVLShl, m.BVLShr, m.BVAShr,
                    m.BVSDiv, m.BVSRem, m.BVULT, m.BVULE, m.BVSLT, m.BVSLE, m.BVComp, m.BVConcat, m.Equals]
            others = [x, m.BVAdd(x, m.BV(1 & mx, w)), m.Ite(p_, x, z), m.BVNot(x)]
            if w > 1:
                others.append(m.BVConcat(m.BVExtract(x, w - 1, w - 1), m.BVExtract(x, 0, w - 2)))
            nrel = 7                     # the last 7 of bins: relations, comp, concat, equals
            for bi, b in enumerate(bins):
                rel = bi >= len(bins) - nrel
                for c in consts:
                    asg = {y: m.BV(c, w)}
                    if tier != "quick":
                        os_ = others
                    elif w == 4:
                        os_ = others if rel else others[:2]
                    else:
                        os_ = others[:1] if rel else []
                    for o in os_:
                        cases.append((b(o, y), asg))
                        cases.append((b(y, o), asg))
        for b in (m.And, m.Or, m.Implies, m.Iff):
            for c in (m.TRUE(), m.FALSE()):
                for o in (p_, m.Not(p_), m.And(p_, q_)):
                    cases += [(b(o, q_) if b in (m.Implies, m.Iff) else b(o, q_), {q_: c})]
        for c in (m.TRUE(), m.FALSE()):
            cases += [(m.And(p_, q_), {q_: c}), (m.Or(p_, q_), {q_: c}), (m.Implies(p_, q_), {q_: c}), (m.Implies(q_, p_), {q_: c}),
                      (m.Iff(p_, q_), {q_: c}), (m.Ite(q_, p_, m.TRUE()), {q_: c}), (m.Ite(q_, i_, j_), {q_: c, j_: m.Int(3)}),
                      (m.Ite(p_, i_, j_), {i_: m.Int(3), j_: m.Int(3)}), (m.Ite(q_, p_, p_), {q_: c})]
        for (u, v2, K, zero) in ((i_, j_, m.Int, m.Int(0)), (r_, t_, m.Real, m.Real(0))):
            for cz in ((0, 1, -1) if tier == "quick" else (0, 1, -1, 2)):
                asg = {v2: K(cz)}
                for o in ((u, m.Plus(u, K(1))) if tier == "quick" else (u, m.Plus(u, K(1)), m.Ite(p_, u, K(cz)), m.Times(u, u))):
                    for b in (m.Plus, m.Minus, m.Times, m.Div, m.LE, m.LT, m.Equals):
                        cases.append((b(o, v2), asg))
                        cases.append((b(v2, o), asg))
                cases += [(m.Pow(v2, K(2)), {}), (m.Pow(m.Plus(u, v2), K(0)), asg), (m.Ite(m.LE(u, v2), v2, v2), asg)]
        cases += [(m.ToReal(m.Times(i_, j_)), {j_: m.Int(0)}), (m.Times(i_, j_, k_), {j_: m.Int(0)}), (m.Times(i_, m.Minus(j_, j_)), {}),
                  (m.Minus(i_, i_), {}), (m.LE(i_, i_), {}), (m.LT(i_, i_), {}), (m.Equals(m.Plus(i_, j_), m.Plus(j_, i_)), {}),
                  (m.LE(m.Times(i_, i_), j_), {j_: m.Int(-1)})]
        for c in ("", "a"):
            asg = {sy: m.String(c)}
            cases += [(m.StrConcat(sx, sy), asg), (m.StrLength(m.StrConcat(sx, sy)), asg), (m.StrContains(sx, sy), asg), (m.StrContains(sy, sx), asg),
                      (m.StrPrefixOf(sy, sx), asg), (m.StrPrefixOf(sx, sy), asg), (m.StrSuffixOf(sy, sx), asg), (m.StrSuffixOf(sx, sy), asg),
                      (m.StrReplace(sx, sy, m.String("b")), asg), (m.StrReplace(sy, sx, m.String("b")), asg), (m.StrReplace(sx, m.String("b"), sy), asg),
                      (m.StrIndexOf(sx, sy, m.Int(0)), asg), (m.StrIndexOf(sy, sx, m.Int(0)), asg), (m.StrIndexOf(sx, sy, i_), asg),
                      (m.StrCharAt(sy, i_), asg), (m.StrSubstr(sy, i_, j_), asg), (m.StrSubstr(sx, i_, j_), {j_: m.Int(0)}),
                      (m.StrSubstr(sx, i_, m.Int(1)), {i_: m.Int(-1)}), (m.StrCharAt(sx, i_), {i_: m.Int(-1)}), (m.StrToInt(sy), asg),
                      (m.StrToInt(m.StrConcat(sx, sy)), asg), (m.Equals(sx, sy), asg), (m.StrLength(sy), asg), (m.LE(m.Int(0), m.StrLength(sx)), {}),
                      (m.LE(m.Int(-1), m.StrToInt(sx)), {}), (m.LE(m.Int(-1), m.StrIndexOf(sx, sy, i_)), asg)]
        A = ArrayType(INT, INT)
        a_, b_ = m.Symbol("pa", A), m.Symbol("pb", A)
        K0 = m.Array(INT, m.Int(0))
        cases += [(m.Select(b_, i_), {b_: K0}), (m.Select(m.Store(a_, i_, j_), i_), {}), (m.Select(m.Store(a_, i_, j_), i_), {j_: m.Int(0)}),
                  (m.Select(m.Store(b_, i_, m.Int(0)), j_), {b_: K0}), (m.Equals(m.Store(b_, i_, m.Int(0)), b_), {b_: K0}),
                  (m.Equals(a_, b_), {b_: K0}), (m.Equals(m.Store(a_, m.Int(1), j_), m.Store(a_, m.Int(1), j_)), {}),
                  (m.Select(m.Store(b_, m.Int(1), j_), m.Int(2)), {b_: K0}), (m.Select(m.Store(a_, m.Int(1), j_), m.Int(1)), {j_: m.Int(5)})]
        seen = set()
        kx = 0
        for f, asg in cases:
            key_ = (f, tuple(sorted((k.symbol_name(), v) for k, v in asg.items())))
            if key_ in seen:
                continue
            seen.add(key_)
            one(env, f, asg, False, ask_sat=False)
            kx += 1
            if tier != "quick" or kx % 3 == 0:
                one(env, wrap(f, kx // 3), asg, False, ask_sat=False)       # one level under another operator
    pstat.update({"cases": len(rows) - n0, "returned_a_value": stats["partial_calls"] - before_calls})
    chk.cov["family_partial_no_completion"] = pstat
    # ---------------- the same sub-term on both sides of a relation (C01's selfref family) -------
    # rel(t, op(t, c)) / rel(op(t, c), t) / rel(op(t, c1), op(t, c2)) over an UNASSIGNED t, no completion: a value may
    # only be returned when it is right for every completion (x u< x + 1 is false at all-ones); and under total models
    n0 = len(rows)
    with S.EnvCtx() as env:
        m = env.formula_manager
        d = S.Directed(env, rnd, tier)
        for w in ((2, 4) if tier == "quick" else (1, 2, 3, 4)):
            fs = d.selfref_bv(w, full=True)
            seen = set()
            fs = [f for f in fs if not (f in seen or seen.add(f))]
            if tier == "quick":
                fs = fs[::2] if w == 4 else fs[::3]
            x = m.Symbol("rx%d" % w, BVType(w))
            mx = (1 << w) - 1
            for j, f in enumerate(fs):
                one(env, f, {}, False, ask_sat=False)
                if j % 4 == 0:
                    tot = dict((s_, (m.BV(rnd.choice([mx, mx - 1, 0, 1 << (w - 1)]), w) if s_.symbol_type().is_bv_type() else m.Bool(rnd.random() < 0.5)))
                               for s_ in f.get_free_variables())
                    one(env, f, tot, True, ask_sat=f.get_type().is_bool_type())
    chk.cov["family_selfref"] = {"cases": len(rows) - n0}
    # ---------------- container-size thresholds: array values with N explicit entries as MODEL values ----------
    n0 = len(rows)
    with S.EnvCtx() as env:
        m = env.formula_manager
        d = S.Directed(env, rnd, tier)
        for sname, n, it, dflt, pairs, lit, chain, outside in d.sized_arrays():
            if tier == "quick" and sname != "Int" and n not in (8, 9, 16, 17, 32, 33, 100):
                continue
            a = m.Symbol("za_%s_%d" % (sname, n), ArrayType(it, INT))
            b = m.Symbol("zb_%s_%d" % (sname, n), ArrayType(it, INT))
            byid = sorted(pairs, key=lambda kv: id(kv[0]))
            asg = {a: lit}
            if n <= 17 and (sname == "Int" or tier != "quick"):
                pick = pairs
            elif n:
                pick = [byid[-1], byid[0], pairs[0], pairs[-1]]
            else:
                pick = []
            for k, v in pick:
                one(env, m.Select(a, k), asg, True, ask_sat=False)
            one(env, m.Select(a, outside[0]), asg, True, ask_sat=False)
            if n:
                if n <= 33:
                    one(env, m.And([m.Equals(m.Select(a, k), v) for k, v in pairs]), asg, True, ask_sat=True)
                else:
                    for k, v in rnd.sample(pairs, 4 if n <= 100 else 1):
                        one(env, m.Equals(m.Select(a, k), v), asg, True, ask_sat=True)
                if tier == "quick" and n > 100:
                    one(env, m.Select(m.Store(a, byid[0][0], m.Int(7)), byid[-1][0]), asg, True, ask_sat=False)
                    continue
                one(env, m.Equals(m.Select(a, byid[-1][0]), byid[-1][1]), asg, False, ask_sat=True)
                one(env, m.Select(m.Store(a, byid[0][0], m.Int(7)), byid[-1][0]), asg, True, ask_sat=False)
                one(env, m.Select(m.Store(a, outside[0], m.Int(7)), byid[-1][0]), asg, True, ask_sat=False)
                one(env, m.Equals(a, b), {a: lit, b: chain}, True, ask_sat=True)
                one(env, m.Equals(m.Select(a, byid[-1][0]), m.Select(b, byid[-1][0])), {a: lit, b: chain}, True, ask_sat=True)
    chk.cov["family_sizes"] = {"cases": len(rows) - n0, "sizes": S.Directed.SIZES, "index_sorts": ["Int", "BV8/BV16", "String"]}
    # ---------------- the string hazard pool through every string operator ----------------------
    n0 = len(rows)
    with S.EnvCtx() as env:
        m = env.formula_manager
        sx = m.Symbol("hx", STRING)
        one_, x_ = m.String("1"), m.String("x")

        def str_forms(t, v):
            n = len(v)
            fst, lst = m.String(v[:1]), m.String(v[-1:])
            return [m.StrLength(t), m.StrToInt(t), m.IntToStr(m.StrToInt(t)), m.StrConcat(t, one_), m.StrToInt(m.StrConcat(t, one_)),
                    m.StrToInt(m.StrConcat(one_, t)), m.StrCharAt(t, m.Int(0)), m.StrCharAt(t, m.Int(n - 1)), m.StrCharAt(t, m.Int(n)),
                    m.StrSubstr(t, m.Int(1), m.Int(n)), m.StrSubstr(t, m.Int(0), m.Int(n - 1)), m.StrIndexOf(t, lst, m.Int(0)),
                    m.StrIndexOf(t, one_, m.Int(1)), m.StrReplace(t, fst, x_), m.StrPrefixOf(fst, t), m.StrSuffixOf(lst, t),
                    m.StrContains(t, lst), m.StrContains(t, one_), m.Equals(m.StrToInt(t), m.Int(-1)), m.LE(m.Int(0), m.StrToInt(t)),
                    m.Equals(m.StrLength(m.StrConcat(t, t)), m.Int(2 * n))]
        lit_keep = (1, 2, 4, 18, 19)        # literal form: the to_int family (the symbol form runs everything)
        for v in S.STR_HAZARD:
            c = m.String(v)
            fs = str_forms(sx, v)
            if tier == "quick":
                idx = sorted(set([0, 1, 2, 4, 5, 18, 19] + rnd.sample(range(len(fs)), 6)))
                fs = [fs[j] for j in idx]
            for f in fs:
                one(env, f, {sx: c}, True, ask_sat=f.get_type().is_bool_type())
            lf = str_forms(c, v)
            for j in (lit_keep if tier == "quick" else range(len(lf))):
                one(env, lf[j], {}, True, ask_sat=lf[j].get_type().is_bool_type())
    chk.cov["family_string_hazard"] = {"pool": len(S.STR_HAZARD), "cases": len(rows) - n0}
    chk.sample({"formula": meta[0][0], "assignment": meta[0][1], "completion": meta[0][2], "value": meta[0][3]})
    chk.sample({"formula": meta[-1][0], "assignment": meta[-1][1], "completion": meta[-1][2], "value": meta[-1][3]})

    # ---------------- run the model -------------------------------------------------------------
    files = []
    shard = 150
    pre = S.PREAMBLE.replace("From PySMT.models Require Import TypeChecker Oracles Ctors Simplifier.",
                             "From PySMT.models Require Import TypeChecker Oracles Ctors Simplifier Substituter EagerModel.")
    for k in range(0, len(rows), shard):
        text = pre + "Definition cases : list (%s) := [\n%s\n].\n" % (CASE_T, ";\n".join(rows[k:k + shard])) + OK_DEF + "\nEval vm_compute in mismatches ok cases.\n"
        p = os.path.join(chk.dir, "cases_c02_%d.v" % (k // shard))
        with open(p, "w") as fh:
            fh.write(text)
        files.append((p, k, len(rows[k:k + shard])))
    from . import termcases
    bad, errs = termcases.run(files)
    stats.update({"cases": len(rows), "disagreements": len(bad), "case_file_errors": len(errs), "examples": [meta[j] for j in bad[:5]]})
    chk.cov["correspondence"] = stats
    for j in bad[:5]:
        chk.note("model/implementation disagree on %s" % (meta[j],))
    for e in errs[:2]:
        chk.note("case file error: " + e["error"][-400:])
    if (not ok or bad or errs) and not chk.violations:
        what = []
        if not ok:
            what.append("proof obligations no longer check: " + lib.proof_failure_summary(chk))
        if bad or errs:
            what.append("correspondence models/EagerModel.v <-> EagerModel.get_value / Model.satisfies differs, e.g. %s" % [meta[j] for j in bad[:2]])
        chk.violation({"kind": "obligation", "theorem_or_correspondence": what}, found_input=False)
    return chk.finish(TRUSTED, ASSUME,
                      "random quantifier-free UF-free formulas of every sort x {total, partial, empty} assignments x completion on/off; "
                      "every BV operator on every operand value at widths 1..3 (quick) / 1..5 (thorough); distinct = distinct (formula, assignment, completion)")


def replay(path):
    import json
    print(json.dumps(json.load(open(path)), indent=1))
    return run("quick")
