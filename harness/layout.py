"""Layout sweep shared by C08 and C09: the meaning of a text must not depend on WHERE in the
character stream its tokens lie.  A token with internal structure is slid across every offset
B-24 .. B+24 of the power-of-two offsets B below (the block edges of any plausible buffered reader) by
a filler in front of it (a comment for script texts, a long String constant for printed formulas);
one text carries one copy of the token per B, so a parse covers all eight edges at once."""
import io
import os
import tempfile
import warnings

from pysmt.environment import Environment
from pysmt.fnode import FNode
from pysmt.smtlib.parser import SmtLibParser

from . import tocoq

BOUNDS = (1024, 2048, 4096, 8192, 16384, 32768, 65536, 131072)
OFFSETS = tuple(range(-24, 25))

HEADER = ("(set-logic QF_SLIA)\n(declare-fun s () String)\n(declare-fun p () Bool)\n(declare-fun q () Bool)\n"
          "(declare-fun |p q\nr| () Bool)\n(declare-fun i () Int)\n")
HEADER_NOLOGIC = ("(declare-fun s () String)\n(declare-fun p () Bool)\n(declare-fun q () Bool)\n"
                  "(declare-fun r () Real)\n(declare-fun v () (_ BitVec 16))\n(declare-fun w () (_ BitVec 8))\n(declare-fun i () Int)\n")

# kind -> (header, command template with %d = copy number, marker template: the token that is slid)
TEXT_KINDS = {
    "string-escaped-quotes": (HEADER, '(assert (= s "%dhe said ""hi"""))', '"%dhe said'),
    "string-only-quotes": (HEADER, '(assert (distinct s "%d" """" """""" "a""""b"))', '""""'),
    "quoted-symbol": (HEADER, '(assert (or |p q\nr| (= s "%d")))', '|p q'),
    "comment": (HEADER, '; a (comment "with| every ) delimiter %d\n(assert (=> p q))', '; a (comment'),
    "comment-then-token": (HEADER, '(assert (and p ; trailing "comment| %d\n q))', '; trailing'),
    "numeral": (HEADER, '(assert (> i 12345678901234567890%d))', '1234567890'),
    "decimal": (HEADER_NOLOGIC, '(assert (> r 1234.56789%d))', '1234.5'),
    "binary": (HEADER_NOLOGIC, '(assert (= v #b1011000011110%s))', '#b1011', lambda k: format(k, "03b")),
    "hexadecimal": (HEADER_NOLOGIC, '(assert (= v #xBEE%d))', '#xBEE'),
    "indexed-literal": (HEADER_NOLOGIC, '(assert (= w (bvadd (_ bv7 8) (_ bv%d 8))))', '(_ bv7 8)'),
    "keyword": (HEADER, '(assert (! (or p q) :named n%d))', ':named'),
    "parentheses": (HEADER, '(assert (and (or p q)(or q p)(=> p (and q (or p (not q))))(= s "%d")))', ')(or q p)'),
    "crlf": (HEADER, '(assert p)\r\n(assert (= s "%d"))\r\n(assert q)', '\r\n'),
    "let-and-binder": (HEADER, '(assert (let ((p q) (q p)) (forall ((i Int)) (or p (> i %d)))))', '((p q)'),
}
for _k in range(len(BOUNDS)):
    assert _k < 10          # one digit per copy


def padded_text(kind, delta, filler="comment"):
    """(text, unpadded text, positions): copy k of the command has its marker at BOUNDS[k] + delta."""
    header, cmd_t, mark_t = TEXT_KINDS[kind][:3]
    enc = TEXT_KINDS[kind][3] if len(TEXT_KINDS[kind]) > 3 else (lambda k: k)
    cur, plain, pos = header, header, []
    for k, b in enumerate(BOUNDS):
        cmd = cmd_t % enc(k) if "%" in cmd_t else cmd_t
        mark = mark_t % enc(k) if "%" in mark_t else mark_t
        m = cmd.find(mark)
        assert m >= 0, (kind, cmd, mark)
        f = b + delta - len(cur) - m
        assert f >= 2, (kind, k, f)
        if filler == "comment":
            cur += ";" + "x" * (f - 2) + "\n"
        else:                                   # a command with a long string constant
            pre, post = '(assert (= s "', '"))\n'
            n = f - len(pre) - len(post)
            if n < 0:
                cur += ";" + "x" * (f - 2) + "\n"
            else:
                cur += pre + "y" * n + post
                plain += pre + "y" * n + post
        pos.append(len(cur) + m)
        cur += cmd + "\n"
        plain += cmd + "\n"
    return cur, plain, pos


def parse_text(text, stream="stringio"):
    env = Environment()
    with warnings.catch_warnings():
        warnings.simplefilter("ignore")
        if stream == "stringio":
            return SmtLibParser(env).get_script(io.StringIO(text))
        if stream == "interactive":
            return SmtLibParser(env, interactive=True).get_script(io.StringIO(text))
        fd, path = tempfile.mkstemp(suffix=".smt2", dir=os.environ.get("TMPDIR", "/tmp"))
        try:
            with os.fdopen(fd, "w", newline="") as fh:
                fh.write(text)
            with open(path, "r", newline="") as fh:          # text mode, no newline translation
                return SmtLibParser(env).get_script(fh)
        finally:
            os.remove(path)


def commands_key(script):
    def k(a):
        if isinstance(a, FNode):
            return ("T", str(tocoq.skey(a)))
        if isinstance(a, (list, tuple)):
            return ("L",) + tuple(k(x) for x in a)
        return ("V", str(a))
    return [(c.name,) + tuple(k(a) for a in c.args) for c in script.commands]


def sweep_texts(tier, kinds=None):
    """(kind, delta, stream, filler) of the parses of one run."""
    out = []
    kinds = kinds or list(TEXT_KINDS)
    wide = ("string-escaped-quotes", "string-only-quotes", "quoted-symbol", "comment", "comment-then-token", "crlf")
    for kind in kinds:
        for d in (OFFSETS if tier != "quick" or kind in wide else range(-8, 9)):
            out.append((kind, d, "stringio", "comment"))
        for d in (-1, 0, 1):
            out.append((kind, d, "file", "comment"))
            out.append((kind, d, "interactive", "comment"))
            out.append((kind, d, "stringio", "string"))
    if tier != "quick":
        for kind in kinds:
            for d in OFFSETS:
                out.append((kind, d, "file", "comment"))
                out.append((kind, d, "stringio", "string"))
    return out


def run_text_sweep(chk, tier, stats, kinds=None):
    """C08/C09: parse(padded text) must be the command list of parse(unpadded text)."""
    expected = {}
    n = bad = 0
    for kind, d, stream, filler in sweep_texts(tier, kinds):
        text, plain, pos = padded_text(kind, d, filler)
        kk = (kind, filler, plain if filler == "string" else "")
        if kk not in expected:
            try:
                expected[kk] = commands_key(parse_text(plain))
            except Exception as ex:  # noqa
                expected[kk] = ("error", type(ex).__name__)
        n += 1
        try:
            got = commands_key(parse_text(text, stream))
        except RecursionError:
            continue
        except Exception as ex:  # noqa
            got = ("error", type(ex).__name__)
        if got != expected[kk]:
            bad += 1
            first = None
            if isinstance(got, list) and isinstance(expected[kk], list):
                for j, (a, b) in enumerate(zip(got, expected[kk])):
                    if a != b:
                        first = (j, str(a)[:300], str(b)[:300])
                        break
            # which copy / block edge
            chk.violation({"kind": "input", "what": "the reading of a text depends on where its tokens lie in the character stream",
                           "token_kind": kind, "offset_of_token_start_relative_to_each_edge": d, "edges": list(BOUNDS),
                           "token_positions": pos, "stream": stream, "filler": filler,
                           "first_difference(command, got, expected)": first, "got_if_error": got if not isinstance(got, list) else None,
                           "repro": "harness.layout.padded_text(%r, %d, %r)[0]  # %d characters" % (kind, d, filler, len(text)),
                           "text_around_first_edges": [text[max(0, p - 30):p + 40] for p in pos[:4]]},
                          key="layout:%s:%s" % (kind, stream))
    stats["layout_text_parses"] = n
    stats["layout_text_differences"] = bad
