"""./check <property> [--tier quick|thorough] [--replay file]"""
import argparse
import importlib
import os
import sys


def main():
    ap = argparse.ArgumentParser()
    ap.add_argument("prop")
    ap.add_argument("--tier", default=os.environ.get("VERIF_TIER", "quick"), choices=["quick", "thorough"])
    ap.add_argument("--replay", default=None)
    a = ap.parse_args()
    if a.prop == "setup":
        from harness import setup
        sys.exit(setup.main())
    mod = importlib.import_module("harness.%s" % a.prop.lower())
    # two runs of the same property share build/<prop> (case files, replays): serialise them
    import fcntl
    from . import lib as _lib
    _lock = open(os.path.join(_lib.mkdir(os.path.join(_lib.BUILD, a.prop)), ".run.lock"), "w")
    fcntl.flock(_lock, fcntl.LOCK_EX)
    try:
        rc = mod.replay(a.replay) if a.replay else mod.run(a.tier)
    except SystemExit:
        raise
    except BaseException:   # fail closed: a check that cannot finish has not shown the property
        import json
        import traceback
        from . import lib
        tb = traceback.format_exc()
        print(tb, flush=True)
        d = lib.mkdir(os.path.join(lib.BUILD, a.prop))
        path = os.path.join(d, "replay_crash.json")
        with open(path, "w") as f:
            json.dump({"property": a.prop, "kind": "obligation",
                       "theorem_or_correspondence": "the check itself raised an exception while exercising the implementation "
                                                    "(the machinery could not complete, so nothing was shown)", "traceback": tb[-4000:]}, f, indent=1)
        print("VIOLATION property=%s replay=%s no-failing-input-found" % (a.prop, path), flush=True)
        rc = 1
    sys.exit(rc)


if __name__ == "__main__":
    main()
