"""./check <property> [--tier quick|thorough] [--replay file]"""
import argparse
import importlib
import os
import sys


def main():
    ap = argparse.ArgumentParser()
    ap.add_argument("prop")
    ap.add_argument("--tier", default=os.environ.get("VERIF_TIER", "quick"), choices=["quick", "thorough"])
    ap.add_argument("--replay", default=None)
    a = ap.parse_args()
    if a.prop == "setup":
        from harness import setup
        sys.exit(setup.main())
    mod = importlib.import_module("harness.%s" % a.prop.lower())
    if a.replay:
        sys.exit(mod.replay(a.replay))
    sys.exit(mod.run(a.tier))


if __name__ == "__main__":
    main()
