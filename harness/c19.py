"""C19 - Portfolio answer is independent of the race and never blocks forever.

Proof: coq/props/C19.v over the protocol model coq/models/Portfolio.v (all configurations, all
schedules).  Correspondence: the real pysmt.solvers.portfolio.Portfolio is run with harness
member solvers (registered in the factory of the process-global environment) whose delay and
failure mode are set per member; every scenario runs in its own process group under a
watchdog; each solve round's observed outcome must be one the Coq model can produce for that
round's configuration (exhaustive exploration of the model's schedules by vm_compute, with
the witness schedule re-run through `run`).  Property-level oracle, independent of the model:
verdict by brute force on the scenario's own formula representation, returned models and
values evaluated on the assertions, hang = violation.

This module is also the scenario worker:  python -m harness.c19 --worker  (scenario on stdin).
"""
import itertools
import json
import os
import random
import signal
import subprocess
import sys
import time

from . import lib

TRUSTED = [
    "Coq 8.16.1 kernel; vm_compute for the examples/witnesses in proofs and for the per-configuration exploration of the model in the case files; no native_compute",
    "hand model models/Portfolio.v of pysmt/solvers/portfolio.py (parent _solve / get_model / get_value / _close_existing, child _run_solver, FIFO queue, the single shared control pipe), tied by correspondence (this run's counts below)",
    "the exploration function `explore` of models/Portfolio.v is not proved complete; every outcome it reports is re-validated in the case file by running its witness schedule through `run` (so reported outcomes are genuine model outcomes); an incomplete exploration could only make the check stricter",
    "models/TrackSolver.v (the IncrementalTrackingSolver bookkeeping model of C16, reused for Portfolio's assertion stack: Portfolio decorates _add_assertion/_push/_pop/_solve with clear_pending_pop like the modelled subclass), tied to Portfolio by comparing _assertion_stack/_backtrack_points/pending_pop after every command of each history",
    "harness member solvers (brute-force Bool/BV2 solvers with configurable delay and failure mode) and the scenario worker in harness/c19.py; the brute-force oracle on the scenario's JSON formulas",
    "CPython multiprocessing (fork start method), pipes, signals: outside the model",
]

ASSUMPTIONS = [
    "level is partial by nature: the theorems quantify over all interleavings of the MODELLED events (child put / recv / reply, parent queue pop, each terminate() call, each kill taking effect, each query send/receive); they cannot exhibit OS scheduling, SIGTERM delivery latency, or corruption of the multiprocessing Queue / Connection byte streams when a process is terminated in the middle of a write or two processes read the same Connection concurrently",
    "model_from_winner and no_stuck_state assume latency=false (a process with a pending default-action SIGTERM performs no further action), which is what Linux does; with latency=true the model has a reachable deadlock and a loser can serve the query (theorems no_stuck_state_latency_refuted, responder_not_winner_under_latency): a consequence of all children sharing ONE control pipe, not reproduced on the implementation",
    "the model is the protocol as repaired by build/fixes/C19_all_fail_raise.diff + C19_silent_death.diff (failure counter and liveness poll in _solve); on a tree without the repair the all-members-fail scenarios hang and are reported",
    "the liveness poll is modelled as one atomic event (queue empty and no member process alive); the implementation evaluates is_alive() BEFORE the timed get(), and a process that is no longer alive has flushed its queue message, so the two observations together imply the atomic condition",
    "the model has no clock: its `the survivor serves requests until it is told to exit` is compared with the implementation across caller idle gaps of 2, 12 and 35.5 s (quick) and 65.5 and 130.5 s (thorough), between solve and the first query and between two queries; idle gaps above the largest tested one are not exercised",
    "one model run = one _solve round plus the queries of that round; rounds of a repeated solve use fresh channels and are modelled independently (the stale _ext_solver kept across a raising solve is not modelled; get_model after an unsat or raising solve is API misuse and not exercised)",
    "exit_on_exception=True makes the first exception win by design: failures_ignored is stated for exit_on_exception=False, and an error from a member that really raised is accepted when the option is on",
    "command histories are legal (never pop more levels than are open) and use no reset_assertions (Portfolio._reset_assertions is not decorated, unlike the TrackSolver model); solve(assumptions) takes any Boolean formulas: Portfolio._solve conjoins them into the formula of the round WITHOUT opening a level, so for the bookkeeping its model command is SSolve None (TrackSolver's `SSolve (Some f)` is the native wrappers' push-assert-pending_pop scheme, which Portfolio does not use); the round itself is judged on assertions + assumptions",
    "container forms: a set / frozenset of solvers can only hold plain solver names, so for these forms each member is registered in the factory under its own name with its parameters as class defaults (for the ordered forms the (name, options) pairs are used); Portfolio([]) is expected to report InternalSolverError (model: ONoAnswer for the empty member list)",
    "members agree on the verdict (hypothesis of verdict_agreed); a member that answers wrongly is outside the property",
    "Queue.put is modelled as atomic with the child's move to the control loop (the feeder thread's delay only postpones a message that no longer matters once a winner exists)",
    "an exception object that cannot be unpickled in the parent (constructor with required arguments) is not modelled and not exercised",
]

RULE = ("scenarios: every assignment of {answer, raise|unknown, silent exit} to 2 and 3 members x exit_on_exception, sampled 4-member "
        "assignments, completion-order / near-tie timing variants of the answering members, early failures with a single answering member 0.3-0.6 s later (several liveness-poll periods), repeated solve / get_model / get_value / "
        "push-pop cycles; command histories (3 solve(assumptions) probes + 27 directed: is_sat|is_valid|is_unsat inside open levels x 5 level "
        "shapes with pop(1..2) right after the query x with/without get_model/get_value in between, then a contradicting assertion and "
        "solve; + 60 quick / 500 thorough random legal histories of 6-10 commands) on 2-3 member portfolios, mirrored on a reference "
        "frame stack (verdicts by truth table, models by evaluation, `assertions` read once at the end) and compared step by step with "
        "models/TrackSolver.v; argument container protocol (tag container: the 8 forms list/tuple/set/frozenset/generator/map/filter/iterator "
        "for Portfolio(solvers_set=...) with 2 and 3 members and with a failing member (22 quick / 24 thorough) + the empty solvers_set (2); "
        "8 forms x 2 member counts = 16 histories that pass the same content, and the empty container, to solve(assumptions=), "
        "add_assertions() and get_values(); random histories draw a random form for each such call); "
        "idle-gap scenarios (tag idle: per gap one scenario with the gap after solve and one with the gap between get_model and get_value, "
        "2-3 members, started first and collected last: 6 quick / 10 thorough); "
        "distinct = distinct (round configuration, observed outcome)")

WATCHDOG = float(os.environ.get("VERIF_C19_WATCHDOG", "12"))
BVW = 2
BOOLS = ["p", "q", "r"]
BVS = ["x", "y"]
WHO = "who__"

# ----------------------------------------------------------------------------
# scenario formulas: JSON terms, with an evaluator that does not use pysmt
# ----------------------------------------------------------------------------


def jeval(t, asg):
    op = t[0]
    if op == "var" or op == "bvvar":
        return asg[t[1]]
    if op == "true":
        return True
    if op == "false":
        return False
    if op == "bvconst":
        return t[1] % (1 << BVW)
    if op == "not":
        return not jeval(t[1], asg)
    if op == "and":
        return jeval(t[1], asg) and jeval(t[2], asg)
    if op == "or":
        return jeval(t[1], asg) or jeval(t[2], asg)
    if op == "iff" or op == "bveq":
        return jeval(t[1], asg) == jeval(t[2], asg)
    if op == "bvult":
        return jeval(t[1], asg) < jeval(t[2], asg)
    if op == "bvadd":
        return (jeval(t[1], asg) + jeval(t[2], asg)) % (1 << BVW)
    raise ValueError(op)


def jstr(t):
    op = t[0]
    if op in ("var", "bvvar"):
        return t[1]
    if op == "bvconst":
        return "#%d" % t[1]
    if op in ("true", "false"):
        return op
    if op == "not":
        return "!%s" % jstr(t[1])
    sym = {"and": "&", "or": "|", "iff": "<->", "bveq": "=", "bvult": "<u", "bvadd": "+"}[op]
    return "(%s %s %s)" % (jstr(t[1]), sym, jstr(t[2]))


def jvars(t, acc=None):
    acc = set() if acc is None else acc
    if t[0] in ("var", "bvvar"):
        acc.add((t[1], t[0] == "bvvar"))
    else:
        for a in t[1:]:
            if isinstance(a, list):
                jvars(a, acc)
    return acc


def all_assignments(names):
    names = sorted(names)
    doms = [range(1 << BVW) if isbv else (False, True) for (_, isbv) in names]
    for vals in itertools.product(*doms):
        yield {n: v for (n, _), v in zip(names, vals)}


def brute_sat(assertions):
    vs = set()
    for a in assertions:
        jvars(a, vs)
    for asg in all_assignments(vs):
        if all(jeval(a, asg) for a in assertions):
            return True
    return False


def to_pysmt(t):
    from pysmt.shortcuts import Symbol, And, Or, Not, Iff, Equals, BVULT, BVAdd, BV, TRUE, FALSE
    from pysmt.typing import BOOL, BVType
    op = t[0]
    if op == "var":
        return Symbol(t[1], BOOL)
    if op == "bvvar":
        return Symbol(t[1], BVType(BVW))
    if op == "true":
        return TRUE()
    if op == "false":
        return FALSE()
    if op == "bvconst":
        return BV(t[1] % (1 << BVW), BVW)
    a = [to_pysmt(x) for x in t[1:]]
    return {"not": Not, "and": And, "or": Or, "iff": Iff, "bveq": Equals, "bvult": BVULT, "bvadd": BVAdd}[op](*a)


# ----------------------------------------------------------------------------
# harness member solver (runs inside the member processes forked by Portfolio)
# ----------------------------------------------------------------------------

def _fnode_eval(f, asg):
    if f.is_symbol():
        return asg[f.symbol_name()]
    if f.is_bool_constant():
        return f.constant_value()
    if f.is_bv_constant():
        return f.constant_value()
    a = f.args()
    if f.is_and():
        return all(_fnode_eval(x, asg) for x in a)
    if f.is_or():
        return any(_fnode_eval(x, asg) for x in a)
    if f.is_not():
        return not _fnode_eval(a[0], asg)
    if f.is_iff() or f.is_equals():
        return _fnode_eval(a[0], asg) == _fnode_eval(a[1], asg)
    if f.is_implies():
        return (not _fnode_eval(a[0], asg)) or _fnode_eval(a[1], asg)
    if f.is_ite():
        return _fnode_eval(a[1], asg) if _fnode_eval(a[0], asg) else _fnode_eval(a[2], asg)
    if f.is_bv_ult():
        return _fnode_eval(a[0], asg) < _fnode_eval(a[1], asg)
    if f.is_bv_add():
        return (_fnode_eval(a[0], asg) + _fnode_eval(a[1], asg)) % (1 << f.bv_width())
    if f.is_bv_concat():
        return (_fnode_eval(a[0], asg) << a[1].bv_width()) | _fnode_eval(a[1], asg)
    raise NotImplementedError(str(f))


def _make_member_classes():
    """Defined lazily so that importing this module does not import pysmt."""
    from pysmt.solvers.solver import Solver, SolverOptions
    from pysmt.solvers.eager import EagerModel
    from pysmt.exceptions import SolverReturnedUnknownResultError
    from pysmt.logics import QF_BV

    class HOptions(SolverOptions):
        def __init__(self, **base_options):
            SolverOptions.__init__(self, **base_options)
            so = self.solver_options
            self.mode = so.get("mode", "answer")
            self.delay_ms = so.get("delay_ms", 0)
            self.idx = so.get("idx", 0)

        def __call__(self, solver):
            pass

    class HSolver(Solver):
        LOGICS = [QF_BV]
        OptionsClass = HOptions

        def __init__(self, environment, logic, **options):
            Solver.__init__(self, environment, logic, **options)
            self.fs = []
            self.asg = None
            if self.options.mode == "ctor_raise":
                raise RuntimeError("member:%d constructor" % self.options.idx)

        def add_assertion(self, formula, named=None):
            if self.options.mode == "assert_raise":
                raise RuntimeError("member:%d add_assertion" % self.options.idx)
            self.fs.append(formula)

        def solve(self, assumptions=None):
            o = self.options
            time.sleep(o.delay_ms / 1000.0)
            if o.mode == "raise":
                raise RuntimeError("member:%d" % o.idx)
            if o.mode == "unknown":
                raise SolverReturnedUnknownResultError("member:%d" % o.idx)
            if o.mode == "exit":
                os._exit(0)
            if o.mode == "sysexit":
                raise SystemExit(0)
            if o.mode == "answer_graceful":
                # a member that handles SIGTERM itself and needs a moment to shut down: the
                # implementation-side counterpart of the model's latency=true
                def _on_term(signum, frame):
                    signal.signal(signal.SIGTERM, signal.SIG_DFL)
                    signal.setitimer(signal.ITIMER_REAL, 0.6)    # SIGALRM: default action kills
                signal.signal(signal.SIGTERM, _on_term)
            syms = set()
            for f in self.fs:
                syms |= set(f.get_free_variables())
            syms = sorted(syms, key=lambda s: s.symbol_name())
            doms = [range(1 << s.symbol_type().width) if s.symbol_type().is_bv_type() else (False, True) for s in syms]
            sats = []
            for vals in itertools.product(*doms):
                asg = {s.symbol_name(): v for s, v in zip(syms, vals)}
                if all(_fnode_eval(f, asg) for f in self.fs):
                    sats.append(asg)
            if not sats:
                self.asg = None
                return False
            # members deliberately return DIFFERENT models, so that replies of different
            # members cannot be mixed unnoticed
            self.asg = dict(sats[(o.idx * 7 + 3) % len(sats)])
            self.asg[WHO] = o.idx
            self.syms = syms
            return True

        def _const(self, sym, v):
            mgr = self.environment.formula_manager
            if sym.symbol_type().is_bv_type():
                return mgr.BV(v, sym.symbol_type().width)
            return mgr.Bool(v)

        def get_model(self):
            from pysmt.typing import BVType
            mgr = self.environment.formula_manager
            d = {s: self._const(s, self.asg[s.symbol_name()]) for s in self.syms}
            w = mgr.Symbol(WHO, BVType(8))
            d[w] = mgr.BV(self.options.idx, 8)
            return EagerModel(d, self.environment)

        def get_value(self, expr):
            mgr = self.environment.formula_manager
            asg = dict(self.asg)
            for s in expr.get_free_variables():
                if s.symbol_name() not in asg:
                    asg[s.symbol_name()] = 0 if s.symbol_type().is_bv_type() else False
            v = _fnode_eval(expr, asg)
            if expr.get_type().is_bv_type():
                return mgr.BV(v, expr.bv_width())
            return mgr.Bool(v)

        def _exit(self):
            pass

    return HSolver


# ----------------------------------------------------------------------------
# scenario worker (one process per scenario; killed by the driver's watchdog on a hang)
# ----------------------------------------------------------------------------

SOLVELIKE = ("solve", "is_sat", "is_valid", "is_unsat", "solve_assuming")
# the ways an Iterable argument is handed to the API (same content; results must not depend on it)
FORMS = ("list", "tuple", "set", "frozenset", "gen", "map", "filter", "iter")
UNORDERED = ("set", "frozenset")


def mk_container(form, items):
    items = list(items)
    if form == "list":
        return items
    if form == "tuple":
        return tuple(items)
    if form == "set":
        return set(items)
    if form == "frozenset":
        return frozenset(items)
    if form == "gen":
        return (x for x in items)
    if form == "map":
        return map(lambda x: x, items)
    if form == "filter":
        return filter(lambda x: True, items)
    if form == "iter":
        return iter(items)
    raise ValueError(form)


def _emit(ev):
    sys.stdout.write(json.dumps(ev) + "\n")
    sys.stdout.flush()


def worker(sc):
    import multiprocessing
    from pysmt.environment import get_env
    from pysmt.logics import QF_BV
    from pysmt.solvers.portfolio import Portfolio
    from pysmt.shortcuts import Symbol, BVConcat, Ite, BV
    from pysmt.typing import BOOL, BVType
    try:
        devnull = os.open(os.devnull, os.O_WRONLY)
        os.dup2(devnull, 2)      # tracebacks of dying member processes
    except OSError:
        pass
    env = get_env()               # the member processes use get_env() of the forked image
    HS = _make_member_classes()
    env.factory._all_solvers["hmember"] = HS
    sset = []
    sform = sc.get("sset_form", "list")
    for i, m in enumerate(sc["members"]):
        if sform in UNORDERED:
            # a set can only hold plain names: one registered class per member, whose options
            # class supplies the member's parameters
            def _opt_cls(base, mm, ii):
                class O(base):
                    def __init__(self, **kw):
                        base.__init__(self, **kw)
                        self.mode, self.delay_ms, self.idx = mm["mode"], mm["delay_ms"], ii
                return O
            env.factory._all_solvers["hm%d" % i] = type("HS%d" % i, (HS,), {"OptionsClass": _opt_cls(HS.OptionsClass, m, i)})
            sset.append("hm%d" % i)
        else:
            sset.append(("hmember", {"solver_options": {"mode": m["mode"], "delay_ms": m["delay_ms"], "idx": i}}))
    opts = {}
    if sc.get("eoe") is not None:
        opts["solver_options"] = {"exit_on_exception": bool(sc["eoe"])}
    p = Portfolio(mk_container(sform, sset), environment=env, logic=QF_BV, **opts)

    def winner_idx():
        if p._ext_solver is None:
            return None
        num, name = p._ext_solver.name.split(" ", 1)
        name = name.strip("()")
        return int(name[2:]) if name.startswith("hm") and name[2:].isdigit() else int(num)
    who = Symbol(WHO, BVType(8))
    seen_children = []
    last_sat = False
    ftab = {}                     # FNode -> index (hash-consing makes equal formulas one object)

    def fidx(f):
        return ftab.setdefault(f, len(ftab))

    def raw():
        # the bookkeeping attributes themselves: reading the `assertions` PROPERTY would clear a
        # pending pop and so change the history
        return [[ftab.get(a, 9999) for a in p._assertion_stack], list(p._backtrack_points), bool(p.pending_pop)]

    def emit_end(ev):
        if sc.get("raw"):
            ev["raw"] = raw()
        _emit(ev)
    for k, op in enumerate(sc["ops"]):
        _emit({"begin": k, "op": op[0]})
        kind = op[0]
        if kind == "sleep":
            pass
        elif kind in ("get_model", "get_value", "get_values") and not last_sat:
            _emit({"end": k, "skipped": True})   # a query after a failed / unsat solve is API misuse
            continue
        try:
            if kind == "add":
                f = to_pysmt(op[1])
                i = fidx(f)
                p.add_assertion(f)
                emit_end({"end": k, "fidx": i})
            elif kind == "push":
                p.push(*op[1:2])
                emit_end({"end": k})
            elif kind == "pop":
                p.pop(*op[1:2])
                emit_end({"end": k})
            elif kind == "sleep":             # the CALLER is idle: nothing is sent to the members
                time.sleep(op[1])
                _emit({"end": k})
            elif kind == "add_many":
                fs = [to_pysmt(a) for a in op[1]]
                idxs = [fidx(f) for f in fs]
                # a pending pop (left by a one-shot query) is cleared by the first add_assertion
                was_pending = p.pending_pop
                before = p._backtrack_points[-1] if was_pending else len(p._assertion_stack)
                p.add_assertions(mk_container(op[2], fs))
                if was_pending and p.pending_pop:
                    added = []            # no add_assertion was made at all
                else:
                    added = [ftab.get(a, 9999) for a in p._assertion_stack[before:]]
                emit_end({"end": k, "fidxs": idxs, "added": added})
            elif kind == "get_values":
                exprs, meta = [], {}
                for (name, isbv) in op[1]:
                    if isbv:
                        e = BVConcat(who, Symbol(name, BVType(BVW)))
                    else:
                        e = BVConcat(who, Ite(Symbol(name, BOOL), BV(1, 1), BV(0, 1)))
                    exprs.append(e)
                    meta[e] = (name, isbv, BVW if isbv else 1)
                res = p.get_values(mk_container(op[2], exprs))
                got = []
                for e, v in res.items():
                    name, isbv, width = meta[e]
                    v = v.constant_value()
                    val = v & ((1 << width) - 1)
                    got.append({"var": name, "who": v >> width, "val": val if isbv else bool(val)})
                _emit({"end": k, "values": got})
            elif kind == "assertions":
                emit_end({"end": k, "assertions": [ftab.get(a, 9999) for a in p.assertions],
                          "text": [str(a) for a in p.assertions]})
            elif kind in SOLVELIKE:
                last_sat = False
                try:
                    if kind == "solve":
                        api = r = p.solve()
                        extra = {}
                    elif kind == "solve_assuming":   # op[1] = list of assumptions (any Boolean formulas)
                        api = r = p.solve(mk_container(op[2] if len(op) > 2 else "list", [to_pysmt(a) for a in op[1]]))
                        extra = {}
                    else:
                        f = to_pysmt(op[1])
                        extra = {"fidx": fidx(f)}
                        if kind == "is_valid":
                            extra["nidx"] = fidx(env.formula_manager.Not(f))
                        api = getattr(p, kind)(f)
                        r = api if kind == "is_sat" else ((not api) if isinstance(api, bool) else api)
                    last_sat = r is True
                    w = winner_idx()
                    ev = {"end": k, "res": r if isinstance(r, bool) else repr(r), "api": api if isinstance(api, bool) else repr(api),
                          "winner": int(w) if w is not None else None}
                    ev.update(extra)
                    emit_end(ev)
                except Exception as ex:
                    msg = str(ex)
                    mem = int(msg.split(":")[1].split()[0]) if msg.startswith("member:") else None
                    _emit({"end": k, "err": type(ex).__name__, "member": mem})
                finally:
                    for c in multiprocessing.active_children():   # also after a raising solve
                        if c not in seen_children:
                            seen_children.append(c)
            elif kind == "get_model":
                m = p.get_model()
                d = {}
                for kk, vv in m:
                    d[kk.symbol_name()] = vv.constant_value()
                _emit({"end": k, "who": d.pop(WHO, None), "model": d})
            elif kind == "get_value":
                name, isbv = op[1], op[2]
                if isbv:
                    e = BVConcat(who, Symbol(name, BVType(BVW)))
                    width = BVW
                else:
                    e = BVConcat(who, Ite(Symbol(name, BOOL), BV(1, 1), BV(0, 1)))
                    width = 1
                v = p.get_value(e).constant_value()
                val = v & ((1 << width) - 1)
                _emit({"end": k, "who": v >> width, "var": name, "val": val if isbv else bool(val)})
            else:
                raise ValueError(kind)
        except Exception as ex:   # an exception of a query itself is an observation too
            _emit({"end": k, "exc": "%s: %s" % (type(ex).__name__, ex)})
    _emit({"begin": len(sc["ops"]), "op": "exit"})
    exit_exc = None
    try:
        p.exit()
    except Exception as ex:
        exit_exc = "%s: %s" % (type(ex).__name__, ex)
    t0 = time.time()
    alive = list(seen_children)
    while time.time() - t0 < 1.5:
        alive = [c for c in seen_children if c.is_alive()]
        if not alive:
            break
        time.sleep(0.02)
    leaked = sorted(c.name for c in alive)
    for c in alive:
        try:
            c.kill()
        except Exception:
            pass
    ev = {"end": len(sc["ops"]), "leaked": leaked}
    if exit_exc:
        ev["exc"] = exit_exc
    _emit(ev)
    return 0


def run_scenario(sc, timeout=None):
    """Runs one scenario in its own process group under the watchdog.
    Returns (events, hung: bool)."""
    timeout = timeout or (WATCHDOG + sc.get("sleep_total", 0))
    env = dict(os.environ)
    env["PYTHONPATH"] = "%s:%s" % (lib.REPO, lib.VERIF)
    env["PYTHONHASHSEED"] = "0"
    proc = subprocess.Popen([sys.executable, "-m", "harness.c19", "--worker"], stdin=subprocess.PIPE,
                            stdout=subprocess.PIPE, stderr=subprocess.DEVNULL, text=True, cwd=lib.VERIF,
                            env=env, start_new_session=True)
    hung = False
    try:
        out, _ = proc.communicate(json.dumps(sc), timeout=timeout)
    except subprocess.TimeoutExpired:
        hung = True
        try:
            os.killpg(proc.pid, signal.SIGKILL)
        except OSError:
            pass
        out, _ = proc.communicate()
    finally:
        try:
            os.killpg(proc.pid, signal.SIGKILL)   # member processes that were leaked
        except OSError:
            pass
    evs = []
    for line in (out or "").splitlines():
        try:
            evs.append(json.loads(line))
        except ValueError:
            pass
    return evs, hung, proc.returncode


# ----------------------------------------------------------------------------
# interpretation of a scenario's events: rounds, observed outcomes, property oracle
# ----------------------------------------------------------------------------

SILENT = ("exit", "sysexit", "ctor_raise", "assert_raise")


ANSWERING = ("answer", "answer_graceful")


def beh_of(mode, verdict):
    if mode in ANSWERING:
        return "BAns %s" % lib.coq_bool(verdict)
    if mode == "raise":
        return "BRaise"
    if mode == "unknown":
        return "BUnknown"
    return "BExit"


def analyse(sc, evs, hung, rc):
    """Splits the event list into solve rounds.  Returns (rounds, problems) where a round is
    {cfg: (behs, eoe, script), observed: coq outcome string, ...} and problems are
    property-level violations [(key, what)]."""
    ends = {e["end"]: e for e in evs if "end" in e}
    begun = [e["begin"] for e in evs if "begin" in e]
    ops = sc["ops"]
    modes = [m["mode"] for m in sc["members"]]
    eoe = bool(sc.get("eoe"))
    problems = []
    rounds = []
    stack = [[]]
    fidxs = {}
    cur = None

    def flush_round(final_ok=True):
        nonlocal cur
        if cur is None:
            return
        r = cur
        cur = None
        script = r["script"]
        behs = [beh_of(m, r["verdict"]) for m in modes]
        if r["state"] == "hang_solve":
            obs = "OBlockedSolve"
        elif r["state"] == "error":
            obs = "(OError %d)" % r["member"] if r["member"] is not None else ("ONoAnswer" if r.get("noanswer") else None)
        elif r["state"] == "hang_query":
            obs = "(OBlockedQuery %s %d %s)" % (lib.coq_bool(r["res"]), r["winner"], lib.coq_list([str(x) for x in r["resp"]]))
            script = script[:len(r["resp"]) + 1]
        elif r["state"] == "returned":
            if not final_ok:
                return            # the run was cut before the round was closed: not an observation of the round
            obs = "(OVerdict %s %d %s)" % (lib.coq_bool(r["res"]), r["winner"], lib.coq_list([str(x) for x in r["resp"]]))
        else:
            obs = None
        rounds.append({"behs": behs, "eoe": eoe, "script": script, "observed": obs, "detail": r,
                       "latency": "answer_graceful" in modes})

    k = 0
    n_ops = len(ops)
    while k < n_ops:
        op = ops[k]
        kind = op[0]
        if k not in begun:
            problems.append(("worker-stopped", "the scenario worker stopped before operation %d" % k))
            flush_round(final_ok=False)
            break
        e = ends.get(k)
        if kind == "sleep":
            if e is None:
                problems.append(("worker-stopped", "the scenario was cut during an idle gap of %s s" % op[1]))
                flush_round(final_ok=False)
                break
            k += 1
            continue
        if kind in ("add", "add_many", "push", "pop", "assertions") and e is not None and "exc" in e:
            problems.append(("command-exception", "%s raised %s" % (kind, e["exc"])))
            flush_round(final_ok=False)
            break
        if kind in ("add", "add_many", "push", "pop", "assertions") and e is None:
            problems.append(("hang-in-command", "%s blocked" % kind))
            flush_round(final_ok=False)
            break
        if kind == "add":
            stack[-1].append(op[1])
            fidxs[json.dumps(op[1])] = e.get("fidx")
        elif kind == "add_many":
            # same content whatever the container; a set may deliver it in any order
            byidx = dict(zip(e.get("fidxs", []), op[1]))
            for a, i in zip(op[1], e.get("fidxs", [])):
                fidxs[json.dumps(a)] = i
            added = e.get("added", [])
            same = sorted(added) == sorted(e.get("fidxs", [])) if op[2] in UNORDERED else added == e.get("fidxs", [])
            if not same:
                problems.append(("container-form", "add_assertions(<%s of %d formulas>) asserted %d of them (indexes %s, expected %s)"
                                 % (op[2], len(op[1]), len(added), added, e.get("fidxs"))))
                stack[-1].extend(op[1])
            else:
                stack[-1].extend(byidx[i] for i in added)
        elif kind == "push":
            for _ in range(op[1] if len(op) > 1 else 1):
                stack.append([])
        elif kind == "pop":
            for _ in range(op[1] if len(op) > 1 else 1):
                stack.pop()
        elif kind == "assertions":
            # what the next _solve would conjoin, against the reference frames
            ref = [a for lvl in stack for a in lvl]
            want = [fidxs.get(json.dumps(a)) for a in ref]
            if e.get("assertions") != want:
                problems.append(("assertions-differ", "after the history the portfolio's assertions are %s, the live assertions of the "
                                 "reference frame stack are %s" % (e.get("text"), [jstr(a) for a in ref])))
        elif kind in SOLVELIKE:
            flush_round()
            assertions = [a for lvl in stack for a in lvl]
            nlive = len(assertions)
            if kind == "is_valid":
                assertions = assertions + [["not", op[1]]]
            elif kind == "solve_assuming":
                assertions = assertions + list(op[1])
            elif kind != "solve":
                assertions = assertions + [op[1]]
            verdict = brute_sat(assertions)
            cur = {"verdict": verdict, "assertions": assertions, "script": [], "resp": [], "state": None, "op": k}
            answering = [i for i, m in enumerate(modes) if m in ANSWERING]
            raising = [i for i, m in enumerate(modes) if m in ("raise", "unknown")]
            if e is None:
                cur["state"] = "hang_solve"
                if answering:
                    problems.append(("hang-in-solve-with-answering-member", "solve blocked although members %s answer" % answering))
                elif eoe and raising:
                    problems.append(("hang-in-solve-eoe-with-raising-member", "solve blocked although exit_on_exception is on and members %s raise" % raising))
                elif len(raising) == len(modes):
                    problems.append(("all-members-raise:blocks", "every member raises / answers unknown and solve() blocks forever instead of reporting an error"))
                else:
                    problems.append(("all-members-fail-some-silently:blocks", "every member fails, at least one of them by dying without a message, and solve() blocks forever instead of reporting an error"))
                flush_round()
                break
            if "err" in e:
                cur["state"] = "error"
                cur["member"] = e.get("member")
                if e.get("member") is None and e["err"] == "InternalSolverError":
                    # "nobody is left": legitimate exactly when no member answers
                    cur["noanswer"] = True
                    if answering:
                        problems.append(("failure-changed-verdict", "solve raised InternalSolverError although members %s answer" % answering))
                elif e.get("member") is None or modes[e["member"]] not in ("raise", "unknown"):
                    problems.append(("error-not-from-member", "solve raised %s which no member raised" % e["err"]))
                elif answering and not eoe:
                    problems.append(("failure-changed-verdict", "solve raised member %d's exception although members %s answer and exit_on_exception is off" % (e["member"], answering)))
                # otherwise: exit_on_exception, or every member fails and the call reports an error
                exp = "SolverReturnedUnknownResultError" if e.get("member") is not None and modes[e["member"]] == "unknown" else "RuntimeError"
                if e.get("member") is not None and e["err"] != exp:
                    problems.append(("wrong-exception", "solve raised %s, member %d raised %s" % (e["err"], e["member"], exp)))
            elif "exc" in e:
                cur["state"] = "other"
                problems.append(("solve-exception", e["exc"]))
            else:
                cur["state"] = "returned"
                cur["res"] = e["res"]
                cur["winner"] = e["winner"]
                if e["res"] is not True and e["res"] is not False:
                    problems.append(("non-boolean-verdict", "solve returned %s" % e["res"]))
                    cur["state"] = "other"
                elif not answering:
                    problems.append(("verdict-from-nowhere", "solve returned %s although no member answers" % e["res"]))
                elif e["res"] != verdict and kind == "solve_assuming" and e["res"] == brute_sat(assertions[:nlive]):
                    problems.append(("solve-ignores-assumptions", "solve(assumptions=<%s> %s) returned %s, the verdict of the assertions %s "
                                     "WITHOUT the assumptions; with them they are %s" % (op[2] if len(op) > 2 else "list", [jstr(a) for a in assertions[nlive:]], e["res"],
                                                                                       [jstr(a) for a in assertions[:nlive]], "sat" if verdict else "unsat")))
                    cur["state"] = "other"
                elif e["res"] != verdict:
                    problems.append(("wrong-verdict", "%s returned %s, but the live assertions %s%s are %s"
                                     % (kind, e.get("api", e["res"]), [jstr(a) for a in assertions[:nlive]],
                                        "" if kind == "solve" else " with %s" % [jstr(a) for a in assertions[nlive:]], "sat" if verdict else "unsat")))
                if cur["state"] == "returned" and (e["winner"] is None or modes[e["winner"]] not in ANSWERING):
                    problems.append(("survivor-did-not-answer", "the member kept for queries (%s) did not answer" % e["winner"]))
                    cur["state"] = "other"
                cur["values"] = {}
        elif kind == "get_values":
            if cur is None or cur["state"] != "returned" or (e is not None and e.get("skipped")):
                k += 1
                continue
            if e is None:
                cur["script"].append("QValue")
                cur["state"] = "hang_query"
                problems.append(("hang-in-query", "get_values blocked after solve returned %s" % cur["res"]))
                flush_round()
                break
            if "exc" in e:
                problems.append(("query-exception", "get_values(<%s>) raised %s" % (op[2], e["exc"])))
                cur["state"] = "other"
            else:
                got = e["values"]
                cur["script"].extend(["QValue"] * len(got))
                cur["resp"].extend(g["who"] for g in got)
                want = sorted(n for (n, _) in op[1])
                if sorted(g["var"] for g in got) != want:
                    problems.append(("container-form", "get_values(<%s of %s>) returned values for %s" % (op[2], want, sorted(g["var"] for g in got))))
                vals = {g["var"]: g["val"] for g in got}
                need = set().union(*[jvars(a) for a in cur["assertions"]] or [set()])
                if need and all(nme in vals for (nme, _) in need) and not all(jeval(a, vals) for a in cur["assertions"]):
                    problems.append(("values-do-not-satisfy", "the values returned by get_values %s do not satisfy the assertions%s %s"
                                     % (vals, " and assumptions" if ops[cur["op"]][0] == "solve_assuming" else "", [jstr(a) for a in cur["assertions"]])))
        elif kind in ("get_model", "get_value"):
            if cur is None or cur["state"] != "returned":
                k += 1
                continue          # queries after a failed solve are not made (the generator does not emit them)
            if e is not None and e.get("skipped"):
                k += 1
                continue          # the worker does not query after an unsat / failed solve
            cur["script"].append("QModel" if kind == "get_model" else "QValue")
            if e is None:
                cur["state"] = "hang_query"
                problems.append(("hang-in-query", "%s blocked after solve returned %s" % (kind, cur["res"])))
                flush_round()
                break
            if "exc" in e:
                problems.append(("query-exception", "%s raised %s" % (kind, e["exc"])))
                cur["state"] = "other"
            else:
                cur["resp"].append(e["who"] if e["who"] is not None else 99)
                if kind == "get_model":
                    asg = dict(e["model"])
                    for (nme, isbv) in set().union(*[jvars(a) for a in cur["assertions"]] or [set()]):
                        asg.setdefault(nme, 0 if isbv else False)
                    try:
                        good = all(jeval(a, asg) for a in cur["assertions"])
                    except Exception:
                        good = False
                    if not good:
                        problems.append(("model-does-not-satisfy", "get_model returned %s which does not satisfy the assertions" % e["model"]))
                else:
                    cur["values"][e["var"]] = e["val"]
                    need = set().union(*[jvars(a) for a in cur["assertions"]] or [set()])
                    if need and all(nme in cur["values"] for (nme, _) in need):
                        if not all(jeval(a, cur["values"]) for a in cur["assertions"]):
                            problems.append(("values-do-not-satisfy", "the values returned by get_value %s do not satisfy the assertions" % cur["values"]))
                        cur["values"] = {}
        k += 1
    else:
        e = ends.get(n_ops)
        if e is None:
            if n_ops in begun:
                problems.append(("hang-in-exit", "exit() blocked"))
            flush_round(final_ok=False)
        else:
            if e.get("exc"):
                problems.append(("exit-exception", "exit() raised %s" % e["exc"]))
                flush_round(final_ok=False)
            else:
                flush_round()
            if e.get("leaked"):
                problems.append(("leak", "member processes still alive 1.5 s after exit(): %s" % e["leaked"]))
    if not hung and rc not in (0, None) and not any(p[0] for p in problems):
        problems.append(("worker-crashed", "scenario worker exited with status %s" % rc))
    gaps = [(k, op[1]) for k, op in enumerate(ops) if op[0] == "sleep"]
    if gaps and problems:
        note = "; ".join("caller idle %s s before %s" % (g, ops[k + 1][0] if k + 1 < len(ops) else "exit") for k, g in gaps)
        problems = [(key, "%s [%s]" % (what, note)) for key, what in problems]
    return rounds, problems


LATENCY_KEY = "shared-ctrl-pipe:signalled-loser-takes-query"
LATENCY_PROBLEMS = ("hang-in-query", "query-exception", "values-do-not-satisfy", "model-does-not-satisfy", "hang-in-exit",
                    "exit-exception", "solve-exception", "error-not-from-member")
KNOWN_KEYS = ("all-members-raise:blocks", "all-members-fail-some-silently:blocks", LATENCY_KEY, "solve-ignores-assumptions")
# property-level problems; "leak" is checked against the model's expectation (every member is
# signalled or gone once the round is closed) and is reported through the correspondence path
CORR_ONLY = ("leak",)


# ----------------------------------------------------------------------------
# scenario generation
# ----------------------------------------------------------------------------

F_SAT = [
    ["or", ["var", "p"], ["var", "q"]],
    ["not", ["bveq", ["bvvar", "x"], ["bvvar", "y"]]],
    ["and", ["bvult", ["bvvar", "x"], ["bvvar", "y"]], ["or", ["var", "p"], ["not", ["var", "q"]]]],
    ["iff", ["var", "p"], ["bveq", ["bvadd", ["bvvar", "x"], ["bvconst", 1]], ["bvvar", "y"]]],
]
F_UNSAT = [
    ["and", ["var", "p"], ["not", ["var", "p"]]],
    ["bvult", ["bvvar", "x"], ["bvconst", 0]],
]


def rand_formula(rnd, depth=3):
    if depth == 0 or rnd.random() < 0.2:
        if rnd.random() < 0.5:
            return ["var", rnd.choice(BOOLS)]
        t1 = rnd.choice([["bvvar", rnd.choice(BVS)], ["bvadd", ["bvvar", rnd.choice(BVS)], ["bvconst", rnd.randrange(4)]]])
        t2 = rnd.choice([["bvvar", rnd.choice(BVS)], ["bvconst", rnd.randrange(4)]])
        return [rnd.choice(["bveq", "bvult"]), t1, t2]
    op = rnd.choice(["and", "or", "not", "iff"])
    if op == "not":
        return ["not", rand_formula(rnd, depth - 1)]
    return [op, rand_formula(rnd, depth - 1), rand_formula(rnd, depth - 1)]


def value_queries(assertions):
    vs = sorted(set().union(*[jvars(a) for a in assertions]))
    return [["get_value", n, isbv] for (n, isbv) in vs]


def make_ops(rnd, shape):
    """Operation list; queries are only emitted after a solve whose expected verdict is sat."""
    ops = []
    stack = [[]]

    def cur():
        return [a for lvl in stack for a in lvl]

    def add(f):
        ops.append(["add", f])
        stack[-1].append(f)

    def solve(queries):
        ops.append(["solve"])
        if brute_sat(cur()):
            for q in queries:
                if q == "m":
                    ops.append(["get_model"])
                elif q == "v":
                    ops.extend(value_queries(cur()))
    if shape == "short":
        add(rnd.choice(F_SAT))
        solve(["m"])
    elif shape == "values":
        add(rnd.choice(F_SAT))
        solve(["v", "m"])
    elif shape == "unsat":
        add(rnd.choice(F_UNSAT))
        solve([])
    elif shape == "cycle":
        add(rnd.choice(F_SAT))
        solve(["m"])
        ops.append(["push"])
        stack.append([])
        add(rnd.choice(F_UNSAT + F_SAT))
        solve(["m", "v"])
        ops.append(["pop"])
        stack.pop()
        solve(["v"])
    elif shape == "random":
        add(rand_formula(rnd))
        solve(["m"])
        ops.append(["push"])
        stack.append([])
        add(rand_formula(rnd))
        solve(["v"])
        ops.append(["pop"])
        stack.pop()
        add(rand_formula(rnd))
        solve(["m", "v"])
    elif shape == "many_values":
        add(["and", ["not", ["bveq", ["bvvar", "x"], ["bvvar", "y"]]], ["iff", ["var", "p"], ["not", ["var", "q"]]]])
        solve(["v", "v", "v", "m", "v"])
    return ops


V = lambda n: ["var", n]
H_POOL = [V("p"), ["not", V("p")], V("q"), ["not", V("q")], ["or", V("p"), V("q")], ["or", ["not", V("p")], ["not", V("q")]],
          ["iff", V("p"), V("q")], ["and", V("p"), ["not", V("q")]], ["bvult", ["bvvar", "x"], ["bvvar", "y"]],
          ["not", ["bvult", ["bvvar", "x"], ["bvvar", "y"]]], ["bveq", ["bvvar", "x"], ["bvconst", 3]]]
ONESHOT = ("is_sat", "is_valid", "is_unsat")


class _Ref(object):
    """Reference frame stack used by the generators (to emit queries only where a model exists)."""

    def __init__(self):
        self.frames = [[]]
        self.ops = []
        self.model = False

    def live(self):
        return [a for f in self.frames for a in f]

    def do(self, op):
        self.ops.append(op)
        k = op[0]
        if k == "add":
            self.frames[-1].append(op[1])
        elif k == "add_many":
            self.frames[-1].extend(op[1])
        elif k == "push":
            self.frames.extend([] for _ in range(op[1]))
        elif k == "pop":
            del self.frames[-op[1]:]
        elif k == "solve":
            self.model = brute_sat(self.live())
        elif k == "solve_assuming":
            self.model = brute_sat(self.live() + list(op[1]))
        elif k == "is_valid":
            self.model = brute_sat(self.live() + [["not", op[1]]])
        elif k in ("is_sat", "is_unsat"):
            self.model = brute_sat(self.live() + [op[1]])
        if k in ("add", "add_many", "push", "pop"):
            self.model = False

    def queries(self, which, extra=()):
        if not self.model or not which:
            return
        if which == "m":
            self.ops.append(["get_model"])
        else:
            vs = sorted(set().union(*[jvars(a) for a in self.live() + list(extra)] or [set()]))
            if which in FORMS:                   # one get_values call with that container form
                self.ops.append(["get_values", [[n, b] for (n, b) in vs], which])
                return
            for (nme, isbv) in vs[:2]:
                self.ops.append(["get_value", nme, isbv])


def directed_histories():
    """push; assert inside; one-shot query; [queries]; pop(n) as the first stack command; an
    assertion contradicting the popped one; solve.  3 query kinds x n in 1..2 x level shapes x
    with/without model queries in between."""
    p, q = V("p"), V("q")
    out = []
    for kind in ONESHOT:
        for shape in ("push1-pop1", "push2-pop2", "push1-push1-pop2", "push2-pop1-pop1", "push1-push1-pop1"):
            for between in ("", "m", "v"):
                if between and shape not in ("push1-pop1", "push2-pop2"):
                    continue
                r = _Ref()
                r.do(["add", ["or", p, q]])
                arg = q if kind != "is_valid" else ["not", q]     # q is satisfiable with !p: a model exists
                if shape == "push1-pop1":
                    r.do(["push", 1]); r.do(["add", ["not", p]]); r.do([kind, arg])
                    r.queries(between, [arg]); r.do(["pop", 1])
                elif shape == "push2-pop2":
                    r.do(["push", 2]); r.do(["add", ["not", p]]); r.do([kind, arg])
                    r.queries(between, [arg]); r.do(["pop", 2])
                elif shape == "push1-push1-pop2":
                    r.do(["push", 1]); r.do(["add", ["not", p]]); r.do(["push", 1]); r.do(["add", q]); r.do([kind, arg]); r.do(["pop", 2])
                elif shape == "push2-pop1-pop1":
                    r.do(["push", 2]); r.do(["add", ["not", p]]); r.do([kind, arg]); r.do(["pop", 1]); r.do(["pop", 1])
                else:
                    r.do(["push", 1]); r.do(["add", ["not", q]]); r.do(["push", 1]); r.do(["add", ["not", p]]); r.do([kind, ["not", arg] if kind == "is_sat" else arg])
                    r.do(["pop", 1])
                r.do(["add", p])
                r.do(["solve"])
                r.queries("m")
                r.ops.append(["assertions"])
                out.append(r.ops)
    return out


def container_histories():
    """Argument container protocol: the same content handed to solve(assumptions=...),
    add_assertions(...) and get_values(...) as list / tuple / set / frozenset / generator / map /
    filter / iterator, and the empty version of each; every result must be the list-form result."""
    p, q = V("p"), V("q")
    lt = ["bvult", ["bvvar", "x"], ["bvvar", "y"]]
    out = []
    for form in FORMS:
        r = _Ref()
        r.do(["add_many", [["or", p, q], lt], form])
        r.do(["solve_assuming", [["not", p]], form])            # sat: q
        r.queries(form, [["not", p]])
        r.do(["solve_assuming", [["not", p], ["not", q]], form])  # unsat only WITH the assumptions
        r.do(["solve_assuming", [], form])                       # empty container = plain solve
        r.queries("m")
        r.do(["add_many", [], form])
        r.do(["push", 1])
        r.do(["add_many", [["not", q], ["iff", p, q]], form])   # unsat only if both are asserted
        r.do(["solve"])
        r.do(["pop", 1])
        r.do(["solve_assuming", [q, ["not", lt]], form])          # unsat only with the LAST assumption
        r.do(["solve_assuming", [q, ["or", p, ["not", q]]], form])  # sat: p & q
        r.queries(form, [q])
        if r.model:
            r.ops.append(["get_values", [], form])
        r.ops.append(["assertions"])
        out.append(r.ops)
    return out


def random_history(rnd):
    """6-10 commands over push(n) / pop(n) / add / is_sat / is_valid / is_unsat / solve /
    solve(assumptions: 1-2 arbitrary formulas) / get_model / get_value, always legal (never pops more levels than are open)."""
    r = _Ref()
    target = rnd.randrange(6, 11)
    r.do(["add", rnd.choice(H_POOL)])
    while len(r.ops) < target:
        depth = len(r.frames) - 1
        last = r.ops[-1][0]
        c = rnd.random()
        if last in ONESHOT + ("solve", "solve_assuming", "get_model", "get_value") and depth and c < 0.45:
            r.do(["pop", rnd.randrange(1, min(depth, 2) + 1)])     # pop right after a query
        elif c < 0.2:
            r.do(["push", rnd.choice([1, 1, 2])])
        elif c < 0.45:
            r.do(["add", rnd.choice(H_POOL)])
        elif c < 0.75:
            r.do([rnd.choice(ONESHOT), rnd.choice(H_POOL)])
        elif c < 0.8:
            r.do(["solve"])
        elif c < 0.88:
            r.do(["solve_assuming", rnd.sample(H_POOL, rnd.choice([0, 1, 1, 2])), rnd.choice(FORMS)])
        elif c < 0.91:
            r.do(["add_many", rnd.sample(H_POOL, rnd.choice([0, 1, 2, 3])), rnd.choice(FORMS)])
        elif c < 0.95 and r.model:
            r.queries(rnd.choice(["m", "v", rnd.choice(FORMS)]), [r.ops[-1][1]] if last in ONESHOT else (r.ops[-1][1] if last == "solve_assuming" else []))
        elif depth:
            r.do(["pop", rnd.randrange(1, min(depth, 2) + 1)])
    r.do(["solve"])
    r.queries("m")
    r.ops.append(["assertions"])
    return r.ops


TIMINGS = {
    2: [[0, 0], [0, 30], [30, 0], [0, 2], [2, 0], [10, 10]],
    3: [[0, 0, 0], [0, 20, 40], [40, 20, 0], [10, 10, 40], [0, 1, 2], [30, 0, 1]],
    4: [[0, 0, 0, 0], [0, 15, 30, 45], [45, 30, 15, 0], [20, 20, 0, 0], [0, 1, 2, 3], [25, 0, 1, 25]],
}
FAIL_MODES = ["raise", "unknown", "exit", "sysexit", "ctor_raise", "assert_raise"]


IDLE_GAPS = {"quick": [2, 12, 35.5], "thorough": [2, 12, 35.5, 65.5, 130.5]}


def idle_scenarios(tier):
    """The caller's wall-clock idle time as a hidden input: solve -> SAT, then nothing for `gap`
    seconds, then the queries; and a gap BETWEEN two queries.  Started before everything else
    and collected at the end, so they cost no wall time beyond the largest gap."""
    p, q = V("p"), V("q")
    lt = ["bvult", ["bvvar", "x"], ["bvvar", "y"]]
    f = ["and", ["or", p, q], lt]
    vals = [["get_value", "p", False], ["get_value", "q", False], ["get_value", "x", True], ["get_value", "y", True]]
    out = []
    for i, gap in enumerate(IDLE_GAPS[tier]):
        n = 2 + i % 2
        members = [{"mode": "answer", "delay_ms": d} for d in [0, 5, 10][:n]]
        # gap between solve and the first query, then a fresh cycle and the exit
        ops = ([["add", f], ["solve"], ["sleep", gap], ["get_model"]] + vals +
               [["push", 1], ["add", ["not", p]], ["solve"], ["get_model"], ["pop", 1], ["solve_assuming", [["not", q]], "list"],
                ["get_values", [["p", False], ["q", False]], "list"], ["assertions"]])
        out.append({"members": members, "eoe": False, "ops": ops, "tag": "idle", "raw": True, "sleep_total": gap})
        # gap between get_model and get_value, and before exit
        ops = [["add", f], ["solve"], ["get_model"], ["sleep", gap]] + vals + [["get_model"], ["assertions"]]
        out.append({"members": list(reversed(members)), "eoe": False, "ops": ops, "tag": "idle", "raw": True, "sleep_total": gap})
    return out


def scenarios(rnd, tier):
    out = []

    def sc(modes, delays, eoe, shape, tag):
        out.append({"members": [{"mode": m, "delay_ms": d} for m, d in zip(modes, delays)], "eoe": eoe,
                    "ops": make_ops(rnd, shape), "tag": tag})
    # 0. the configurations of the two repaired findings (Example all_fail_reports_examples)
    sc(["raise", "unknown"], [0, 0], False, "short", "witness:all-members-raise")
    sc(["exit", "raise", "exit"], [0, 0, 0], False, "short", "witness:some-silently")
    sc(["exit", "exit"], [0, 0], True, "short", "witness:all-exit")
    # 1. every assignment of {answer, reporting failure, silent failure} to 2 and 3 members
    for n in (2, 3):
        for kinds in itertools.product("ARS", repeat=n):
            for eoe in (False, True):
                modes = [("answer" if k == "A" else rnd.choice(["raise", "unknown"]) if k == "R"
                          else rnd.choice(["exit", "sysexit", "ctor_raise", "assert_raise"])) for k in kinds]
                allfail = "A" not in kinds
                delays = rnd.choice(TIMINGS[n])
                shape = "short" if allfail else rnd.choice(["short", "values", "cycle", "unsat", "random"])
                if allfail and tier == "quick" and n == 3 and rnd.random() < 0.5 and not (eoe and "R" in kinds):
                    continue     # every hanging scenario costs one watchdog period
                sc(modes, delays, eoe, shape, "subset")
    # 2. sampled 4-member assignments
    for _ in range(14 if tier == "quick" else 120):
        kinds = [rnd.choice("AAARS") for _ in range(4)]
        if "A" not in kinds and rnd.random() < 0.7:
            kinds[rnd.randrange(4)] = "A"
        modes = [("answer" if k == "A" else rnd.choice(["raise", "unknown"]) if k == "R" else rnd.choice(FAIL_MODES[2:])) for k in kinds]
        sc(modes, rnd.choice(TIMINGS[4]), rnd.random() < 0.4, rnd.choice(["short", "values", "cycle", "random"]), "four")
    # 3. races between answering members: every timing pattern, near-ties, random gaps
    for n in (2, 3, 4):
        for delays in TIMINGS[n]:
            for shape in (["values", "cycle"] if tier == "quick" else ["values", "cycle", "random", "many_values"]):
                sc(["answer"] * n, delays, False, shape, "race")
        for _ in range(4 if tier == "quick" else 40):
            base = rnd.randrange(0, 20)
            delays = [base + rnd.choice([0, 0, 1, 2, 3, 5]) for _ in range(n)]
            modes = ["answer"] * n
            if rnd.random() < 0.4:
                modes[rnd.randrange(n)] = rnd.choice(FAIL_MODES)
            sc(modes, delays, rnd.random() < 0.3, rnd.choice(["values", "cycle", "random", "many_values"]), "neartie")
    # 4. failing member strictly first, answering member later (failures must be ignored)
    for n in (2, 3):
        for fm in FAIL_MODES:
            modes = [fm] + ["answer"] * (n - 1)
            rnd.shuffle(modes)
            delays = [0 if m != "answer" else 25 for m in modes]
            sc(modes, delays, False, "values", "fail-first")
    # 6. the implementation-side counterpart of latency=true: a loser that handles SIGTERM and
    #    lingers for 0.6 s while the parent queries the (single, shared) control pipe
    for n, shape in ((2, "many_values"), (2, "values"), (3, "many_values")) + (() if tier == "quick" else ((2, "short"), (3, "values"), (4, "many_values"))):
        sc(["answer"] + ["answer_graceful"] * (n - 1), [0] + [8] * (n - 1), False, shape, "latency")
    # 7. members that fail / die EARLY while the only answering member is slow (0.3-0.6 s, i.e.
    #    several periods of the liveness poll): the poll must not fire while a member is alive
    slow = [300, 450, 600]
    for n in (2, 3):
        for k, fm in enumerate(FAIL_MODES):
            for shape in ("values", "unsat"):
                modes = [fm] * (n - 1) if n == 2 else [fm, FAIL_MODES[(k + 2) % len(FAIL_MODES)]]
                pos = (k + (shape == "unsat")) % n
                modes = modes[:pos] + ["answer"] + modes[pos:]
                delays = [slow[(k + n) % 3] if m == "answer" else (0 if k % 2 == 0 else 5) for m in modes]
                sc(modes, delays, False, shape, "slow-answer")
        # exit_on_exception on is relevant when the early members die silently (no exception to raise)
        for k, fm in enumerate(FAIL_MODES[2:]):
            modes = ["answer"] + [fm] * (n - 1)
            sc(modes, [slow[k % 3]] + [0] * (n - 1), True, "values" if k % 2 else "unsat", "slow-answer")
    # one member still solving, one answering late, the others gone: cycle of solves
    sc(["exit", "answer", "raise"], [0, 350, 0], False, "cycle", "slow-answer")
    # 8. command histories (the "repeated solve / get_model / push-pop cycles" part): one-shot
    #    queries inside open levels, pop(n) right after them, verdict-sensitive follow-ups; the
    #    portfolio's assertions are read once, at the END (reading them earlier clears a pending pop)
    assume = [[["add", ["or", V("p"), V("q")]], ["solve_assuming", [["not", V("p")]]], ["get_model"], ["solve"], ["get_model"], ["assertions"]],
              [["add", V("p")], ["push", 1], ["add", V("q")], ["solve_assuming", [["not", V("p")]]], ["pop", 1], ["solve"], ["assertions"]],
              [["add", ["or", V("p"), V("q")]], ["solve_assuming", [["iff", V("p"), V("q")], ["not", V("q")]]],
               ["solve_assuming", [["or", ["not", V("p")], ["not", V("q")]], V("p")]], ["get_value", "p", False], ["get_value", "q", False],
               ["get_model"], ["assertions"]]]
    for form in FORMS:
        # Portfolio(solvers_set=<container>): pairs (name, options) for the ordered forms, plain
        # registered names for set / frozenset
        for n in (2, 3):
            if n == 3 and tier == "quick" and form in ("tuple", "map"):
                continue
            out.append({"members": [{"mode": "answer", "delay_ms": d} for d in ([0, 4, 8][:n])], "eoe": False, "sset_form": form,
                        "ops": make_ops(rnd, "values"), "tag": "container"})
        out.append({"members": [{"mode": "raise", "delay_ms": 0}, {"mode": "answer", "delay_ms": 10}], "eoe": False, "sset_form": form,
                    "ops": make_ops(rnd, "cycle"), "tag": "container"})
    out.append({"members": [], "eoe": False, "sset_form": "gen", "ops": make_ops(rnd, "short"), "tag": "container"})
    out.append({"members": [], "eoe": False, "sset_form": "list", "ops": make_ops(rnd, "short"), "tag": "container"})
    for ops in container_histories():
        for n in (2, 3):
            out.append({"members": [{"mode": "answer", "delay_ms": rnd.choice([0, 3, 9])} for _ in range(n)], "eoe": False,
                        "ops": ops, "tag": "container", "raw": True})
    for ops in assume + directed_histories() + [random_history(rnd) for _ in range(60 if tier == "quick" else 500)]:
        n = rnd.choice([2, 2, 3])
        modes = ["answer"] * n
        if rnd.random() < 0.25:
            modes[rnd.randrange(n)] = rnd.choice(["raise", "unknown", "exit"])
        out.append({"members": [{"mode": m, "delay_ms": rnd.choice([0, 0, 2, 5, 15])} for m in modes], "eoe": False,
                    "ops": ops, "tag": "history", "raw": True})
    # 5. many queries against members with different models (exposes a query served by anybody
    #    but the survivor)
    for n in (2, 3, 4):
        for delays in ([[0] * n, list(range(0, 3 * n, 3))] if tier == "quick" else TIMINGS[n]):
            sc(["answer"] * n, delays, False, "many_values", "many-values")
    return out


# ----------------------------------------------------------------------------
# Coq side of the correspondence
# ----------------------------------------------------------------------------

HDR = ("From Coq Require Import List Bool.\nFrom PySMT.core Require Import CaseUtil.\n"
       "From PySMT.models Require Import Portfolio.\nImport ListNotations.\n")


HIST_HDR = ("""From Coq Require Import List Arith Bool.
From PySMT.core Require Import CaseUtil.
From PySMT.models Require Import AssertStack StackPrims TrackSolver.
Import ListNotations.
Fixpoint leqb {A} (e : A -> A -> bool) (a b : list A) : bool :=
  match a, b with [], [] => true | x :: a', y :: b' => e x y && leqb e a' b' | _, _ => false end.
Definition tst_eqb (a b : tst nat) : bool :=
  leqb Nat.eqb (astk a) (astk b) && leqb Nat.eqb (bpts a) (bpts b) && Bool.eqb (pending a) (pending b).
Definition res_eqb (a b : result (tst nat)) : bool :=
  match a, b with Ok x, Ok y => tst_eqb x y | _, _ => false end.
(* mgr.Not on formula indexes: the table recorded from the implementation's hash-consing *)
Fixpoint lookup (t : list (nat * nat)) (n : nat) : nat :=
  match t with [] => n + 1000 | (a, b) :: r => if Nat.eqb a n then b else lookup r n end.
""")
HIST_TAIL = ("""(* None = a state the harness could not observe (inside add_assertions) *)
Fixpoint trace_ok (a : list (result (tst nat))) (e : list (option (result (tst nat)))) : bool :=
  match a, e with
  | [], [] => true
  | x :: a', None :: e' => trace_ok a' e'
  | x :: a', Some y :: e' => res_eqb x y && trace_ok a' e'
  | _, _ => false
  end.
Definition ok (c : list (nat * nat) * list (scmd nat) * list (option (result (tst nat)))) : bool :=
  let '(negs, cs, e) := c in trace_ok (t_trace (lookup negs) t_init cs) e.
Eval vm_compute in mismatches ok cases.
""")


def history_case(sc, evs):
    """(Coq row, key) for a completed history: the TrackSolver commands and the raw bookkeeping
    state (_assertion_stack as formula indexes, _backtrack_points, pending_pop) the implementation
    had after each of them; None if the history did not run to its end."""
    ends = {e["end"]: e for e in evs if "end" in e}
    cs, tr, negs = [], [], []
    for k, op in enumerate(sc["ops"]):
        e = ends.get(k)
        kind = op[0]
        if kind in ("get_model", "get_value", "get_values"):
            continue
        if e is None or "raw" not in e or "exc" in e or "err" in e:
            return None
        if kind == "add":
            cs.append("SAdd %d" % e["fidx"])
        elif kind == "add_many":
            if not e.get("added"):
                continue                  # nothing asserted: no command
            for i in e["added"][:-1]:
                cs.append("SAdd %d" % i)
                tr.append("None")         # intermediate states are not observed
            cs.append("SAdd %d" % e["added"][-1])
        elif kind == "push":
            cs.append("SPush %d" % (op[1] if len(op) > 1 else 1))
        elif kind == "pop":
            cs.append("SPop %d" % (op[1] if len(op) > 1 else 1))
        elif kind in ("solve", "solve_assuming"):
            cs.append("SSolve None")      # Portfolio._solve takes no level for assumptions
        elif kind == "is_sat":
            cs.append("SIsSat %d" % e["fidx"])
        elif kind == "is_unsat":
            cs.append("SIsUnsat %d" % e["fidx"])
        elif kind == "is_valid":
            cs.append("SIsValid %d" % e["fidx"])
            negs.append("(%d, %d)" % (e["fidx"], e["nidx"]))
        elif kind == "assertions":
            cs.append("SObserve")
        else:
            return None
        a, b, pnd = e["raw"]
        tr.append("Some (Ok (mkT %s %s %s))" % (lib.coq_list([str(x) for x in a]), lib.coq_list([str(x) for x in b]), lib.coq_bool(pnd)))
    return "(%s, %s, %s)" % (lib.coq_list(negs), lib.coq_list(cs), lib.coq_list(tr))


def write_history_files(chk, rows, prefix="", shard=100):
    files, meta = [], {}
    for k in range(0, len(rows), shard):
        body = HIST_HDR + "Definition cases : list (list (nat * nat) * list (scmd nat) * list (option (result (tst nat)))) := [\n %s ].\n" % ";\n ".join(r for r, _ in rows[k:k + shard]) + HIST_TAIL
        p = os.path.join(chk.dir, "cases_hist_%s%d.v" % (prefix, k // shard))
        with open(p, "w") as f:
            f.write(body)
        files.append(p)
        meta[p] = [sc for _, sc in rows[k:k + shard]]
    return files, meta


def cfg_lit(cfg):
    behs, eoe, script = cfg[:3]
    lat = cfg[3] if len(cfg) > 3 else False
    return "(mkCfg %s %s %s %s)" % (lib.coq_list(list(behs)), lib.coq_bool(eoe), lib.coq_bool(lat), lib.coq_list(list(script)))


def write_case_files(chk, groups, prefix="", clean=True):
    """groups: list of (cfg, [observed...]).  Larger configurations are spread evenly."""
    if clean:
        lib.clean_cases(chk.dir)
    order = sorted(range(len(groups)), key=lambda i: -(len(groups[i][0][0]) * 10 + len(groups[i][0][2])))
    nfiles = max(1, min(lib.NPROC, (len(groups) + 5) // 6))
    shards = [[] for _ in range(nfiles)]
    for pos, gi in enumerate(order):
        shards[pos % nfiles].append(gi)
    files, meta = [], {}
    for k, sh in enumerate(shards):
        if not sh:
            continue
        rows = ["(%s, %s)" % (cfg_lit(groups[gi][0]), lib.coq_list(groups[gi][1])) for gi in sh]
        body = HDR + "Definition cases : list (config * list outcome) := [\n %s ].\n" % ";\n ".join(rows)
        body += ("Definition ok (x : config * list outcome) : bool := explains_all (fst x) (snd x).\n"
                 "Eval vm_compute in mismatches ok cases.\n")
        p = os.path.join(chk.dir, "cases_%s%d.v" % (prefix, k))
        with open(p, "w") as f:
            f.write(body)
        files.append(p)
        meta[p] = sh
    return files, meta


def model_outcomes(chk, cfg):
    """Diagnostic: the model's outcome set for one configuration, as text."""
    p = os.path.join(chk.dir, "cases_diag_%d.v" % (abs(hash(str(cfg))) % 100000))
    with open(p, "w") as f:
        f.write(HDR + "Eval vm_compute in (let '(c, o) := explore %s in (c, o)).\n" % cfg_lit(cfg))
    rc, out = lib.coqc_file(p)
    return " ".join(out.split())[:1500]


# ----------------------------------------------------------------------------
# driver
# ----------------------------------------------------------------------------

def run_all(scs, jobs):
    from concurrent.futures import ThreadPoolExecutor
    with ThreadPoolExecutor(max_workers=jobs) as ex:
        return list(ex.map(run_scenario, scs))


def strip(sc):
    return {k: sc[k] for k in ("members", "eoe", "ops", "raw") if k in sc}


def report_problems(chk, sc, evs, hung, problems, rounds):
    n = 0
    graceful = any(m["mode"] == "answer_graceful" for m in sc["members"])
    for key, what in problems:
        if key in CORR_ONLY:
            continue
        if graceful and key in LATENCY_PROBLEMS:
            what = "with a member that delays its own SIGTERM: " + what
            key = LATENCY_KEY
        replay = {"kind": "history", "what": what, "scenario": strip(sc), "tag": sc.get("tag"),
                  "observed_events": evs[-12:], "watchdog_fired": hung,
                  "oracle": "verdict by brute force over the scenario's JSON formulas; model/values evaluated on the assertions; hang = watchdog",
                  "repro": "./check C19 --replay <this file>  (re-runs the scenario on the real Portfolio under the watchdog)"}
        k = key if key in KNOWN_KEYS else "%s:%s" % (key, json.dumps(strip(sc), sort_keys=True))
        if key == LATENCY_KEY:
            replay["model_witness"] = "coq: no_stuck_state_latency_refuted / responder_not_winner_under_latency (proofs/Portfolio_proofs.v)"
        elif key in KNOWN_KEYS:
            replay["model_witness"] = "coq: all_fail_reports (proofs/Portfolio_proofs.v) holds of the repaired protocol; this tree blocks"
        n += 1 if chk.violation(replay, key=k) else 0
    return n


def run(tier):
    chk = lib.Check("C19", tier)
    chk.level = "partial"
    rnd = random.Random(chk.seed)
    # idle-gap scenarios first: they sleep while the rest of the check runs
    from concurrent.futures import ThreadPoolExecutor
    idle = idle_scenarios(tier)
    idle_pool = ThreadPoolExecutor(max_workers=len(idle))
    idle_futs = [idle_pool.submit(run_scenario, sc) for sc in idle]
    st = {"hangs": 0, "leaks": [], "tags": {}, "corr_bad": [], "nhist": 0, "nraw": 0, "configs": 0, "several": 0, "nsc": 0}

    def phase(scs, results, prefix, clean):
        """Property oracle on every scenario, then the two Coq correspondences for its rounds."""
        groups, group_src, hist_rows = {}, {}, []
        for sc, (evs, hung, rc) in zip(scs, results):
            rounds, problems = analyse(sc, evs, hung, rc)
            if sc.get("raw"):
                st["nraw"] += 1
                row = history_case(sc, evs)
                if row is not None:
                    hist_rows.append((row, sc))
            st["hangs"] += 1 if hung else 0
            st["tags"][sc["tag"].split(":")[0]] = st["tags"].get(sc["tag"].split(":")[0], 0) + 1
            report_problems(chk, sc, evs, hung, problems, rounds)
            for key, what in problems:
                if key in CORR_ONLY:
                    st["leaks"].append({"scenario": strip(sc), "what": what})
            for r in rounds:
                cfg = (tuple(r["behs"]), r["eoe"], tuple(r["script"]), r["latency"])
                if r["observed"] is None:
                    continue
                if r["latency"] and len(r["script"]) > 5:
                    continue      # responder histories make the latency=true state space exponential in the script
                chk.count((cfg, r["observed"]), nontrivial=True)
                groups.setdefault(cfg, [])
                if r["observed"] not in groups[cfg]:
                    groups[cfg].append(r["observed"])
                group_src.setdefault((cfg, r["observed"]), sc)
        glist = sorted(groups.items(), key=lambda kv: str(kv[0]))
        if glist:
            chk.sample({"kind": "round", "config": cfg_lit(glist[0][0]), "observed": glist[0][1]})
            chk.sample({"kind": "round", "config": cfg_lit(glist[-1][0]), "observed": glist[-1][1]})
        corr_bad = st["corr_bad"]
        if os.path.exists(os.path.join(lib.COQ, "models", "Portfolio.vo")):
            files, meta = write_case_files(chk, glist, prefix, clean)
            res = lib.run_case_files(files)
            for p, (rc, out) in res.items():
                mm = lib.parse_nat_list(out) if rc == 0 else None
                if mm is None:
                    corr_bad.append({"file": p, "error": out[-500:]})
                    continue
                for i in mm:
                    cfg, obs = glist[meta[p][i]]
                    src = [group_src[(cfg, o)] for o in obs]
                    corr_bad.append({"config": cfg_lit(cfg), "observed": obs, "model_outcomes": model_outcomes(chk, cfg),
                                     "scenarios": [strip(s) for s in src[:2]]})
        else:
            corr_bad.append({"error": "models/Portfolio.v does not compile"})
        # command histories against the bookkeeping model shared with C16 (models/TrackSolver.v)
        if os.path.exists(os.path.join(lib.COQ, "models", "TrackSolver.vo")):
            hfiles, hmeta = write_history_files(chk, hist_rows, prefix)
            for p, (rc, out) in lib.run_case_files(hfiles).items():
                mm = lib.parse_nat_list(out) if rc == 0 else None
                if mm is None:
                    corr_bad.append({"file": p, "error": out[-500:]})
                    continue
                for i in mm[:3]:
                    corr_bad.append({"history": strip(hmeta[p][i]), "what": "bookkeeping state (_assertion_stack, _backtrack_points, pending_pop) after some command differs from models/TrackSolver.v"})
        else:
            corr_bad.append({"error": "models/TrackSolver.v does not compile"})
        st["nhist"] += len(hist_rows)
        st["configs"] += len(glist)
        st["several"] += sum(1 for _, o in glist if len(o) > 1)
        st["nsc"] += len(scs)

    try:
        ok = chk.prove()
        scs = scenarios(rnd, tier)
        chk.note("running %d scenarios on the implementation (watchdog %.0fs) + %d idle-gap scenarios in the background (gaps %s s)"
                 % (len(scs), WATCHDOG, len(idle), IDLE_GAPS[tier]))
        jobs = max(4, min(lib.NPROC, 12))
        results = run_all(scs, jobs)
        phase(scs, results, "", True)
    finally:
        idle_results = [f.result() for f in idle_futs]     # each ends by itself or by its watchdog
        idle_pool.shutdown()
    phase(idle, idle_results, "idle_", False)
    corr_bad, leaks = st["corr_bad"], st["leaks"]
    chk.cov["histories"] = {"run": st["nraw"], "compared_with_TrackSolver_model": st["nhist"]}
    for l in leaks[:3]:
        corr_bad.append({"leak": l})
    chk.cov["correspondence"] = {"scenarios": st["nsc"], "by_kind": st["tags"], "rounds": chk.cov["evaluations"],
                                 "distinct_round_configurations": st["configs"], "watchdog_fired": st["hangs"],
                                 "configurations_with_several_observed_outcomes": st["several"],
                                 "leaks": len(leaks), "disagreements": len(corr_bad)}
    chk.note("scenarios %d, rounds %d, configurations %d, watchdog fired %d, correspondence disagreements %d"
             % (st["nsc"], chk.cov["evaluations"], st["configs"], st["hangs"], len(corr_bad)))

    if (not ok or corr_bad) and not chk.violations:
        # SEARCH: look harder for an input on which the property itself fails
        found = search(chk, rnd, corr_bad)
        if not found:
            what = []
            if not ok:
                what.append("proof obligations no longer check: " + lib.proof_failure_summary(chk))
            if corr_bad:
                what.append("correspondence model<->implementation differs: %s" % json.dumps(corr_bad[:3])[:3000])
            chk.violation({"kind": "obligation", "theorem_or_correspondence": what}, found_input=False)
    return chk.finish(TRUSTED, ASSUMPTIONS, RULE)


def search(chk, rnd, corr_bad):
    """Directed stream around the disagreeing configurations: the same member sets with many
    value queries and different timings, repeated, judged by the property oracle only."""
    seeds = []
    for b in corr_bad:
        for s in b.get("scenarios", []) + ([b["leak"]["scenario"]] if "leak" in b else []):
            seeds.append(s)
    if not seeds:
        seeds = [{"members": [{"mode": "answer", "delay_ms": 0}] * 3, "eoe": False}]
    scs = []
    for s in seeds[:6]:
        n = len(s["members"])
        for rep in range(4):
            for shape in ("many_values", "cycle"):
                members = [dict(m) for m in s["members"]]
                if rep:
                    for m in members:
                        m["delay_ms"] = rnd.choice([0, 0, 1, 3, 10])
                scs.append({"members": members, "eoe": s.get("eoe", False), "ops": make_ops(rnd, shape), "tag": "search"})
    found = 0
    for sc, (evs, hung, rc) in zip(scs, run_all(scs, 8)):
        rounds, problems = analyse(sc, evs, hung, rc)
        found += report_problems(chk, sc, evs, hung, problems, rounds)
        if found >= 3:
            break
    chk.cov["search_scenarios"] = len(scs)
    return found


def replay(path):
    r = json.load(open(path))
    sc = r.get("scenario")
    if not sc:
        print(json.dumps(r, indent=1))
        return run("quick")
    evs, hung, rc = run_scenario(sc)
    rounds, problems = analyse(sc, evs, hung, rc)
    print(json.dumps({"scenario": sc, "events": evs, "watchdog_fired": hung,
                      "rounds": [{"config": cfg_lit((x["behs"], x["eoe"], x["script"], x["latency"])), "observed": x["observed"]} for x in rounds],
                      "problems": problems}, indent=1))
    return 1 if [p for p in problems if p[0] not in CORR_ONLY] else 0


if __name__ == "__main__":
    if len(sys.argv) > 1 and sys.argv[1] == "--worker":
        sys.exit(worker(json.loads(sys.stdin.read())))
