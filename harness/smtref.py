#!/usr/bin/env python3
"""smtref.py -- a STRICT reference SMT-LIB 2.6 solver process (pure Python 3, stdlib only).

Written from the SMT-LIB 2.6 standard; it shares no code with any other SMT library.
It is an independent oracle for a verification harness: a wrapper library drives it over
stdin/stdout pipes and the harness afterwards reads its JSON log.

    python smtref.py --log FILE [--idle-timeout SECONDS] [--int-range N]

*** BOUNDED REASONING -- READ THIS ***
check-sat is a brute-force enumeration over FINITE domains of the declared constants that
occur free in the live assertions:
    Bool            -> false, true
    (_ BitVec n)    -> 0 .. 2^n-1, only for n <= 8 (otherwise an error reply)
    Int             -> the integers -N .. N, N = --int-range (default 8)
    user sort S     -> two abstract values (as @S_0 S), (as @S_1 S)
Hence `sat` / `unsat` for formulas over Int is RELATIVE TO THE RANGE -N..N of the free Int
symbols: `unsat` means "no model with every Int constant in -N..N".  Intermediate values are
unbounded Python ints (no overflow).  `unknown` after 2,000,000 assignments tried without a model.
Enumeration order is deterministic (symbols sorted by name, values ascending, false < true);
the first satisfying assignment becomes the model.  Constants not occurring in the
assertions get the first value of their domain (false, 0 bit-vector, -N, @S_0).

Other documented choices:
  * (div x 0) = 0 and (mod x 0) = x  (the standard leaves them uninterpreted).
  * bvudiv x 0 = all ones, bvurem x 0 = x (as in the standard); bvsdiv/bvsrem/bvsmod are the
    standard's definitions in terms of bvudiv/bvurem/bvneg.
  * Arities are those of the 2.6 theories: and/or/xor/=>/+/*/div/=/distinct/<... need >= 2
    arguments, the bit-vector operators and concat are binary, mod is binary.
  * A quoted symbol |x| is the same symbol as x, but a quoted symbol is ALWAYS looked up as a
    user symbol: |true| / |12| / |and| are never the constant, the numeral or the connective.
  * Only zero-arity declare-fun; define-fun may have parameters (expanded at use).
  * Quantifiers are decided by enumeration over the same finite universes as check-sat (two
    abstract values per uninterpreted sort); a sort that is not declared is rejected in binders
    and in (as const (Array I E)).  Arrays: finite maps over the universe of the index sort;
    (as const ..), select, store, =, ite.
  * declare-sort with arity n > 0: every instance (S s1 .. sn) is a distinct uninterpreted sort
    with two abstract values.  Sorts and function symbols live in separate name spaces.

Value representation (eval_term / parse_value): Bool -> bool, Int -> int,
bit-vector -> ("bv", width, unsigned_int), user-sort value -> ("u", sort_name, index).
Sort representation: "Bool", "Int", ("BV", n), ("U", name).
"""
import argparse
import codecs
import itertools
import json
import os
import re
import select
import sys
import threading

MAX_ASSIGNMENTS = 2_000_000
MAX_BV_WIDTH = 8


# ----------------------------------------------------------------------------- s-expressions
class Sym(str):
    """A symbol that was written with bars: |...| (content un-escaped)."""


class Str(str):
    """A string literal "..." (content un-escaped)."""


class SmtError(Exception):
    """A user-level error: becomes (error "...")."""


class Incomplete(Exception):
    """The buffer ends before the current s-expression is complete."""


class ParseError(Exception):
    def __init__(self, msg, pos):
        Exception.__init__(self, msg)
        self.pos = pos  # where to resume reading


_DELIM = ' \t\r\n()";|'
_SIMPLE = re.compile(r'[A-Za-z~!@$%^&*_\-+=<>.?/][0-9A-Za-z~!@$%^&*_\-+=<>.?/]*\Z')
_NUMERAL = re.compile(r'(0|[1-9][0-9]*)\Z')
_DECIMAL = re.compile(r'(0|[1-9][0-9]*)\.[0-9]+\Z')
_BIN = re.compile(r'#b[01]+\Z')
_HEX = re.compile(r'#x[0-9a-fA-F]+\Z')


def parse_one(s, pos=0):
    """Parse ONE s-expression of `s` starting at `pos`.  Returns (sexp, next_pos).
    Raises Incomplete if more input is needed, ParseError on a stray ')'.  Iterative."""
    stack, n = [], len(s)
    while True:
        while pos < n:                                  # skip blanks and comments
            c = s[pos]
            if c in ' \t\r\n':
                pos += 1
            elif c == ';':
                j = s.find('\n', pos)
                if j < 0:
                    raise Incomplete()
                pos = j + 1
            else:
                break
        if pos >= n:
            raise Incomplete()
        c = s[pos]
        if c == '(':
            stack.append([])
            pos += 1
            continue
        if c == ')':
            pos += 1
            if not stack:
                raise ParseError("unexpected ')'", pos)
            item = stack.pop()
        elif c == '|':                                  # quoted symbol, with \\ and \| escapes
            out, i = [], pos + 1
            while True:
                if i >= n:
                    raise Incomplete()
                ch = s[i]
                if ch == '\\':
                    if i + 1 >= n:
                        raise Incomplete()
                    if s[i + 1] in '\\|':
                        out.append(s[i + 1])
                        i += 2
                        continue
                elif ch == '|':
                    break
                out.append(ch)
                i += 1
            item, pos = Sym(''.join(out)), i + 1
        elif c == '"':                                  # string literal, "" is an escaped quote
            out, i = [], pos + 1
            while True:
                if i >= n:
                    raise Incomplete()
                if s[i] == '"':
                    if i + 1 >= n:
                        raise Incomplete()              # cannot tell yet whether "" follows
                    if s[i + 1] == '"':
                        out.append('"')
                        i += 2
                        continue
                    break
                out.append(s[i])
                i += 1
            item, pos = Str(''.join(out)), i + 1
        else:                                           # any other atom: up to a delimiter
            i = pos
            while i < n and s[i] not in _DELIM:
                i += 1
            if i >= n:
                raise Incomplete()                      # the atom might continue
            item, pos = s[pos:i], i
        if not stack:
            return item, pos
        stack[-1].append(item)


def read_all(text):
    """Parse a string into the list of its top-level s-expressions."""
    text, out, pos = text + '\n', [], 0
    while True:
        try:
            item, pos = parse_one(text, pos)
        except Incomplete:
            if not re.match(r'(\s|;[^\n]*\n)*\Z', text[pos:]):
                raise SmtError("parse error: incomplete s-expression")
            return out
        except ParseError as e:
            raise SmtError("parse error: %s" % e)
        out.append(item)


def _show_atom(a):
    if isinstance(a, Str):
        return '"' + a.replace('"', '""') + '"'
    if isinstance(a, Sym):
        if _SIMPLE.match(a) and a not in ('Int', 'Real', 'Bool') and not is_reserved(a):
            return str(a)
        return '|' + a.replace('\\', '\\\\').replace('|', '\\|') + '|'
    return str(a)


_CLOSE = object()


def show(sexp):
    """Canonical one-line printer (iterative)."""
    out, todo = [], [sexp]
    while todo:
        x = todo.pop()
        if x is _CLOSE:
            out.append(')')
            continue
        if out and out[-1] != '(':
            out.append(' ')
        if isinstance(x, (list, tuple)):
            out.append('(')
            todo.append(_CLOSE)
            todo.extend(reversed(x))
        else:
            out.append(_show_atom(x))
    return ''.join(out)


# ----------------------------------------------------------------------------- theory tables
BOOL_NARY = ('and', 'or', 'xor', '=>')
INT_CMP = {'<=': lambda a, b: a <= b, '<': lambda a, b: a < b,
           '>=': lambda a, b: a >= b, '>': lambda a, b: a > b}


def _sg(w, a):
    """Signed reading of the unsigned w-bit value a."""
    return a - (1 << w) if a >> (w - 1) else a


def _udiv(w, a, b):
    return a // b if b else (1 << w) - 1


def _urem(w, a, b):
    return a % b if b else a


def _signed_op(kind):
    """bvsdiv / bvsrem / bvsmod exactly as defined in the FixedSizeBitVectors logic notes."""
    def op(w, a, b):
        m = (1 << w) - 1
        sa, sb, na, nb = a >> (w - 1), b >> (w - 1), -a & m, -b & m
        if kind == 'div':
            if not sa and not sb:
                return _udiv(w, a, b)
            if sa and not sb:
                return -_udiv(w, na, b)
            if not sa and sb:
                return -_udiv(w, a, nb)
            return _udiv(w, na, nb)
        if kind == 'rem':
            if not sa and not sb:
                return _urem(w, a, b)
            if sa and not sb:
                return -_urem(w, na, b)
            if not sa and sb:
                return _urem(w, a, nb)
            return -_urem(w, na, nb)
        u = _urem(w, na if sa else a, nb if sb else b)   # smod
        if u == 0 or (not sa and not sb):
            return u
        if sa and not sb:
            return -u + b
        if not sa and sb:
            return u + b
        return -u
    return op


# binary bit-vector operators: (width, a, b) -> int, masked to `width` bits afterwards
BV2 = {
    'bvand': lambda w, a, b: a & b, 'bvor': lambda w, a, b: a | b,
    'bvxor': lambda w, a, b: a ^ b, 'bvnand': lambda w, a, b: ~(a & b),
    'bvnor': lambda w, a, b: ~(a | b), 'bvxnor': lambda w, a, b: ~(a ^ b),
    'bvadd': lambda w, a, b: a + b, 'bvsub': lambda w, a, b: a - b,
    'bvmul': lambda w, a, b: a * b, 'bvudiv': _udiv, 'bvurem': _urem,
    'bvsdiv': _signed_op('div'), 'bvsrem': _signed_op('rem'), 'bvsmod': _signed_op('mod'),
    'bvshl': lambda w, a, b: a << b if b < w else 0,
    'bvlshr': lambda w, a, b: a >> b if b < w else 0,
    'bvashr': lambda w, a, b: _sg(w, a) >> min(b, w),
}
BVCMP = {
    'bvult': lambda w, a, b: a < b, 'bvule': lambda w, a, b: a <= b,
    'bvugt': lambda w, a, b: a > b, 'bvuge': lambda w, a, b: a >= b,
    'bvslt': lambda w, a, b: _sg(w, a) < _sg(w, b), 'bvsle': lambda w, a, b: _sg(w, a) <= _sg(w, b),
    'bvsgt': lambda w, a, b: _sg(w, a) > _sg(w, b), 'bvsge': lambda w, a, b: _sg(w, a) >= _sg(w, b),
}
INDEXED = ('extract', 'zero_extend', 'sign_extend', 'rotate_left', 'rotate_right', 'repeat')
THEORY_OPS = set(BOOL_NARY) | set(INT_CMP) | set(BV2) | set(BVCMP) | {
    'not', 'ite', '=', 'distinct', '+', '-', '*', 'div', 'mod', 'abs',
    'concat', 'bvnot', 'bvneg', 'bvcomp'}
BINDERS = {'let', 'forall', 'exists', 'match', '!', '_', 'as', 'par',
           'BINARY', 'DECIMAL', 'HEXADECIMAL', 'NUMERAL', 'STRING'}
# names that can never be (re)declared and never count as free symbols when written bare
RESERVED = THEORY_OPS | BINDERS | {'true', 'false', 'select', 'store'}


def is_reserved(name):
    return name in RESERVED or re.match(r'bv[0-9]+\Z', name) is not None


def _is_symbol(a):
    """Is the atom usable as a user symbol name?"""
    return isinstance(a, Sym) or (type(a) is str and _SIMPLE.match(a) is not None)


def _is_literal(a):
    return type(a) is str and (a[:1].isdigit() or a[:1] in '#:' or a in ('true', 'false'))


# ----------------------------------------------------------------------------- free symbols
def free_symbols(term):
    """Names occurring free in `term`: not let/quantifier-bound, not theory/reserved symbols,
    not literals/keywords/strings, not indexed-identifier heads.  Quoted symbols always count."""
    acc = set()
    _free(term, frozenset(), acc)
    return acc


def _free(t, bound, acc):
    while True:
        if not isinstance(t, list):
            if isinstance(t, Str) or _is_literal(t):
                return
            if (isinstance(t, Sym) or not is_reserved(t)) and t not in bound:
                acc.add(str(t))
            return
        if not t:
            return
        h = t[0]
        if type(h) is str and h == 'let' and len(t) == 3 and isinstance(t[1], list):
            names = set()
            for b in t[1]:
                if isinstance(b, list) and len(b) == 2:
                    _free(b[1], bound, acc)             # parallel let: outer scope
                    names.add(str(b[0]))
            bound, t = bound | names, t[2]
            continue
        if type(h) is str and h in ('forall', 'exists') and len(t) == 3 and isinstance(t[1], list):
            bound = bound | {str(b[0]) for b in t[1] if isinstance(b, list) and b}
            t = t[2]
            continue
        if type(h) is str and h == '!' and len(t) >= 2:
            t = t[1]
            continue
        if type(h) is str and h in ('_', 'as'):         # (_ bv5 3), (as @S_0 S): no symbols
            return
        for a in (t[1:] if isinstance(h, list) else t): # skip ((_ extract ..) ..) heads
            _free(a, bound, acc)
        return


# ----------------------------------------------------------------------------- sorts
def show_sort(s):
    if isinstance(s, tuple):
        if s[0] == 'BV':
            return '(_ BitVec %d)' % s[1]
        if s[0] == 'Array':
            return '(Array %s %s)' % (show_sort(s[1]), show_sort(s[2]))
        # an instance of a sort symbol with arguments is kept as its printed form "(Pair Int Int)"
        return s[1] if s[1].startswith('(') else _show_atom(Sym(s[1]))
    return s


def parse_sort(x, user_sorts):
    """Sort s-expression -> sort representation; user_sorts = declared sort names (-> arity)."""
    arity = user_sorts if isinstance(user_sorts, dict) else dict.fromkeys(user_sorts, 0)
    if isinstance(x, list):
        if len(x) == 3 and x[0] == '_' and x[1] == 'BitVec' and type(x[2]) is str \
                and _NUMERAL.match(x[2]) and int(x[2]) >= 1:
            return ('BV', int(x[2]))
        if len(x) == 3 and type(x[0]) is str and x[0] == 'Array':
            return ('Array', parse_sort(x[1], user_sorts), parse_sort(x[2], user_sorts))
        if x and _is_symbol(x[0]) and not isinstance(x[0], Str) and x[0] in arity and arity[x[0]] > 0:
            # (S s1 ... sn): every instance is a distinct uninterpreted sort with two values
            if len(x) - 1 != arity[x[0]]:
                raise SmtError("ill-formed sort: %s expects %d argument(s)" % (x[0], arity[x[0]]))
            args = [parse_sort(y, user_sorts) for y in x[1:]]
            return ('U', '(%s %s)' % (_show_atom(Sym(str(x[0]))) if isinstance(x[0], Sym) else x[0],
                                      ' '.join(show_sort(y) for y in args)))
        raise SmtError("ill-formed sort: %s" % show(x))
    if isinstance(x, Str) or not _is_symbol(x):
        raise SmtError("ill-formed sort: %s" % show(x))
    if x in ('Bool', 'Int'):
        return str(x)
    if x == 'Real':
        raise SmtError("unsupported sort Real")
    if x in arity:
        if arity[x] != 0:
            raise SmtError("ill-formed sort: %s expects %d argument(s)" % (x, arity[x]))
        return ('U', str(x))
    raise SmtError("unknown sort: %s" % x)


class Def:
    """A define-fun: params = [(name, sort)], ret = result sort, body = term."""
    def __init__(self, params, ret, body):
        self.params, self.ret, self.body = params, ret, body


SORTS_KEY = ('#sorts',)   # non-string key of a scope dict: the set of user sort names


def _serr(op, sorts, why):
    raise SmtError("sort error: %s applied to (%s): %s"
                   % (op, ' '.join(show_sort(s) for s in sorts), why))


def _num(x, what):
    if type(x) is not str or not _NUMERAL.match(x):
        raise SmtError("malformed term: %s must be a numeral, got %s" % (what, show(x)))
    return int(x)


def _app_sort(op, ss):
    """Result sort of theory operator `op` applied to argument sorts `ss`."""
    n = len(ss)
    isbv = all(isinstance(s, tuple) and s[0] == 'BV' for s in ss)
    same = all(s == ss[0] for s in ss)
    if op == 'not':
        return 'Bool' if ss == ['Bool'] else _serr(op, ss, "expects one Bool")
    if op in BOOL_NARY:
        return 'Bool' if n >= 2 and set(ss) == {'Bool'} else _serr(op, ss, "expects two or more Bool")
    if op in ('=', 'distinct'):
        return 'Bool' if n >= 2 and same else _serr(op, ss, "expects two or more terms of one sort")
    if op == 'ite':
        return ss[1] if n == 3 and ss[0] == 'Bool' and ss[1] == ss[2] \
            else _serr(op, ss, "expects Bool and two terms of one sort")
    if op in ('+', '*', 'div', '-', 'mod', 'abs') or op in INT_CMP:
        lo, hi = {'-': (1, None), 'mod': (2, 2), 'abs': (1, 1)}.get(op, (2, None))
        if n < lo or (hi and n > hi) or set(ss) != {'Int'}:
            _serr(op, ss, "expects %d%s Int" % (lo, "" if hi else " or more"))
        return 'Bool' if op in INT_CMP else 'Int'
    if op in ('bvnot', 'bvneg'):
        return ss[0] if n == 1 and isbv else _serr(op, ss, "expects one bit-vector")
    if op == 'concat':
        return ('BV', ss[0][1] + ss[1][1]) if n == 2 and isbv else _serr(op, ss, "expects two bit-vectors")
    if not (n == 2 and isbv and same):
        _serr(op, ss, "expects two bit-vectors of equal width")
    return ss[0] if op in BV2 else ('BV', 1) if op == 'bvcomp' else 'Bool'


def _indexed_sort(h, ss):
    """Result sort of ((_ name idx..) arg)."""
    name, idx = h[1], [_num(i, "index") for i in h[2:]]
    op = show(h)
    if len(ss) != 1 or not (isinstance(ss[0], tuple) and ss[0][0] == 'BV'):
        _serr(op, ss, "expects one bit-vector")
    w = ss[0][1]
    if name == 'extract':
        if len(idx) != 2 or not (w > idx[0] >= idx[1]):
            _serr(op, ss, "needs width > i >= j >= 0")
        return ('BV', idx[0] - idx[1] + 1)
    if len(idx) != 1 or (name == 'repeat' and idx[0] < 1):
        _serr(op, ss, "bad index")
    if name in ('zero_extend', 'sign_extend'):
        return ('BV', w + idx[0])
    return ('BV', w * idx[0]) if name == 'repeat' else ss[0]


def sort_of(t, scope, loc=None):
    """Sort of term `t`.  scope: name -> sort (constant) | Def; may contain the key SORTS_KEY
    (set of user sort names).  loc: let/parameter bindings name -> sort.  Raises SmtError."""
    loc = loc or {}
    while True:
        if not isinstance(t, list):
            if isinstance(t, Str):
                raise SmtError("sort error: string literals are not supported")
            if t in loc:
                return loc[t]
            if type(t) is str:                          # bare atoms may be constants/literals
                if t in ('true', 'false'):
                    return 'Bool'
                if _NUMERAL.match(t):
                    return 'Int'
                if _BIN.match(t):
                    return ('BV', len(t) - 2)
                if _HEX.match(t):
                    return ('BV', 4 * (len(t) - 2))
                if _DECIMAL.match(t):
                    raise SmtError("unsupported sort Real")
                if is_reserved(t):
                    raise SmtError("sort error: %s used without arguments" % t)
                if not _SIMPLE.match(t):
                    raise SmtError("malformed term: %s" % t)
            d = scope.get(str(t))
            if d is None:
                raise SmtError("unknown symbol: %s" % t)
            if isinstance(d, Def):
                if d.params:
                    raise SmtError("sort error: %s expects %d arguments" % (t, len(d.params)))
                return d.ret
            return d
        if not t:
            raise SmtError("malformed term: ()")
        h = t[0]
        if isinstance(h, list):                         # ((_ extract i j) x) ...
            if len(h) >= 3 and h[0] == '_' and type(h[1]) is str and h[1] in INDEXED:
                return _indexed_sort(h, [sort_of(a, scope, loc) for a in t[1:]])
            if len(h) == 3 and h[0] == 'as' and h[1] == 'const' and len(t) == 2:   # ((as const (Array I E)) v)
                so = parse_sort(h[2], scope.get(SORTS_KEY, ()))
                if so[0] != 'Array' or sort_of(t[1], scope, loc) != so[2]:
                    raise SmtError("sort error: ill-sorted constant array %s" % show(t))
                return so
            raise SmtError("unknown symbol: %s" % show(h))
        if type(h) is str and h in ('select', 'store'):
            ss = [sort_of(a, scope, loc) for a in t[1:]]
            if not ss or not (isinstance(ss[0], tuple) and ss[0][0] == 'Array') or len(ss) != (2 if h == 'select' else 3) \
                    or ss[1] != ss[0][1] or (h == 'store' and ss[2] != ss[0][2]):
                _serr(h, ss, "expects an array, an index%s of its sorts" % ("" if h == 'select' else " and an element"))
            return ss[0][2] if h == 'select' else ss[0]
        if type(h) is str and h in ('forall', 'exists'):
            if len(t) != 3 or not isinstance(t[1], list) or not t[1]:
                raise SmtError("malformed term: %s" % h)
            new, names = dict(loc), set()
            for b in t[1]:
                if not (isinstance(b, list) and len(b) == 2 and _is_symbol(b[0])) \
                        or (type(b[0]) is str and is_reserved(b[0])):
                    raise SmtError("malformed term: binder %s" % show(b))
                if b[0] in names:
                    raise SmtError("malformed term: %s binds %s twice" % (h, b[0]))
                names.add(str(b[0]))
                new[str(b[0])] = parse_sort(b[1], scope.get(SORTS_KEY, ()))   # undeclared sort: error
            if sort_of(t[2], scope, new) != 'Bool':
                raise SmtError("sort error: the body of %s is not Bool" % h)
            return 'Bool'
        if type(h) is str and h == 'let':
            if len(t) != 3 or not isinstance(t[1], list) or not t[1]:
                raise SmtError("malformed term: let")
            new, names = dict(loc), set()
            for b in t[1]:
                if not (isinstance(b, list) and len(b) == 2 and _is_symbol(b[0])) \
                        or (type(b[0]) is str and is_reserved(b[0])):
                    raise SmtError("malformed term: let binding %s" % show(b))
                if b[0] in names:
                    raise SmtError("malformed term: let binds %s twice" % b[0])
                names.add(str(b[0]))
                new[str(b[0])] = sort_of(b[1], scope, loc)   # PARALLEL: outer scope
            loc, t = new, t[2]
            continue
        if type(h) is str and h == '!':
            if len(t) < 3 or not (type(t[2]) is str and t[2].startswith(':')):
                raise SmtError("malformed term: annotation")
            t = t[1]
            continue
        if type(h) is str and h == '_':
            if len(t) == 3 and type(t[1]) is str and re.match(r'bv[0-9]+\Z', t[1]) \
                    and type(t[2]) is str and _NUMERAL.match(t[2]) and int(t[2]) >= 1:
                return ('BV', int(t[2]))
            raise SmtError("unknown symbol: %s" % show(t))
        if type(h) is str and h == 'as':
            if len(t) == 3 and t[2] in scope.get(SORTS_KEY, ()) and _abstract_index(t[1], t[2]) is not None:
                return ('U', str(t[2]))
            raise SmtError("unsupported: %s" % show(t))
        if type(h) is str and h == 'match':
            raise SmtError("unsupported: %s" % h)
        if isinstance(h, Str) or _is_literal(h):
            raise SmtError("malformed term: %s" % show(t))
        ss = [sort_of(a, scope, loc) for a in t[1:]]
        if type(h) is str and h in THEORY_OPS:
            return _app_sort(h, ss)
        d = None if h in loc else scope.get(str(h))
        if h in loc or (d is not None and not isinstance(d, Def)):
            raise SmtError("sort error: %s is not a function" % h)
        if d is None:
            raise SmtError("unknown symbol: %s" % h)
        if [s for _, s in d.params] != ss:
            _serr(str(h), ss, "expects (%s)" % ' '.join(show_sort(s) for _, s in d.params))
        return d.ret


def _abstract_index(sym, sort):
    """'@S_3', 'S' -> 3 (None if the symbol is not an abstract value of that sort)."""
    m = re.match(r'@(.*)_([0-9]+)\Z', sym, re.S)
    return int(m.group(2)) if m and m.group(1) == sort else None


# ----------------------------------------------------------------------------- evaluation
def _bv(w, n):
    return ("bv", w, n & ((1 << w) - 1))


def _ediv(a, b):
    """SMT-LIB (Euclidean) integer division; division by zero yields 0 (documented choice)."""
    if b == 0:
        return 0
    return a // b if b > 0 else -(a // -b)


def _apply(op, a):
    """Apply theory operator `op` to the evaluated arguments `a`."""
    if op == 'not':
        return not a[0]
    if op == 'xor':
        return sum(1 for x in a if x) % 2 == 1
    if op == '=>':                                      # right associative
        return (not all(a[:-1])) or a[-1]
    if op == '=':
        return all(x == y for x, y in zip(a, a[1:]))
    if op == 'distinct':
        return all(x != y for x, y in itertools.combinations(a, 2))
    if op in INT_CMP:                                   # chainable
        return all(INT_CMP[op](x, y) for x, y in zip(a, a[1:]))
    if op == '+':
        return sum(a)
    if op == '-':
        return -a[0] if len(a) == 1 else a[0] - sum(a[1:])
    if op == '*':
        r = 1
        for x in a:
            r *= x
        return r
    if op == 'div':
        r = a[0]
        for x in a[1:]:
            r = _ediv(r, x)
        return r
    if op == 'mod':                                     # x mod 0 = x (documented choice)
        return a[0] - a[1] * _ediv(a[0], a[1])
    if op == 'abs':
        return abs(a[0])
    w = a[0][1]
    if op == 'bvnot':
        return _bv(w, ~a[0][2])
    if op == 'bvneg':
        return _bv(w, -a[0][2])
    if op == 'concat':
        return _bv(w + a[1][1], (a[0][2] << a[1][1]) | a[1][2])
    if op == 'bvcomp':
        return _bv(1, int(a[0][2] == a[1][2]))
    if op in BVCMP:
        return BVCMP[op](w, a[0][2], a[1][2])
    return _bv(w, BV2[op](w, a[0][2], a[1][2]))


def _apply_indexed(h, v):
    name, idx, w, x = h[1], [int(i) for i in h[2:]], v[1], v[2]
    if name == 'extract':
        return _bv(idx[0] - idx[1] + 1, x >> idx[1])
    k = idx[0]
    if name == 'zero_extend':
        return _bv(w + k, x)
    if name == 'sign_extend':
        return _bv(w + k, _sg(w, x))
    if name == 'repeat':
        return _bv(w * k, sum(x << (w * i) for i in range(k)))
    k = k % w if name == 'rotate_left' else (w - k % w) % w
    return _bv(w, (x << k) | (x >> (w - k)))


def eval_term(t, env, loc=None):
    """Evaluate `t`.  env: name -> value (or Def, expanded at use); loc: local bindings.
    An undeclared free symbol raises KeyError.  Terms are assumed well-sorted."""
    loc = loc or {}
    while True:
        if not isinstance(t, list):
            if t in loc:
                return loc[t]
            if type(t) is str:
                if t == 'true':
                    return True
                if t == 'false':
                    return False
                if _NUMERAL.match(t):
                    return int(t)
                if _BIN.match(t):
                    return ("bv", len(t) - 2, int(t[2:], 2))
                if _HEX.match(t):
                    return ("bv", 4 * (len(t) - 2), int(t[2:], 16))
            if isinstance(t, Str) or _is_literal(t):
                raise SmtError("cannot evaluate: %s" % show(t))
            v = env[str(t)]
            return eval_term(v.body, env, {}) if isinstance(v, Def) else v
        h = t[0]
        if isinstance(h, list):
            if len(h) == 3 and h[0] == 'as' and h[1] == 'const':
                isort = _struct_sort(h[2])[1]
                return ("arr", isort, (eval_term(t[1], env, loc),) * len(domain(isort, EVAL_INT_RANGE[0])))
            return _apply_indexed(h, eval_term(t[1], env, loc))
        if type(h) is str:
            if h in ('forall', 'exists') and h not in loc:
                # quantifiers range over the finite universes of the enumeration
                names = [str(b[0]) for b in t[1]]
                doms = [domain(_struct_sort(b[1]), EVAL_INT_RANGE[0]) for b in t[1]]
                found = False
                for vals in itertools.product(*doms):
                    new = dict(loc)
                    new.update(zip(names, vals))
                    v = eval_term(t[2], env, new)
                    if v != (h == 'forall'):
                        found = True
                        break
                return (not found) if h == 'forall' else found
            if h in ('select', 'store'):
                a = [eval_term(x, env, loc) for x in t[1:]]
                k = domain(a[0][1], EVAL_INT_RANGE[0]).index(a[1])
                if h == 'select':
                    return a[0][2][k]
                return ("arr", a[0][1], a[0][2][:k] + (a[2],) + a[0][2][k + 1:])
            if h == 'let':                              # parallel: values in the OUTER scope
                new = dict(loc)
                for b in t[1]:
                    new[str(b[0])] = eval_term(b[1], env, loc)
                loc, t = new, t[2]
                continue
            if h == '!':
                t = t[1]
                continue
            if h == 'ite':
                t = t[2] if eval_term(t[1], env, loc) else t[3]
                continue
            if h == '_':
                return _bv(int(t[2]), int(t[1][2:]))
            if h == 'as':
                return ("u", str(t[2]), _abstract_index(t[1], t[2]))
            if h == 'and':
                return all(eval_term(a, env, loc) for a in t[1:])
            if h == 'or':
                return any(eval_term(a, env, loc) for a in t[1:])
            if h in THEORY_OPS:
                return _apply(h, [eval_term(a, env, loc) for a in t[1:]])
        d = env[str(h)]                                  # user function: expand at use
        if not isinstance(d, Def) or len(d.params) != len(t) - 1:
            raise SmtError("cannot apply: %s" % h)
        loc = {p: eval_term(a, env, loc) for (p, _), a in zip(d.params, t[1:])}
        t = d.body


# the Int range used when a quantifier or an array index ranges over Int (set by Solver / the harness)
EVAL_INT_RANGE = [8]


def set_int_range(n):
    EVAL_INT_RANGE[0] = n


def _struct_sort(x):
    """Sort s-expression -> representation, structurally (the term was sort-checked before)."""
    if isinstance(x, list):
        if len(x) == 3 and x[0] == '_':
            return ('BV', int(x[2]))
        if len(x) == 3 and type(x[0]) is str and x[0] == 'Array':
            return ('Array', _struct_sort(x[1]), _struct_sort(x[2]))
        return ('U', '(%s %s)' % (x[0], ' '.join(show_sort(_struct_sort(y)) for y in x[1:])))
    return str(x) if x in ('Bool', 'Int') and not isinstance(x, Sym) else ('U', str(x))


def show_value(v):
    if v is True or v is False:
        return 'true' if v else 'false'
    if isinstance(v, int):
        return str(v) if v >= 0 else '(- %d)' % -v
    if v[0] == 'bv':
        return '#b' + format(v[2], '0%db' % v[1])
    if v[0] == 'arr':
        return '(array %s)' % ' '.join(show_value(x) for x in v[2])     # not SMT-LIB: never parsed back
    return '(as %s %s)' % (_show_atom(Sym('@%s_%d' % (v[1], v[2]))), show_sort(('U', v[1])))


def parse_value(x):
    """Value literal as printed by get-value -> value representation."""
    if type(x) is str and x[:1] == '(':
        x = read_all(x)[0]
    if isinstance(x, list):
        if len(x) == 2 and x[0] == '-' and type(x[1]) is str and _NUMERAL.match(x[1]):
            return -int(x[1])
        if len(x) == 3 and x[0] == 'as' and _abstract_index(x[1], x[2]) is not None:
            return ("u", str(x[2]), _abstract_index(x[1], x[2]))
        if not (len(x) == 3 and x[0] == '_' and all(type(y) is str for y in x)
                and re.match(r'bv[0-9]+\Z', x[1]) and _NUMERAL.match(x[2])):
            raise ValueError("not a value: %s" % show(x))
    elif isinstance(x, (Sym, Str)) or not (_is_literal(x) and x[0] != ':' and not _DECIMAL.match(x)):
        raise ValueError("not a value: %s" % show(x))
    return eval_term(x, {})


def domain(sort, int_range):
    if sort == 'Bool':
        return [False, True]
    if sort == 'Int':
        return list(range(-int_range, int_range + 1))
    if sort[0] == 'BV':
        return [("bv", sort[1], i) for i in range(1 << sort[1])]
    if sort[0] == 'Array':
        n = len(domain(sort[1], int_range))
        return [("arr", sort[1], vs) for vs in itertools.product(domain(sort[2], int_range), repeat=n)]
    return [("u", sort[1], 0), ("u", sort[1], 1)]


def first_value(sort, int_range):
    return ("bv", sort[1], 0) if sort[0] == 'BV' else domain(sort, int_range)[0]


# ----------------------------------------------------------------------------- the solver
class Level:
    """One level of the assertion stack."""
    def __init__(self):
        self.decls = {}      # name -> sort            (declare-fun / declare-const)
        self.defs = {}       # name -> Def             (define-fun)
        self.sorts = set()   # declared sort names     (declare-sort)
        self.asserts = []    # asserted terms


def _err(msg):
    return '(error "%s")' % ' '.join(str(msg).split()).replace('"', '""')


class Solver:
    def __init__(self, int_range=8):
        self.int_range = int_range
        set_int_range(int_range)
        self.reset()

    def reset(self):
        self.levels = [Level()]
        self.sort_arity = {}          # sort name -> arity (entries of popped sorts are never read)
        self.mode = "assert"          # "assert" | "sat" | "unsat"
        self.model = None             # name -> value, valid in sat mode
        self.logic = None
        self.print_success = True     # SMT-LIB 2.6 default
        self.produce_models = False
        self.exited = False

    # -- scope helpers
    def scope(self):
        sc = {SORTS_KEY: self.user_sorts()}
        for lv in self.levels:
            sc.update(lv.decls)
            sc.update(lv.defs)
        return sc

    def user_sorts(self):
        """Declared sort names in scope -> arity (a dict: `name in user_sorts()` works as before)."""
        return {n: self.sort_arity.get(n, 0) for lv in self.levels for n in lv.sorts}

    def _new_name(self, x):
        if isinstance(x, Str) or not _is_symbol(x):
            raise SmtError("malformed command: %s is not a symbol" % show(x))
        if is_reserved(x) or any(x in lv.decls or x in lv.defs for lv in self.levels):
            raise SmtError("symbol already declared: %s" % x)
        return str(x)

    # -- command entry point
    def command(self, sexp):
        """Execute one command.  Returns (reply_text_or_None, printed)."""
        try:
            reply = self._dispatch(sexp)
        except SmtError as e:
            reply = _err(e)
        except Exception as e:                          # robustness: never die on a command
            reply = _err("internal: %s: %s" % (type(e).__name__, e))
        if reply is None:                               # success
            return ("success", True) if self.print_success else (None, False)
        return reply, True

    def _dispatch(self, c):
        if not isinstance(c, list) or not c or type(c[0]) is not str:
            raise SmtError("malformed command: %s" % show(c))
        fn = getattr(self, 'cmd_' + c[0].replace('-', '_'), None)
        if fn is None or '_' in c[0]:
            raise SmtError("unknown command: %s" % c[0])
        return fn(c[1:])

    @staticmethod
    def _arity(name, a, n):
        if len(a) != n:
            raise SmtError("malformed command: %s expects %d argument(s)" % (name, n))

    def _changed(self):
        self.mode, self.model = "assert", None

    # -- options / info
    def cmd_set_option(self, a):
        if not a or not (type(a[0]) is str and a[0].startswith(':')) or len(a) > 2:
            raise SmtError("malformed command: set-option")
        if a[0] in (':print-success', ':produce-models'):
            if len(a) != 2 or type(a[1]) is not str or a[1] not in ('true', 'false'):
                raise SmtError("malformed command: %s expects true or false" % a[0])
            setattr(self, a[0][1:].replace('-', '_'), a[1] == 'true')

    def cmd_set_info(self, a):
        if not a or not (type(a[0]) is str and a[0].startswith(':')) or len(a) > 2:
            raise SmtError("malformed command: set-info")

    def cmd_get_info(self, a):
        self._arity('get-info', a, 1)
        if not (type(a[0]) is str and a[0].startswith(':')):
            raise SmtError("malformed command: get-info expects a keyword")
        info = {':name': '"smtref"', ':version': '"1.0"', ':authors': '"verif harness"',
                ':error-behavior': 'continued-execution', ':reason-unknown': 'incomplete'}
        return '(%s %s)' % (a[0], info[a[0]]) if a[0] in info else 'unsupported'

    def cmd_set_logic(self, a):
        self._arity('set-logic', a, 1)
        if isinstance(a[0], Str) or not _is_symbol(a[0]):
            raise SmtError("malformed command: set-logic expects a symbol")
        if self.logic is not None:
            raise SmtError("set-logic: logic already set to %s" % self.logic)
        self.logic = str(a[0])

    def cmd_echo(self, a):
        self._arity('echo', a, 1)
        if not isinstance(a[0], Str):
            raise SmtError("malformed command: echo expects a string literal")
        return ' '.join(show(a[0]).splitlines())        # keep the one-line-per-reply invariant

    def cmd_exit(self, a):
        self._arity('exit', a, 0)
        self.exited = True

    # -- declarations
    def cmd_declare_sort(self, a):
        if len(a) not in (1, 2) or (len(a) == 2 and not (type(a[1]) is str and _NUMERAL.match(a[1]))):
            raise SmtError("malformed command: declare-sort expects a symbol and a numeral")
        if isinstance(a[0], Str) or not _is_symbol(a[0]):
            raise SmtError("malformed command: %s is not a symbol" % show(a[0]))
        if a[0] in ('Bool', 'Int', 'Real', 'BitVec') or a[0] in self.user_sorts():
            raise SmtError("sort already declared: %s" % a[0])
        self.sort_arity[str(a[0])] = int(a[1]) if len(a) == 2 else 0
        self.levels[-1].sorts.add(str(a[0]))
        self._changed()

    def cmd_declare_fun(self, a):
        self._arity('declare-fun', a, 3)
        if not isinstance(a[1], list):
            raise SmtError("malformed command: declare-fun expects a list of argument sorts")
        name = self._new_name(a[0])
        if a[1]:
            raise SmtError("unsupported: function symbols with arguments")
        self.levels[-1].decls[name] = parse_sort(a[2], self.user_sorts())
        self._changed()

    def cmd_declare_const(self, a):
        self._arity('declare-const', a, 2)
        self.cmd_declare_fun([a[0], [], a[1]])

    def cmd_define_fun(self, a):
        self._arity('define-fun', a, 4)
        name, sorts, params = self._new_name(a[0]), self.user_sorts(), []
        if not isinstance(a[1], list):
            raise SmtError("malformed command: define-fun expects a parameter list")
        for p in a[1]:
            if not (isinstance(p, list) and len(p) == 2 and _is_symbol(p[0])) \
                    or (type(p[0]) is str and is_reserved(p[0])) or p[0] in [q for q, _ in params]:
                raise SmtError("malformed command: bad parameter %s" % show(p))
            params.append((str(p[0]), parse_sort(p[1], sorts)))
        ret = parse_sort(a[2], sorts)
        got = sort_of(a[3], self.scope(), dict(params))
        if got != ret:
            raise SmtError("sort error: body of %s has sort %s, expected %s"
                           % (name, show_sort(got), show_sort(ret)))
        self.levels[-1].defs[name] = Def(params, ret, a[3])
        self._changed()

    # -- assertion stack
    def cmd_assert(self, a):
        self._arity('assert', a, 1)
        s = sort_of(a[0], self.scope())
        if s != 'Bool':
            raise SmtError("sort error: assert expects a Bool term, got %s" % show_sort(s))
        self.levels[-1].asserts.append(a[0])
        self._changed()

    def _count(self, name, a):
        if len(a) > 1 or (a and not (type(a[0]) is str and _NUMERAL.match(a[0]))):
            raise SmtError("malformed command: %s expects a numeral" % name)
        return int(a[0]) if a else 1

    def cmd_push(self, a):
        self.levels.extend(Level() for _ in range(self._count('push', a)))
        self._changed()

    def cmd_pop(self, a):
        n = self._count('pop', a)
        if n > len(self.levels) - 1:
            raise SmtError("pop below the first level")
        del self.levels[len(self.levels) - n:]
        self._changed()

    def cmd_reset_assertions(self, a):
        self._arity('reset-assertions', a, 0)
        self.levels = [Level()]                         # :global-declarations is false
        self._changed()

    def cmd_reset(self, a):
        self._arity('reset', a, 0)
        self.reset()

    # -- solving
    def _env_and_free(self):
        """(env with every constant at its first value + the Defs, sorted free constants)."""
        decls, defs, terms = {}, {}, []
        for lv in self.levels:
            decls.update(lv.decls)
            defs.update(lv.defs)
            terms.extend(lv.asserts)
        seen, todo = set(), set().union(*map(free_symbols, terms)) if terms else set()
        while todo:                                     # close under define-fun bodies
            n = todo.pop()
            if n not in seen:
                seen.add(n)
                if n in defs:
                    todo |= free_symbols(defs[n].body) - {p for p, _ in defs[n].params}
        env = {n: first_value(s, self.int_range) for n, s in decls.items()}
        env.update(defs)
        return env, decls, terms, sorted(n for n in seen if n in decls)

    def cmd_check_sat(self, a):
        self._arity('check-sat', a, 0)
        env, decls, terms, free = self._env_and_free()
        total = 1
        for n in free:
            if decls[n][0] == 'BV' and decls[n][1] > MAX_BV_WIDTH:
                raise SmtError("unsupported: bit-vector width > %d" % MAX_BV_WIDTH)
            total *= len(domain(decls[n], self.int_range))
        self._changed()
        tried = 0
        for values in itertools.product(*(domain(decls[n], self.int_range) for n in free)):
            tried += 1
            if tried > MAX_ASSIGNMENTS:
                return 'unknown'
            env.update(zip(free, values))
            if all(eval_term(t, env) for t in terms):
                self.mode = "sat"
                self.model = {n: env[n] for n in decls}
                return 'sat'
        self.mode = "unsat"
        return 'unsat'

    def _model_env(self, what):
        if not self.produce_models:
            raise SmtError("%s: option :produce-models is not true" % what)
        if self.mode != "sat":
            raise SmtError("%s: not in sat mode" % what)
        env = dict(self.model)
        for lv in self.levels:
            env.update(lv.defs)
        return env

    def cmd_get_value(self, a):
        self._arity('get-value', a, 1)
        if not isinstance(a[0], list) or not a[0]:
            raise SmtError("malformed command: get-value expects a non-empty list of terms")
        env, scope = self._model_env('get-value'), self.scope()
        for t in a[0]:
            sort_of(t, scope)
        return '(%s)' % ' '.join('(%s %s)' % (show(t), show_value(eval_term(t, env))) for t in a[0])

    def cmd_get_model(self, a):
        self._arity('get-model', a, 0)
        self._model_env('get-model')
        sorts = {n: s for lv in self.levels for n, s in lv.decls.items()}
        return '(%s)' % ' '.join('(define-fun %s () %s %s)' % (
            _show_atom(Sym(n)), show_sort(sorts[n]), show_value(self.model[n])) for n in sorted(sorts))


# ----------------------------------------------------------------------------- log + main loop
def log_record(i, sexp, reply, printed, solver):
    """The JSON-able log record of one executed command (see module docstring / README)."""
    name = str(sexp[0]) if isinstance(sexp, list) and sexp and type(sexp[0]) is str else None
    symbols, args = set(), None
    try:
        a = sexp[1:] if name else []
        if name == 'assert':
            symbols = free_symbols(a[0])
        elif name == 'get-value':
            symbols = set().union(*map(free_symbols, a[0]))
        elif name == 'define-fun':
            symbols = free_symbols(a[3]) - {str(p[0]) for p in a[1]}
        elif name in ('declare-fun', 'declare-const'):
            symbols = {str(a[0])}
            args = {"name": str(a[0]), "sort": show(a[-1])}
        elif name in ('push', 'pop'):
            args = int(a[0]) if a else 1
    except Exception:
        pass                                            # malformed command: leave defaults
    return {"i": i, "name": name, "cmd": show(sexp), "symbols": sorted(symbols), "args": args,
            "reply": reply, "printed": printed, "level": len(solver.levels), "mode": solver.mode}


def main(argv=None):
    ap = argparse.ArgumentParser(description="strict reference SMT-LIB 2.6 solver (bounded)")
    ap.add_argument('--log', default=None)
    ap.add_argument('--idle-timeout', type=float, default=30.0)
    ap.add_argument('--int-range', type=int, default=8)
    opts = ap.parse_args(argv)
    log = open(opts.log, 'a', buffering=1) if opts.log else None
    solver = Solver(int_range=opts.int_range)
    decoder = codecs.getincrementaldecoder('utf-8')('replace')
    buf, count, eof = '', 0, False

    def write_log(rec):
        if log:
            log.write(json.dumps(rec) + '\n')
            log.flush()

    def answer(sexp, reply, printed):                   # log FIRST, then reply
        nonlocal count
        write_log(log_record(count, sexp, reply, printed, solver))
        count += 1
        if printed:
            sys.stdout.write(reply + '\n')
            sys.stdout.flush()

    while True:
        pos = 0
        while True:                                     # answer every complete command now
            try:
                sexp, pos = parse_one(buf, pos)
            except Incomplete:
                break
            except ParseError as e:
                pos = e.pos
                answer(Str(str(e)), _err("parse error: %s" % e), True)
                continue
            answer(sexp, *solver.command(sexp))
            if solver.exited:
                write_log({"end": "exit"})
                return 0
        buf = buf[pos:]
        if eof:
            write_log({"end": "eof"})
            return 0
        timeout = opts.idle_timeout if opts.idle_timeout > 0 else None
        if not select.select([0], [], [], timeout)[0]:
            write_log({"end": "idle-timeout"})
            return 3
        data = os.read(0, 65536)
        if data:
            buf += decoder.decode(data)
        else:                                           # EOF: a final newline ends atoms/comments
            buf, eof = buf + '\n', True


if __name__ == "__main__":
    # deep terms: run in a thread with a big stack and a high recursion limit
    sys.setrecursionlimit(200000)
    threading.stack_size(256 * 1024 * 1024)
    rc = []

    def _run():
        try:
            rc.append(main())
        except SystemExit as e:                         # argparse
            rc.append(e.code if isinstance(e.code, int) else 1)

    th = threading.Thread(target=_run)
    th.start()
    th.join()
    try:
        sys.stdout.flush()
    except Exception:
        pass
    os._exit(rc[0] if rc else 1)
