"""Independent reference evaluator for pySMT formulas (the SEARCH oracle of DESIGN.md 3.8).

Written from the SMT-LIB 2.6 theory documents (Core, Ints, Reals, Reals_Ints,
FixedSizeBitVectors + the QF_BV logic's derived operators, ArraysEx, Strings), not from pySMT.
Only *structural* accessors of FNode are used (node_type, args, payloads, symbol name/type);
nothing of pysmt's simplifier, substituter, type checker, printers or `get_type` is called.

Values
    Bool    -> Python bool            Int  -> Python int          Real -> fractions.Fraction
    BV      -> BV(width, value)  (value unsigned, 0 <= value < 2**width)
    String  -> Python str (sequence of code points)
    Array   -> ArrayVal(default, {index: value}, dom)   canonical: == is extensional equality
    U sorts -> UVal(sort_name, k)

See refeval_README.md for the API and the semantic choices.  `python -m harness.refeval
--selftest` runs unit checks and cross-validates every operator against z3 / cvc5 on closed terms.
"""
import itertools
import random
import sys
from collections import namedtuple
from fractions import Fraction

import pysmt.environment  # noqa: F401  (the BVType/ArrayType factories of pysmt.typing need the global type manager)
import pysmt.operators as op
from pysmt.typing import BOOL, INT, REAL, STRING, BVType, ArrayType


# ---------------------------------------------------------------------------------------------
# Exceptions
# ---------------------------------------------------------------------------------------------

class RefEvalError(Exception):
    pass


class DivisionByZeroEvaluated(RefEvalError):
    """An Int/Real division whose divisor evaluates to 0 was evaluated (interp.div0 == 'raise')."""


class Inexact(RefEvalError):
    """`evaluate` met a quantifier whose value could only be approximated on a sample domain."""

    def __init__(self, value):
        RefEvalError.__init__(self, "approximate quantifier evaluation (value on the sample: %r)" % (value,))
        self.value = value


class IllTyped(RefEvalError):
    pass


class Unsupported(RefEvalError):
    pass


class Unassigned(RefEvalError):
    """A free symbol has no value and the interpretation is not lazy."""


# ---------------------------------------------------------------------------------------------
# Values
# ---------------------------------------------------------------------------------------------

class BV(namedtuple("BV", "width value")):
    """Bit-vector value: `value` is the unsigned reading (bv2nat)."""
    __slots__ = ()

    def __new__(cls, width, value):
        if type(width) is not int or width <= 0:
            raise ValueError("BV width must be a positive int: %r" % (width,))
        if type(value) is not int or not (0 <= value < (1 << width)):
            raise ValueError("BV value out of range: width %r value %r" % (width, value))
        return tuple.__new__(cls, (width, value))

    def signed(self):
        """Two's complement reading."""
        return self.value - (1 << self.width) if self.value >> (self.width - 1) else self.value

    def __repr__(self):
        return "BV(%d,%d)" % (self.width, self.value)


UVal = namedtuple("UVal", "sort k")


def vkey(v):
    """A total order key on values of one sort (used for canonical forms and deterministic text)."""
    t = type(v)
    if t is bool:
        return (0, v)
    if t is int:
        return (1, v)
    if t is Fraction:
        return (2, v)
    if t is BV:
        return (3, v.width, v.value)
    if t is str:
        return (4, v)
    if t is UVal:
        return (5, v.sort, v.k)
    if t is ArrayVal:
        return (6, vkey(v.default), tuple(sorted((vkey(i), vkey(x)) for i, x in v.items.items())))
    raise TypeError("not a refeval value: %r" % (v,))


class ArrayVal(object):
    """Total function index -> element: `default` everywhere except on the keys of `items`.

    `dom` is the tuple of ALL values of the index sort when that sort is finite (and small), else
    None.  The representation is canonical, so that `==`/`hash` are extensional:
      * entries equal to the default are dropped;
      * over a finite index sort the default is the most frequent element of the whole function
        (ties: smallest `vkey`), so e.g. default 0 + {0:1,1:1,2:1,3:1} over BV2 == constant 1.
    Treat instances as immutable (use `.set`).
    """
    __slots__ = ("default", "items", "dom", "_h")

    def __init__(self, default, items=None, dom=None):
        it = {}
        if items:
            for k, v in items.items():
                if v != default:
                    it[k] = v
        if dom is not None and it and 2 * len(it) >= len(dom):
            counts = {}
            for v in it.values():
                counts[v] = counts.get(v, 0) + 1
            rest = len(dom) - len(it)
            if rest > 0:
                counts[default] = rest
            best = min(counts.items(), key=lambda kv: (-kv[1], vkey(kv[0])))[0]
            if best != default:
                new = {}
                for i in dom:
                    x = it.get(i, default)
                    if x != best:
                        new[i] = x
                default, it = best, new
        self.default = default
        self.items = it
        self.dom = dom
        self._h = None

    def get(self, i):
        return self.items.get(i, self.default)

    def set(self, i, v):
        if self.items.get(i, self.default) == v:
            return self
        it = dict(self.items)
        it[i] = v
        return ArrayVal(self.default, it, self.dom)

    def __eq__(self, other):
        return isinstance(other, ArrayVal) and self.default == other.default and self.items == other.items

    def __ne__(self, other):
        return not self.__eq__(other)

    def __hash__(self):
        if self._h is None:
            self._h = hash((self.default, frozenset(self.items.items())))
        return self._h

    def __repr__(self):
        its = sorted(self.items.items(), key=lambda kv: vkey(kv[0]))
        return "ArrayVal(%r, {%s})" % (self.default, ", ".join("%r: %r" % kv for kv in its))


# ---------------------------------------------------------------------------------------------
# Sorts (inspection of pysmt types only)
# ---------------------------------------------------------------------------------------------

def sort_name(t):
    """Own rendering of a pysmt type (used as the name of uninterpreted sorts and in seeds)."""
    if t.is_bool_type():
        return "Bool"
    if t.is_int_type():
        return "Int"
    if t.is_real_type():
        return "Real"
    if t.is_string_type():
        return "String"
    if t.is_bv_type():
        return "BV%d" % t.width
    if t.is_array_type():
        return "(Array %s %s)" % (sort_name(t.index_type), sort_name(t.elem_type))
    if t.is_function_type():
        return "(%s) -> %s" % (" ".join(sort_name(p) for p in t.param_types), sort_name(t.return_type))
    if t.is_custom_type():
        if t.args:
            return "(%s %s)" % (t.basename, " ".join(sort_name(a) for a in t.args))
        return str(t.basename)
    raise Unsupported("type %r" % (t,))


def has_sort(v, t, interp=None):
    """Is v a value of sort t (under interp's uninterpreted-domain sizes, if given)?"""
    if t.is_bool_type():
        return type(v) is bool
    if t.is_int_type():
        return type(v) is int
    if t.is_real_type():
        return type(v) is Fraction
    if t.is_string_type():
        return type(v) is str
    if t.is_bv_type():
        return type(v) is BV and v.width == t.width
    if t.is_array_type():
        return (type(v) is ArrayVal and has_sort(v.default, t.elem_type, interp)
                and all(has_sort(i, t.index_type, interp) and has_sort(x, t.elem_type, interp)
                        for i, x in v.items.items()))
    if t.is_custom_type():
        return (type(v) is UVal and v.sort == sort_name(t) and type(v.k) is int and v.k >= 0
                and (interp is None or v.k < interp.usize(t)))
    return False


# ---------------------------------------------------------------------------------------------
# Operator semantics on values (SMT-LIB 2.6)
# ---------------------------------------------------------------------------------------------
# --- Ints ----------------------------------------------------------------------------------
# Theory Ints: for n != 0, (div m n) = q and (mod m n) = r are the unique integers with
#   m = n*q + r  and  0 <= r < |n|.

def int_div(m, n):
    if n == 0:
        raise ZeroDivisionError
    if n > 0:
        return m // n            # floor: r = m - n*q in [0, n)
    return -(m // -n)            # n < 0: q = -floor(m / |n|), r = m - n*q in [0, |n|)


def int_mod(m, n):
    return m - n * int_div(m, n)


# --- FixedSizeBitVectors (core) + QF_BV (derived) ----------------------------------------------

def _mask(w):
    return (1 << w) - 1


def _same_width(a, b):
    if a.width != b.width:
        raise IllTyped("bit-vector widths differ: %d vs %d" % (a.width, b.width))
    return a.width


def bv_msb(a):
    return (a.value >> (a.width - 1)) & 1


def bv_not(a):
    return BV(a.width, ~a.value & _mask(a.width))


def bv_neg(a):
    # [[bvneg s]] := nat2bv[m](2^m - bv2nat(s))
    return BV(a.width, ((1 << a.width) - a.value) & _mask(a.width))


def bv_and(a, b):
    return BV(_same_width(a, b), a.value & b.value)


def bv_or(a, b):
    return BV(_same_width(a, b), a.value | b.value)


def bv_xor(a, b):
    # (bvxor s t) abbreviates (bvor (bvand s (bvnot t)) (bvand (bvnot s) t))
    return BV(_same_width(a, b), a.value ^ b.value)


def bv_add(a, b):
    w = _same_width(a, b)
    return BV(w, (a.value + b.value) & _mask(w))


def bv_sub(a, b):
    # (bvsub s t) abbreviates (bvadd s (bvneg t))
    return bv_add(a, bv_neg(b))


def bv_mul(a, b):
    w = _same_width(a, b)
    return BV(w, (a.value * b.value) & _mask(w))


def bv_udiv(a, b):
    # [[bvudiv s t]] := if bv2nat(t) = 0 then all ones else nat2bv(bv2nat(s) div bv2nat(t))
    w = _same_width(a, b)
    return BV(w, _mask(w) if b.value == 0 else a.value // b.value)


def bv_urem(a, b):
    # [[bvurem s t]] := if bv2nat(t) = 0 then s else nat2bv(bv2nat(s) mod bv2nat(t))
    w = _same_width(a, b)
    return BV(w, a.value if b.value == 0 else a.value % b.value)


def bv_shl(a, b):
    # nat2bv[m](bv2nat(s) * 2^(bv2nat(t)))
    w = _same_width(a, b)
    return BV(w, 0 if b.value >= w else (a.value << b.value) & _mask(w))


def bv_lshr(a, b):
    # nat2bv[m](bv2nat(s) div 2^(bv2nat(t)))
    w = _same_width(a, b)
    return BV(w, 0 if b.value >= w else a.value >> b.value)


def bv_ashr(a, b):
    # (ite (= msb(s) #b0) (bvlshr s t) (bvnot (bvlshr (bvnot s) t)))
    _same_width(a, b)
    if bv_msb(a) == 0:
        return bv_lshr(a, b)
    return bv_not(bv_lshr(bv_not(a), b))


def bv_sdiv(a, b):
    _same_width(a, b)
    ms, mt = bv_msb(a), bv_msb(b)
    if ms == 0 and mt == 0:
        return bv_udiv(a, b)
    if ms == 1 and mt == 0:
        return bv_neg(bv_udiv(bv_neg(a), b))
    if ms == 0 and mt == 1:
        return bv_neg(bv_udiv(a, bv_neg(b)))
    return bv_udiv(bv_neg(a), bv_neg(b))


def bv_srem(a, b):
    _same_width(a, b)
    ms, mt = bv_msb(a), bv_msb(b)
    if ms == 0 and mt == 0:
        return bv_urem(a, b)
    if ms == 1 and mt == 0:
        return bv_neg(bv_urem(bv_neg(a), b))
    if ms == 0 and mt == 1:
        return bv_urem(a, bv_neg(b))
    return bv_neg(bv_urem(bv_neg(a), bv_neg(b)))


def bv_smod(a, b):
    # not a pySMT node type (BVSMod is built from other nodes); here for completeness / validation
    w = _same_width(a, b)
    ms, mt = bv_msb(a), bv_msb(b)
    abs_s = a if ms == 0 else bv_neg(a)
    abs_t = b if mt == 0 else bv_neg(b)
    u = bv_urem(abs_s, abs_t)
    if u.value == 0:
        return u
    if ms == 0 and mt == 0:
        return u
    if ms == 1 and mt == 0:
        return bv_add(bv_neg(u), b)
    if ms == 0 and mt == 1:
        return bv_add(u, b)
    return bv_neg(u)


def bv_ult(a, b):
    _same_width(a, b)
    return a.value < b.value


def bv_ule(a, b):
    # (bvule s t) abbreviates (or (bvult s t) (= s t))
    _same_width(a, b)
    return a.value < b.value or a.value == b.value


def bv_slt(a, b):
    # (or (and (= msb_s #b1) (= msb_t #b0)) (and (= msb_s msb_t) (bvult s t)))
    ms, mt = bv_msb(a), bv_msb(b)
    return (ms == 1 and mt == 0) or (ms == mt and bv_ult(a, b))


def bv_sle(a, b):
    ms, mt = bv_msb(a), bv_msb(b)
    return (ms == 1 and mt == 0) or (ms == mt and bv_ule(a, b))


def bv_comp(a, b):
    # bit-wise xnor, and-reduced: #b1 iff s = t
    _same_width(a, b)
    return BV(1, 1 if a.value == b.value else 0)


def bv_concat(a, b):
    # first argument = most significant bits
    return BV(a.width + b.width, (a.value << b.width) | b.value)


def bv_extract(a, hi, lo):
    # ((_ extract i j) s), m > i >= j >= 0: bits j..i, bit 0 least significant; width i-j+1
    if not (a.width > hi >= lo >= 0):
        raise IllTyped("extract [%d:%d] of width %d" % (hi, lo, a.width))
    return BV(hi - lo + 1, (a.value >> lo) & _mask(hi - lo + 1))


def bv_zext(a, k):
    # ((_ zero_extend i) t) = (concat ((_ repeat i) #b0) t);  i = 0: t
    if k < 0:
        raise IllTyped("zero_extend %d" % k)
    return BV(a.width + k, a.value)


def bv_sext(a, k):
    # ((_ sign_extend i) t) = (concat ((_ repeat i) msb(t)) t);  i = 0: t
    if k < 0:
        raise IllTyped("sign_extend %d" % k)
    hi = _mask(k) if bv_msb(a) else 0
    return BV(a.width + k, (hi << a.width) | a.value)


def bv_rol(a, k):
    # ((_ rotate_left 0) t) = t; ((_ rotate_left i) t) = ((_ rotate_left i-1) (concat t[m-2:0] t[m-1]))
    # i single left rotations = one rotation by i mod m  (checked against the literal
    # definition in the self-test)
    if k < 0:
        raise IllTyped("rotate_left %d" % k)
    w = a.width
    k %= w
    return BV(w, ((a.value << k) | (a.value >> (w - k))) & _mask(w))


def bv_ror(a, k):
    # ((_ rotate_right i) t) = ((_ rotate_right i-1) (concat t[0] t[m-1:1]))
    if k < 0:
        raise IllTyped("rotate_right %d" % k)
    w = a.width
    k %= w
    return BV(w, ((a.value >> k) | (a.value << (w - k))) & _mask(w))


# --- Strings (SMT-LIB 2.6 theory of Unicode strings) --------------------------------------------

def _occurs_at(s, t, n):
    return s[n:n + len(t)] == t


def _first_occurrence(s, t, start):
    """smallest n >= start with s = u t v, |u| = n; None if there is none (0 <= start <= |s|)."""
    for n in range(start, len(s) - len(t) + 1):
        if _occurs_at(s, t, n):
            return n
    return None


def str_len(s):
    return len(s)


def str_concat(*ss):
    return "".join(ss)


def str_substr(s, i, n):
    # longest substring of s of length at most n starting at position i if 0 <= i < |s| and 0 < n;
    # the empty word otherwise
    if 0 <= i < len(s) and n > 0:
        return s[i:min(len(s), i + n)]
    return ""


def str_at(s, i):
    # [[str.at]](w, n) = [[str.substr]](w, n, 1)
    return str_substr(s, i, 1)


def str_contains(s, t):
    return _first_occurrence(s, t, 0) is not None


def str_prefixof(s, t):
    """s is a prefix of t  (SMT-LIB argument order: (str.prefixof s t))."""
    return len(s) <= len(t) and t[:len(s)] == s


def str_suffixof(s, t):
    """s is a suffix of t."""
    return len(s) <= len(t) and t[len(t) - len(s):] == s


def str_indexof(s, t, i):
    # smallest n >= i such that t occurs in s at position n, if 0 <= i <= |s| and there is one;
    # -1 otherwise.   (so indexof(s, "", i) = i for 0 <= i <= |s|)
    if i < 0 or i > len(s):
        return -1
    n = _first_occurrence(s, t, i)
    return -1 if n is None else n


def str_replace(s, t1, t2):
    # s if t1 does not occur in s; else u1 t2 u2 where s = u1 t1 u2 with u1 shortest
    # (t1 empty: u1 empty, i.e. t2 is prepended)
    n = _first_occurrence(s, t1, 0)
    if n is None:
        return s
    return s[:n] + t2 + s[n + len(t1):]


def str_to_int(s):
    # -1 unless s is a non-empty word of digits '0'..'9' (code points 0x30..0x39); leading zeros ok
    if s == "":
        return -1
    v = 0
    for c in s:
        d = ord(c) - 0x30
        if not (0 <= d <= 9):
            return -1
        v = v * 10 + d
    return v


def str_from_int(n):
    # decimal numeral without leading zeros for n >= 0; empty word for n < 0
    if n < 0:
        return ""
    if n == 0:
        return "0"
    ds = []
    while n:
        n, d = divmod(n, 10)
        ds.append(chr(0x30 + d))
    return "".join(reversed(ds))


# ---------------------------------------------------------------------------------------------
# Interpretations
# ---------------------------------------------------------------------------------------------

_BIG_INTS = (2 ** 70, -(2 ** 65) - 1, 255, 256, -256, 10 ** 20)
_STR_ALPHABET = "ab019"


def _symkey(s):
    """(name, type) of a symbol given as FNode symbol or as a (name, type) pair."""
    if isinstance(s, tuple):
        return s
    return (s.symbol_name(), s.symbol_type())


class Interp(object):
    """An SMT-LIB structure restricted to what a finite set of formulas can observe.

    symbols      {(name, type): value}                 free symbols (also accepts FNode keys)
    functions    {(name, funtype): dict | callable}    dict: args tuple -> value (lazily completed)
    usizes       {sort_name: n >= 1}                   finite domains of uninterpreted sorts
    seed         all lazily drawn values (function table entries, unassigned symbols, samples for
                 approximate quantifiers, x/0 in 'function' mode) are a deterministic function of
                 (seed, what is being drawn) - never of the evaluation order.
    div0         'raise': evaluating an Int/Real division by 0 raises DivisionByZeroEvaluated;
                 'function': (/ x 0), (div x 0) are fixed lazily-drawn functions of x (SMT-LIB).
    lazy         draw values for symbols that were not assigned (else raise Unassigned)
    """

    def __init__(self, symbols=None, functions=None, usizes=None, seed=0, div0="raise",
                 default_usize=2, int_range=(-8, 8), lazy=True, enum_limit=65536, bv_enum_width=8):
        if div0 not in ("raise", "function"):
            raise ValueError("div0 must be 'raise' or 'function'")
        self.seed = seed
        self.div0 = div0
        self.default_usize = default_usize
        self.int_range = int_range
        self.lazy = lazy
        self.enum_limit = enum_limit
        self.bv_enum_width = bv_enum_width
        self.usizes = dict(usizes or {})
        for n in list(self.usizes.values()) + [default_usize]:
            if type(n) is not int or n < 1:
                raise ValueError("uninterpreted sorts have non-empty finite domains")
        self.symbols = {}
        self.functions = {}
        self._doms = {}
        self._samples = {}
        for k, v in (functions or {}).items():
            self.functions[_symkey(k)] = v
        for k, v in (symbols or {}).items():
            self.set_symbol(k, v)

    # -- uninterpreted sorts -------------------------------------------------------------------
    def usize(self, t):
        return self.usizes.get(sort_name(t), self.default_usize)

    # -- random draws that depend only on (seed, key) ------------------------------------------------
    def _rng(self, key):
        return random.Random("%r|%s" % (self.seed, key))

    # -- symbols --------------------------------------------------------------------------------
    def set_symbol(self, sym, value):
        name, t = _symkey(sym)
        value = self.normalize(value, t)
        if not has_sort(value, t, self):
            raise IllTyped("value %r is not of sort %s (symbol %s)" % (value, sort_name(t), name))
        self.symbols[(name, t)] = value

    def value(self, sym):
        k = _symkey(sym)
        try:
            return self.symbols[k]
        except KeyError:
            pass
        if k[1].is_function_type():
            raise IllTyped("function symbol %s used as a term" % k[0])
        if not self.lazy:
            raise Unassigned("no value for symbol %s" % k[0])
        v = random_value(self._rng("sym|%s|%s" % (k[0], sort_name(k[1]))), k[1], self)
        self.symbols[k] = v
        return v

    # -- functions ------------------------------------------------------------------------------
    def set_function(self, fsym, table_or_callable):
        self.functions[_symkey(fsym)] = table_or_callable

    def apply(self, fsym, args):
        k = _symkey(fsym)
        tab = self.functions.get(k)
        if tab is None:
            tab = self.functions[k] = {}
        if not isinstance(tab, dict):
            return tab(*args)
        try:
            return tab[args]
        except KeyError:
            pass
        ft = k[1]
        if not ft.is_function_type() or len(ft.param_types) != len(args):
            raise IllTyped("bad application of %s" % k[0])
        key = "fun|%s|%s|%s" % (k[0], sort_name(ft), ",".join(_vtext(a) for a in args))
        v = random_value(self._rng(key), ft.return_type, self)
        tab[args] = v
        return v

    # -- division by zero -----------------------------------------------------------------------
    def div_by_zero(self, kind, x):
        """kind: 'int' ((div x 0)) or 'real' ((/ x 0))."""
        if self.div0 == "raise":
            raise DivisionByZeroEvaluated("%s division of %r by zero" % (kind, x))
        tab = self.functions.setdefault(("@div0_" + kind, None), {})
        if x not in tab:
            tab[x] = random_value(self._rng("div0|%s|%s" % (kind, _vtext(x))), INT if kind == "int" else REAL, self)
        return tab[x]

    # -- domains --------------------------------------------------------------------------------
    def finite_domain(self, t, limit=None):
        """Tuple of ALL values of sort t, or None when t is infinite or has more than `limit`
        (default 4096) values."""
        limit = 4096 if limit is None else limit
        ck = (t, limit)
        if ck in self._doms:
            return self._doms[ck]
        d = None
        if t.is_bool_type():
            d = (False, True)
        elif t.is_bv_type():
            if t.width <= 16 and (1 << t.width) <= limit:
                d = tuple(BV(t.width, v) for v in range(1 << t.width))
        elif t.is_custom_type():
            n = self.usize(t)
            if n <= limit:
                sn = sort_name(t)
                d = tuple(UVal(sn, k) for k in range(n))
        elif t.is_array_type():
            di = self.finite_domain(t.index_type, 16)
            de = self.finite_domain(t.elem_type, 256)
            if di is not None and de is not None and len(de) ** len(di) <= min(limit, 256):
                d = tuple(ArrayVal(c[0], dict(zip(di, c)), di) for c in itertools.product(de, repeat=len(di)))
        self._doms[ck] = d
        return d

    def index_dom(self, t):
        """`dom` argument of ArrayVal for arrays with index sort t."""
        return self.finite_domain(t, 4096)

    def sample_domain(self, t):
        """A finite, deterministic sample of an infinite (or too large) sort, for approximate
        quantifier evaluation."""
        if t in self._samples:
            return self._samples[t]
        rng = self._rng("sample|" + sort_name(t))
        lo, hi = self.int_range
        if t.is_int_type():
            d = list(range(lo, hi + 1)) + [hi + 1 + rng.randint(0, 50), lo - 1 - rng.randint(0, 50), 2 ** 70, -(2 ** 65) - 1]
        elif t.is_real_type():
            d = sorted(set(Fraction(n, k) for n in range(-4, 5) for k in (1, 2, 3)))
            d += [Fraction(rng.randint(-100, 100), rng.randint(1, 9)), Fraction(10 ** 20 + 1, 7)]
        elif t.is_string_type():
            d = [""] + list("ab0") + [x + y for x in "ab0" for y in "ab0"] + ["abc", "aba", "12", "007", "-1", "a b"]
        elif t.is_bv_type():
            w = t.width
            m = _mask(w)
            vs = set([0, 1, m, m - 1, 1 << (w - 1), (1 << (w - 1)) - 1, w & m, (w - 1) & m, (w + 1) & m])
            vs.update(range(0, min(16, m + 1)))
            while len(vs) < min(40, m + 1):
                vs.add(rng.randint(0, m))
            d = [BV(w, v) for v in sorted(vs)]
        elif t.is_array_type():
            dom = self.index_dom(t.index_type)
            es = self.finite_domain(t.elem_type, 8)
            es = list(es) if es is not None else list(self.sample_domain(t.elem_type))
            idx = self.finite_domain(t.index_type, 8)
            idx = list(idx) if idx is not None else list(self.sample_domain(t.index_type))
            es_s = es if len(es) <= 4 else rng.sample(es, 4)
            d = [ArrayVal(e, None, dom) for e in es_s]
            for _ in range(8):
                a = ArrayVal(rng.choice(es), None, dom)
                for _ in range(rng.randint(1, 3)):
                    a = a.set(rng.choice(idx), rng.choice(es))
                d.append(a)
            seen = set()
            d = [a for a in d if not (a in seen or seen.add(a))]
        elif t.is_custom_type():
            sn = sort_name(t)
            d = [UVal(sn, k) for k in range(self.usize(t))]
        else:
            raise Unsupported("no sample domain for %s" % sort_name(t))
        d = tuple(d)
        self._samples[t] = d
        return d

    # -- values ---------------------------------------------------------------------------------
    def normalize(self, v, t):
        """Re-canonicalise array values for sort t (sets `dom` according to this interp)."""
        if type(v) is ArrayVal and t.is_array_type():
            et, it = t.elem_type, t.index_type
            return ArrayVal(self.normalize(v.default, et),
                            dict((self.normalize(i, it), self.normalize(x, et)) for i, x in v.items.items()),
                            self.index_dom(it))
        if type(v) is int and t.is_real_type():
            return Fraction(v)
        return v

    def copy(self):
        """Same structure (function tables are shared objects, symbols are copied)."""
        o = Interp.__new__(Interp)
        o.__dict__.update(self.__dict__)
        o.symbols = dict(self.symbols)
        return o

    def describe(self):
        """Deterministic, JSON-friendly text of the assigned symbols and the touched tables."""
        out = {"seed": self.seed, "div0": self.div0, "usizes": dict(self.usizes), "default_usize": self.default_usize,
               "symbols": {}, "functions": {}}
        for (n, t), v in sorted(self.symbols.items(), key=lambda kv: kv[0][0]):
            out["symbols"]["%s : %s" % (n, sort_name(t))] = _vtext(v)
        for (n, t), tab in sorted(self.functions.items(), key=lambda kv: kv[0][0]):
            if isinstance(tab, dict):
                out["functions"][n] = dict(sorted(("(%s)" % ", ".join(_vtext(a) for a in k) if isinstance(k, tuple) else _vtext(k),
                                                   _vtext(v)) for k, v in tab.items()))
        return out


def _vtext(v):
    """Deterministic text of a value."""
    t = type(v)
    if t is Fraction:
        return "%d/%d" % (v.numerator, v.denominator)
    if t is ArrayVal:
        return "[%s|%s]" % (_vtext(v.default), ",".join("%s:%s" % (_vtext(i), _vtext(x)) for i, x in
                                                         sorted(v.items.items(), key=lambda kv: vkey(kv[0]))))
    if t is UVal:
        return "%s!%d" % (v.sort, v.k)
    return repr(v)


def random_value(rnd, t, interp=None, int_range=None):
    """A random value of sort t drawn from rnd (biased to corner cases)."""
    interp = interp if interp is not None else _DEFAULT_INTERP
    lo, hi = int_range if int_range is not None else interp.int_range
    if t.is_bool_type():
        return rnd.random() < 0.5
    if t.is_int_type():
        if rnd.random() < 0.08:
            return rnd.choice(_BIG_INTS)
        return rnd.randint(lo, hi)
    if t.is_real_type():
        if rnd.random() < 0.05:
            return Fraction(10 ** 20 + 1, 7)
        return Fraction(rnd.randint(lo, hi), rnd.choice((1, 1, 2, 3, 4)))
    if t.is_bv_type():
        w = t.width
        m = _mask(w)
        r = rnd.random()
        if r < 0.5:
            return BV(w, rnd.randint(0, m))
        return BV(w, rnd.choice((0, 1 & m, m, 1 << (w - 1), (1 << (w - 1)) - 1 if w > 1 else 0, w & m, (m - 1) & m)))
    if t.is_string_type():
        n = rnd.choice((0, 1, 1, 2, 2, 3, 4))
        alpha = "0123456789" if rnd.random() < 0.3 else _STR_ALPHABET
        return "".join(rnd.choice(alpha) for _ in range(n))
    if t.is_custom_type():
        return UVal(sort_name(t), rnd.randrange(interp.usize(t)))
    if t.is_array_type():
        a = ArrayVal(random_value(rnd, t.elem_type, interp, int_range), None, interp.index_dom(t.index_type))
        for _ in range(rnd.choice((0, 1, 2, 3))):
            a = a.set(random_value(rnd, t.index_type, interp, int_range), random_value(rnd, t.elem_type, interp, int_range))
        return a
    raise Unsupported("no values of type %s" % sort_name(t))


_DEFAULT_INTERP = Interp()


# ---------------------------------------------------------------------------------------------
# Structural helpers (iterative; no recursion on formula depth)
# ---------------------------------------------------------------------------------------------

def postorder(roots, known=None):
    """Distinct nodes under roots, children first.  Quantifier variables and function names are
    payloads, not children.  Nodes in `known` (a container) are not entered."""
    seen, order = set(), []
    if known is not None:
        roots = [r for r in roots if r not in known]
    stack = [(r, False) for r in reversed(list(roots))]
    while stack:
        n, done = stack.pop()
        if done:
            order.append(n)
            continue
        if n in seen:
            continue
        seen.add(n)
        stack.append((n, True))
        for c in reversed(n.args()):
            if c not in seen and (known is None or c not in known):
                stack.append((c, False))
    return order


def free_symbols(formulas, memo=None):
    """Free (non-function) symbols of the formulas, as a frozenset of symbol nodes (own computation)."""
    memo = {} if memo is None else memo
    formulas = list(formulas)
    for n in postorder(formulas, memo):
        nt = n.node_type()
        if nt == op.SYMBOL:
            memo[n] = frozenset([n])
        elif nt in (op.FORALL, op.EXISTS):
            memo[n] = memo[n.args()[0]] - frozenset(n.quantifier_vars())
        else:
            s = frozenset()
            for c in n.args():
                s |= memo[c]
            memo[n] = s
    out = frozenset()
    for f in formulas:
        out |= memo[f]
    return out


def symbols_and_sorts(formulas):
    """(free symbols, bound symbols, function symbols, all types mentioned) of the formulas."""
    free = free_symbols(formulas)
    bound, funs, types = set(), set(), set()
    for n in postorder(formulas):
        nt = n.node_type()
        if nt == op.SYMBOL:
            types.add(n.symbol_type())
        elif nt in (op.FORALL, op.EXISTS):
            for v in n.quantifier_vars():
                bound.add(v)
                types.add(v.symbol_type())
        elif nt == op.FUNCTION:
            fn = n.function_name()
            funs.add(fn)
            ft = fn.symbol_type()
            types.add(ft.return_type)
            types.update(ft.param_types)
        elif nt == op.ARRAY_VALUE:
            types.add(n.array_value_index_type())
    return free, bound, funs, types


def _custom_sorts(types):
    out, todo = set(), list(types)
    while todo:
        t = todo.pop()
        if t.is_array_type():
            todo += [t.index_type, t.elem_type]
        elif t.is_function_type():
            todo += list(t.param_types) + [t.return_type]
        elif t.is_custom_type():
            out.add(t)
            todo += list(t.args)
    return out


def random_interp(rnd, formulas, int_range=(-8, 8), div0="raise", max_usize=3, usizes=None, lazy=True):
    """An Interp assigning every free symbol of `formulas` (a formula or an iterable of formulas)
    a random value, with random domain sizes (1..max_usize) for the uninterpreted sorts they
    mention.  Function symbols get lazily filled random tables."""
    if hasattr(formulas, "node_type"):
        formulas = [formulas]
    formulas = list(formulas)
    free, _bound, _funs, types = symbols_and_sorts(formulas)
    us = {}
    for t in sorted(_custom_sorts(types), key=sort_name):
        us[sort_name(t)] = rnd.randint(1, max_usize)
    us.update(usizes or {})
    it = Interp(usizes=us, seed=rnd.getrandbits(64), div0=div0, int_range=int_range, lazy=lazy,
                default_usize=rnd.randint(1, max_usize))
    for s in sorted(free, key=lambda s: s.symbol_name()):
        t = s.symbol_type()
        if t.is_function_type():
            continue
        it.symbols[(s.symbol_name(), t)] = random_value(rnd, t, it)
    return it


def exhaustive_interps(formulas, limit=4096, usizes=None, seed=0, div0="raise", default_usize=2):
    """ALL assignments of the free symbols of `formulas` when each of their sorts is finite
    (Bool, bit-vectors, uninterpreted sorts of the given sizes, small finite arrays) and there
    are at most `limit` of them; else None.  Function symbols keep lazily drawn random tables
    (one table per `seed`), so the enumeration is exhaustive for UF-free formulas only."""
    if hasattr(formulas, "node_type"):
        formulas = [formulas]
    free = sorted((s for s in free_symbols(list(formulas)) if not s.symbol_type().is_function_type()),
                  key=lambda s: s.symbol_name())
    proto = Interp(usizes=usizes, seed=seed, div0=div0, default_usize=default_usize)
    doms, total = [], 1
    for s in free:
        d = proto.finite_domain(s.symbol_type(), limit)
        if d is None:
            return None
        total *= len(d)
        if total > limit:
            return None
        doms.append(d)
    out = []
    for vals in itertools.product(*doms):
        it = proto.copy()
        it.functions = proto.functions
        for s, v in zip(free, vals):
            it.symbols[(s.symbol_name(), s.symbol_type())] = v
        out.append(it)
    return out


def value_to_fnode(v, t, mgr):
    """The pysmt constant denoting value v of sort t (built with the FormulaManager's constant
    constructors only); Unsupported for elements of uninterpreted sorts."""
    if t.is_bool_type():
        return mgr.Bool(v)
    if t.is_int_type():
        return mgr.Int(v)
    if t.is_real_type():
        return mgr.Real(v)
    if t.is_string_type():
        return mgr.String(v)
    if t.is_bv_type():
        return mgr.BV(v.value, v.width)
    if t.is_array_type():
        return mgr.Array(t.index_type, value_to_fnode(v.default, t.elem_type, mgr),
                         dict((value_to_fnode(i, t.index_type, mgr), value_to_fnode(x, t.elem_type, mgr))
                              for i, x in sorted(v.items.items(), key=lambda kv: vkey(kv[0]))))
    raise Unsupported("no constant for %r of sort %s" % (v, sort_name(t)))


def interp_updated(interp, updates):
    """A new Interp equal to `interp` except on the given symbols ({symbol node | (name, type): value}).
    Function tables (and therefore all lazily drawn function values) are shared with `interp`."""
    o = interp.copy()
    for s, v in updates.items():
        o.set_symbol(s, v)
    return o


# ---------------------------------------------------------------------------------------------
# Typing (SMT-LIB sorting rules with pySMT's documented deviations)
# ---------------------------------------------------------------------------------------------

_BV_BIN_SAME = frozenset([op.BV_AND, op.BV_OR, op.BV_XOR, op.BV_ADD, op.BV_SUB, op.BV_MUL, op.BV_UDIV, op.BV_UREM,
                          op.BV_LSHL, op.BV_LSHR, op.BV_ASHR, op.BV_SDIV, op.BV_SREM])
_BV_REL = frozenset([op.BV_ULT, op.BV_ULE, op.BV_SLT, op.BV_SLE])


def _is_arith(t):
    return t.is_int_type() or t.is_real_type()


def _payload_width(n):
    p = n._content.payload
    return p[0] if isinstance(p, tuple) and p else None


def _type_node(n, a):
    """Type of node n given the types `a` of its arguments."""
    nt = n.node_type()

    def bad(msg):
        raise IllTyped("%s (node type %d, argument sorts %s)" % (msg, nt, [sort_name(x) for x in a]))

    def arity(k):
        if len(a) != k:
            bad("expected %d arguments" % k)

    for x in a:
        if x.is_function_type():
            bad("function-typed argument")

    def bvw(expected):
        """stored width payload must agree with the derived width"""
        p = _payload_width(n)
        if p != expected:
            bad("stored width %r but derived width %d" % (p, expected))
        return BVType(expected)

    if nt in (op.FORALL, op.EXISTS):
        arity(1)
        if not a[0].is_bool_type():
            bad("quantifier body must be Bool")
        for v in n.quantifier_vars():
            if v.node_type() != op.SYMBOL or v.symbol_type().is_function_type():
                bad("bound variable must be a first-order symbol")
        return BOOL
    if nt in (op.AND, op.OR):
        if not all(x.is_bool_type() for x in a):
            bad("Bool arguments expected")
        return BOOL
    if nt == op.NOT:
        arity(1)
        if not a[0].is_bool_type():
            bad("Bool argument expected")
        return BOOL
    if nt in (op.IMPLIES, op.IFF):
        arity(2)
        if not (a[0].is_bool_type() and a[1].is_bool_type()):
            bad("Bool arguments expected")
        return BOOL
    if nt == op.SYMBOL:
        arity(0)
        return n.symbol_type()
    if nt == op.FUNCTION:
        fn = n.function_name()
        if fn.node_type() != op.SYMBOL or not fn.symbol_type().is_function_type():
            bad("applied symbol is not a function")
        ft = fn.symbol_type()
        if len(ft.param_types) != len(a) or len(a) == 0:
            bad("wrong number of arguments for %s" % fn.symbol_name())
        for p, x in zip(ft.param_types, a):
            if p != x:
                bad("argument sort mismatch for %s" % fn.symbol_name())
        return ft.return_type
    if nt == op.BOOL_CONSTANT:
        arity(0)
        if type(n.constant_value()) is not bool:
            bad("payload is not a bool")
        return BOOL
    if nt == op.INT_CONSTANT:
        arity(0)
        if type(n.constant_value()) is not int:
            bad("payload is not an int")
        return INT
    if nt == op.REAL_CONSTANT:
        arity(0)
        if not isinstance(n.constant_value(), Fraction):
            bad("payload is not a Fraction")
        return REAL
    if nt == op.STR_CONSTANT:
        arity(0)
        if type(n.constant_value()) is not str:
            bad("payload is not a str")
        return STRING
    if nt == op.BV_CONSTANT:
        arity(0)
        p = n._content.payload
        if not (isinstance(p, tuple) and len(p) == 2 and type(p[0]) is int and type(p[1]) is int
                and p[1] > 0 and 0 <= p[0] < (1 << p[1])):
            bad("bad BV constant payload %r" % (p,))
        return BVType(p[1])
    if nt in (op.PLUS, op.TIMES):
        if len(a) < 1 or not _is_arith(a[0]) or any(x != a[0] for x in a):
            bad("arguments must be all Int or all Real")
        return a[0]
    if nt == op.MINUS:
        arity(2)
        if not _is_arith(a[0]) or a[0] != a[1]:
            bad("arguments must be both Int or both Real")
        return a[0]
    if nt == op.DIV:
        arity(2)
        if not _is_arith(a[0]) or a[0] != a[1]:
            bad("arguments must be both Int or both Real")
        return a[0]
    if nt == op.POW:
        arity(2)
        if not _is_arith(a[0]) or a[0] != a[1]:
            bad("arguments must be both Int or both Real")
        return REAL                      # pySMT: the result of Pow is Real
    if nt in (op.LE, op.LT):
        arity(2)
        if not _is_arith(a[0]) or a[0] != a[1]:
            bad("arguments must be both Int or both Real")
        return BOOL
    if nt == op.EQUALS:
        arity(2)
        if a[0] != a[1]:
            bad("both sides must have the same sort")
        if a[0].is_bool_type():
            bad("pySMT: Equals is not used on Bool (Iff is)")
        return BOOL
    if nt == op.ITE:
        arity(3)
        if not a[0].is_bool_type() or a[1] != a[2]:
            bad("ite: Bool condition and equal branch sorts expected")
        return a[1]
    if nt == op.TOREAL:
        arity(1)
        if not a[0].is_int_type():
            bad("to_real expects Int")
        return REAL
    if nt == op.BV_TONATURAL:
        arity(1)
        if not a[0].is_bv_type():
            bad("bv2nat expects a bit-vector")
        return INT
    if nt in (op.BV_NOT, op.BV_NEG):
        arity(1)
        if not a[0].is_bv_type():
            bad("bit-vector expected")
        return bvw(a[0].width)
    if nt in _BV_BIN_SAME:
        arity(2)
        if not a[0].is_bv_type() or a[0] != a[1]:
            bad("two bit-vectors of equal width expected")
        return bvw(a[0].width)
    if nt in _BV_REL:
        arity(2)
        if not a[0].is_bv_type() or a[0] != a[1]:
            bad("two bit-vectors of equal width expected")
        return BOOL
    if nt == op.BV_COMP:
        arity(2)
        if not a[0].is_bv_type() or a[0] != a[1]:
            bad("two bit-vectors of equal width expected")
        return bvw(1)
    if nt == op.BV_CONCAT:
        arity(2)
        if not (a[0].is_bv_type() and a[1].is_bv_type()):
            bad("bit-vectors expected")
        return bvw(a[0].width + a[1].width)
    if nt == op.BV_EXTRACT:
        arity(1)
        if not a[0].is_bv_type():
            bad("bit-vector expected")
        s, e = n.bv_extract_start(), n.bv_extract_end()
        if not (type(s) is int and type(e) is int and 0 <= s <= e < a[0].width):
            bad("extract [%r:%r] out of range" % (s, e))
        return bvw(e - s + 1)
    if nt in (op.BV_ROL, op.BV_ROR):
        arity(1)
        if not a[0].is_bv_type():
            bad("bit-vector expected")
        k = n.bv_rotation_step()
        if type(k) is not int or k < 0:
            bad("rotation step %r" % (k,))
        return bvw(a[0].width)
    if nt in (op.BV_ZEXT, op.BV_SEXT):
        arity(1)
        if not a[0].is_bv_type():
            bad("bit-vector expected")
        k = n.bv_extend_step()
        if type(k) is not int or k < 0:
            bad("extension step %r" % (k,))
        return bvw(a[0].width + k)
    if nt == op.STR_LENGTH:
        arity(1)
        if not a[0].is_string_type():
            bad("String expected")
        return INT
    if nt == op.STR_CONCAT:
        if len(a) < 1 or not all(x.is_string_type() for x in a):
            bad("Strings expected")
        return STRING
    if nt in (op.STR_CONTAINS, op.STR_PREFIXOF, op.STR_SUFFIXOF):
        arity(2)
        if not (a[0].is_string_type() and a[1].is_string_type()):
            bad("Strings expected")
        return BOOL
    if nt == op.STR_INDEXOF:
        arity(3)
        if not (a[0].is_string_type() and a[1].is_string_type() and a[2].is_int_type()):
            bad("(String String Int) expected")
        return INT
    if nt == op.STR_REPLACE:
        arity(3)
        if not all(x.is_string_type() for x in a):
            bad("Strings expected")
        return STRING
    if nt == op.STR_SUBSTR:
        arity(3)
        if not (a[0].is_string_type() and a[1].is_int_type() and a[2].is_int_type()):
            bad("(String Int Int) expected")
        return STRING
    if nt == op.STR_CHARAT:
        arity(2)
        if not (a[0].is_string_type() and a[1].is_int_type()):
            bad("(String Int) expected")
        return STRING
    if nt == op.STR_TO_INT:
        arity(1)
        if not a[0].is_string_type():
            bad("String expected")
        return INT
    if nt == op.INT_TO_STR:
        arity(1)
        if not a[0].is_int_type():
            bad("Int expected")
        return STRING
    if nt == op.ARRAY_SELECT:
        arity(2)
        if not a[0].is_array_type() or a[0].index_type != a[1]:
            bad("select: (Array I E) I expected")
        return a[0].elem_type
    if nt == op.ARRAY_STORE:
        arity(3)
        if not a[0].is_array_type() or a[0].index_type != a[1] or a[0].elem_type != a[2]:
            bad("store: (Array I E) I E expected")
        return a[0]
    if nt == op.ARRAY_VALUE:
        if len(a) % 2 != 1:
            bad("array value: default followed by index/value pairs expected")
        it = n.array_value_index_type()
        if it.is_function_type():
            bad("array index sort")
        for i in range(1, len(a), 2):
            if a[i] != it or a[i + 1] != a[0]:
                bad("array value: assignment %d has the wrong sorts" % (i // 2))
        return ArrayType(it, a[0])
    raise Unsupported("node type %d" % nt)


def type_of(formula, memo=None):
    """Independent type derivation.  Returns a pysmt type or raises IllTyped / Unsupported."""
    memo = {} if memo is None else memo
    if formula in memo:
        return memo[formula]
    for n in postorder([formula], memo):
        memo[n] = _type_node(n, [memo[c] for c in n.args()])
    return memo[formula]


# ---------------------------------------------------------------------------------------------
# Evaluation
# ---------------------------------------------------------------------------------------------

class EvalCache(object):
    """Interpretation-independent facts about formulas (types checked, free symbols, which
    sub-formulas may divide by zero); share one across the interpretations of a loop."""

    def __init__(self):
        self.types = {}
        self.fv = {}
        self.maydiv = {}

    def free(self, n):
        if n not in self.fv:
            free_symbols([n], self.fv)
        return self.fv[n]

    def may_div0(self, n):
        """Does n contain an Int/Real division whose divisor is not a non-zero constant?"""
        m = self.maydiv
        if n not in m:
            for x in postorder([n], m):
                r = False
                if x.node_type() == op.DIV:
                    d = x.args()[1]
                    r = not (d.node_type() in (op.INT_CONSTANT, op.REAL_CONSTANT) and d.constant_value() != 0)
                elif x.node_type() == op.POW:      # negative exponent: 1/b^k
                    d = x.args()[1]
                    r = not (d.node_type() in (op.INT_CONSTANT, op.REAL_CONSTANT) and d.constant_value() >= 0)
                m[x] = r or any(m[c] for c in x.args())
        return m[n]


def _pow(interp, b, e):
    if type(e) is Fraction:
        if e.denominator != 1:
            raise Unsupported("Pow with the non-integer exponent %s" % e)
        e = e.numerator
    b = Fraction(b)
    if e >= 0:
        return b ** e                     # b^0 = 1 (also for b = 0)
    if b == 0:
        return interp.div_by_zero("real", Fraction(1))
    return Fraction(1) / (b ** (-e))


def _div(interp, x, y):
    if type(x) is int and type(y) is int:
        if y == 0:
            return interp.div_by_zero("int", x)
        return int_div(x, y)
    if type(x) is Fraction and type(y) is Fraction:
        if y == 0:
            return interp.div_by_zero("real", x)
        return x / y
    raise IllTyped("Div on %r and %r" % (x, y))


def _sum(vs):
    s = vs[0]
    for v in vs[1:]:
        s = s + v
    return s


def _prod(vs):
    p = vs[0]
    for v in vs[1:]:
        p = p * v
    return p


def _fold(f):
    def g(n, v):
        r = v[0]
        for x in v[1:]:
            r = f(r, x)
        return r
    return g


_STRICT = {
    op.NOT: lambda n, v: not v[0],
    op.IFF: lambda n, v: v[0] == v[1],
    op.PLUS: lambda n, v: _sum(v),
    op.TIMES: lambda n, v: _prod(v),
    op.MINUS: lambda n, v: v[0] - v[1],
    op.LE: lambda n, v: v[0] <= v[1],
    op.LT: lambda n, v: v[0] < v[1],
    op.EQUALS: lambda n, v: v[0] == v[1],
    op.TOREAL: lambda n, v: Fraction(v[0]),
    op.BV_TONATURAL: lambda n, v: v[0].value,
    op.BV_NOT: lambda n, v: bv_not(v[0]),
    op.BV_NEG: lambda n, v: bv_neg(v[0]),
    op.BV_AND: _fold(bv_and), op.BV_OR: _fold(bv_or), op.BV_XOR: _fold(bv_xor),
    op.BV_ADD: _fold(bv_add), op.BV_MUL: _fold(bv_mul), op.BV_CONCAT: _fold(bv_concat),
    op.BV_SUB: lambda n, v: bv_sub(v[0], v[1]),
    op.BV_UDIV: lambda n, v: bv_udiv(v[0], v[1]),
    op.BV_UREM: lambda n, v: bv_urem(v[0], v[1]),
    op.BV_SDIV: lambda n, v: bv_sdiv(v[0], v[1]),
    op.BV_SREM: lambda n, v: bv_srem(v[0], v[1]),
    op.BV_LSHL: lambda n, v: bv_shl(v[0], v[1]),
    op.BV_LSHR: lambda n, v: bv_lshr(v[0], v[1]),
    op.BV_ASHR: lambda n, v: bv_ashr(v[0], v[1]),
    op.BV_ULT: lambda n, v: bv_ult(v[0], v[1]),
    op.BV_ULE: lambda n, v: bv_ule(v[0], v[1]),
    op.BV_SLT: lambda n, v: bv_slt(v[0], v[1]),
    op.BV_SLE: lambda n, v: bv_sle(v[0], v[1]),
    op.BV_COMP: lambda n, v: bv_comp(v[0], v[1]),
    op.BV_EXTRACT: lambda n, v: bv_extract(v[0], n.bv_extract_end(), n.bv_extract_start()),
    op.BV_ROL: lambda n, v: bv_rol(v[0], n.bv_rotation_step()),
    op.BV_ROR: lambda n, v: bv_ror(v[0], n.bv_rotation_step()),
    op.BV_ZEXT: lambda n, v: bv_zext(v[0], n.bv_extend_step()),
    op.BV_SEXT: lambda n, v: bv_sext(v[0], n.bv_extend_step()),
    op.STR_LENGTH: lambda n, v: str_len(v[0]),
    op.STR_CONCAT: lambda n, v: str_concat(*v),
    op.STR_CONTAINS: lambda n, v: str_contains(v[0], v[1]),
    op.STR_INDEXOF: lambda n, v: str_indexof(v[0], v[1], v[2]),
    op.STR_REPLACE: lambda n, v: str_replace(v[0], v[1], v[2]),
    op.STR_SUBSTR: lambda n, v: str_substr(v[0], v[1], v[2]),
    op.STR_PREFIXOF: lambda n, v: str_prefixof(v[0], v[1]),
    op.STR_SUFFIXOF: lambda n, v: str_suffixof(v[0], v[1]),
    op.STR_TO_INT: lambda n, v: str_to_int(v[0]),
    op.INT_TO_STR: lambda n, v: str_from_int(v[0]),
    op.STR_CHARAT: lambda n, v: str_at(v[0], v[1]),
    op.ARRAY_SELECT: lambda n, v: v[0].get(v[1]),
    op.ARRAY_STORE: lambda n, v: v[0].set(v[1], v[2]),
}

_CONSTS = frozenset([op.BOOL_CONSTANT, op.INT_CONSTANT, op.STR_CONSTANT])


def apply_operator(interp, node, vals):
    """Value of a node with at least one argument that is neither a quantifier nor an ITE, from
    the values of its arguments."""
    nt = node.node_type()
    f = _STRICT.get(nt)
    if f is not None:
        return f(node, vals)
    if nt == op.AND:
        return all(vals)
    if nt == op.OR:
        return any(vals)
    if nt == op.IMPLIES:
        return (not vals[0]) or vals[1]
    if nt == op.DIV:
        return _div(interp, vals[0], vals[1])
    if nt == op.POW:
        return _pow(interp, vals[0], vals[1])
    if nt == op.FUNCTION:
        return interp.apply(node.function_name(), tuple(vals))
    if nt == op.ARRAY_VALUE:
        items = {}
        for j in range(1, len(vals) - 1, 2):
            items[vals[j]] = vals[j + 1]           # a repeated index: the later pair wins
        return ArrayVal(vals[0], items, interp.index_dom(node.array_value_index_type()))
    raise Unsupported("node type %d" % nt)


class _Evaluator(object):
    def __init__(self, interp, cache):
        self.I = interp
        self.C = cache
        self.memo = {}

    def restrict(self, node, env):
        if not env:
            return env
        fv = self.C.free(node)
        for p in env:
            if p[0] not in fv:
                return tuple(q for q in env if q[0] in fv)
        return env

    def instances(self, node):
        """(list of value tuples for the bound variables, domain_is_exact)."""
        I = self.I
        doms, exact = [], True
        for v in node.quantifier_vars():
            t = v.symbol_type()
            d = None
            if not (t.is_bv_type() and t.width > I.bv_enum_width):
                d = I.finite_domain(t, I.enum_limit)
            if d is None:
                exact = False
                d = I.sample_domain(t)
            doms.append(list(d))
        total = 1
        for d in doms:
            total *= len(d)
        if total > I.enum_limit:
            exact = False
            rng = I._rng("shrink|%d" % node.node_id())
            while total > I.enum_limit:
                k = max(range(len(doms)), key=lambda j: len(doms[j]))
                total //= len(doms[k])
                doms[k] = rng.sample(doms[k], max(1, len(doms[k]) // 2))
                total *= len(doms[k])
        return itertools.product(*doms), exact

    def run(self, root):
        memo = self.memo
        I = self.I
        FORALL, EXISTS, ITE, SYMBOL = op.FORALL, op.EXISTS, op.ITE, op.SYMBOL
        stack = [[root, (), 0, None]]
        while stack:
            fr = stack[-1]
            node, env, st = fr[0], fr[1], fr[2]
            key = (node, env)
            if st == 0:
                if key in memo:
                    stack.pop()
                    continue
                nt = node.node_type()
                args = node.args()
                if nt == ITE:
                    fr[2] = 1
                    c = args[0]
                    stack.append([c, self.restrict(c, env), 0, None])
                    continue
                if nt == FORALL or nt == EXISTS:
                    body = args[0]
                    qv = node.quantifier_vars()
                    insts, dexact = self.instances(node)
                    outer = tuple(p for p in env if p[0] not in qv)
                    short = (I.div0 != "raise") or not self.C.may_div0(body)
                    # aux: [iterator, domain exact, all instances exact, seen inexact decisive, outer env, short, pending key]
                    fr[3] = [insts, dexact, True, False, outer, short, None]
                    fr[2] = 1
                    continue
                if not args:
                    if nt == SYMBOL:
                        val = None
                        for p in env:
                            if p[0] is node:
                                val = p[1]
                                break
                        else:
                            val = I.value(node)
                    elif nt in _CONSTS:
                        val = node.constant_value()
                    elif nt == op.REAL_CONSTANT:
                        val = Fraction(node.constant_value())
                    elif nt == op.BV_CONSTANT:
                        p = node._content.payload
                        val = BV(p[1], p[0])
                    elif nt == op.AND:
                        val = True
                    elif nt == op.OR:
                        val = False
                    elif nt == op.ARRAY_VALUE:
                        raise IllTyped("array value without default")
                    else:
                        raise Unsupported("leaf node type %d" % nt)
                    memo[key] = (val, True)
                    stack.pop()
                    continue
                fr[2] = 1
                if env:
                    ks = [(c, self.restrict(c, env)) for c in args]
                else:
                    ks = [(c, ()) for c in args]
                fr[3] = ks
                for k in reversed(ks):
                    if k not in memo:
                        stack.append([k[0], k[1], 0, None])
                continue

            nt = node.node_type()
            if nt == ITE:
                args = node.args()
                c, cex = memo[(args[0], self.restrict(args[0], env))]
                b = args[1] if c else args[2]
                bk = (b, self.restrict(b, env))
                if st == 1:
                    fr[2] = 2
                    if bk not in memo:
                        stack.append([b, bk[1], 0, None])
                        continue
                v, vex = memo[bk]
                memo[key] = (v, cex and vex)
                stack.pop()
                continue

            if nt == FORALL or nt == EXISTS:
                aux = fr[3]
                decisive = (nt == EXISTS)        # the body value that decides the quantifier
                done = None
                if aux[6] is not None:
                    v, vex = memo[aux[6]]
                    aux[6] = None
                    if v == decisive:
                        if vex:
                            if aux[5]:
                                done = (decisive, True)
                            else:
                                aux[3] = aux[3] or "exact"
                        elif aux[3] is False:
                            aux[3] = "inexact"
                    elif not vex:
                        aux[2] = False
                if done is None:
                    nxt = next(aux[0], None)
                    if nxt is not None:
                        qv = node.quantifier_vars()
                        benv = dict(aux[4])
                        for s, val in zip(qv, nxt):
                            benv[s] = val
                        body = node.args()[0]
                        be = tuple(sorted(benv.items(), key=lambda p: p[0].symbol_name()))
                        be = self.restrict(body, be)
                        aux[6] = (body, be)
                        if aux[6] not in memo:
                            stack.append([body, be, 0, None])
                        continue
                    if aux[3] == "exact":
                        done = (decisive, True)
                    elif aux[3] == "inexact":
                        done = (decisive, False)
                    else:
                        done = (not decisive, bool(aux[1] and aux[2]))
                memo[key] = done
                stack.pop()
                continue

            # strict operators: all arguments are in the memo
            rs = [memo[k] for k in fr[3]]
            vals = [r[0] for r in rs]
            exact = True
            for r in rs:
                if not r[1]:
                    exact = False
                    break
            if nt == op.AND:
                val = all(vals)
                if not exact and any(r == (False, True) for r in rs):
                    exact = True
            elif nt == op.OR:
                val = any(vals)
                if not exact and any(r == (True, True) for r in rs):
                    exact = True
            elif nt == op.IMPLIES:
                val = (not vals[0]) or vals[1]
                if not exact and (rs[0] == (False, True) or rs[1] == (True, True)):
                    exact = True
            else:
                val = apply_operator(I, node, vals)
            memo[key] = (val, exact)
            stack.pop()
        return memo[(root, ())]


def evaluate_ex(formula, interp, cache=None, check_types=True):
    """(value, exact).  exact is False when the value depends on a quantifier over an infinite
    (or too large) sort that was only evaluated over a finite sample and no deciding instance was
    found.  Raises DivisionByZeroEvaluated (div0 == 'raise'), IllTyped, Unsupported."""
    cache = cache if cache is not None else EvalCache()
    if check_types:
        type_of(formula, cache.types)
    return _Evaluator(interp, cache).run(formula)


def evaluate(formula, interp, cache=None, check_types=True):
    """Exact value of formula under interp; raises Inexact when only an approximation is known."""
    v, exact = evaluate_ex(formula, interp, cache, check_types)
    if not exact:
        raise Inexact(v)
    return v


Difference = namedtuple("Difference", "interp value_f value_g")


def first_difference(f, g, interps, exact_only=True, cache=None, on_div0="skip"):
    """First Difference(interp, value of f, value of g) with different values, or None.
    Interpretations under which either side evaluates a division by zero are skipped
    (on_div0='skip') or re-raised (on_div0='raise'); with exact_only, interpretations where either
    value is approximate are skipped."""
    cache = cache if cache is not None else EvalCache()
    for it in interps:
        try:
            vf, ef = evaluate_ex(f, it, cache)
            vg, eg = evaluate_ex(g, it, cache)
        except DivisionByZeroEvaluated:
            if on_div0 == "raise":
                raise
            continue
        if exact_only and not (ef and eg):
            continue
        if type(vf) is not type(vg) or vf != vg:
            return Difference(it, vf, vg)
    return None


def equivalent_on(f, g, interps, exact_only=True, cache=None):
    """The first interpretation on which the (exact) values of f and g differ, or None."""
    d = first_difference(f, g, interps, exact_only, cache)
    return None if d is None else d.interp


def random_interps(rnd, formulas, n, **kw):
    if hasattr(formulas, "node_type"):
        formulas = [formulas]
    formulas = list(formulas)
    return [random_interp(rnd, formulas, **kw) for _ in range(n)]


# =============================================================================================
# Self-test:  python -m harness.refeval --selftest [--no-solvers] [-v]
#   (1) unit checks of the corner cases, with expected values written down from the standard;
#   (2) cross-validation, operator by operator, against z3 and cvc5 on closed terms printed by
#       the tiny printer below (not pysmt's).
# =============================================================================================

class _T(object):
    """Closed term of the self-test: operator name, arguments (_T or constant values), indices."""
    __slots__ = ("name", "args", "params")

    def __init__(self, name, *args, **kw):
        self.name = name
        self.args = args
        self.params = kw.get("params", ())


def _smt_sort(t):
    if t.is_bool_type():
        return "Bool"
    if t.is_int_type():
        return "Int"
    if t.is_real_type():
        return "Real"
    if t.is_string_type():
        return "String"
    if t.is_bv_type():
        return "(_ BitVec %d)" % t.width
    if t.is_array_type():
        return "(Array %s %s)" % (_smt_sort(t.index_type), _smt_sort(t.elem_type))
    raise Unsupported("sort")


def _smt_value(v):
    t = type(v)
    if t is bool:
        return "true" if v else "false"
    if t is int:
        return "%d" % v if v >= 0 else "(- %d)" % -v
    if t is Fraction:
        a = abs(v)
        s = "%d.0" % a.numerator if a.denominator == 1 else "(/ %d.0 %d.0)" % (a.numerator, a.denominator)
        return s if v >= 0 else "(- %s)" % s
    if t is BV:
        return "(_ bv%d %d)" % (v.value, v.width)
    if t is str:
        out = []
        for c in v:
            o = ord(c)
            if c == '"':
                out.append('""')
            elif 0x20 <= o <= 0x7e and c != "\\":
                out.append(c)
            else:
                out.append("\\u{%x}" % o)
        return '"' + "".join(out) + '"'
    raise Unsupported("constant %r" % (v,))


# name -> (SMT-LIB head (format with params), pysmt node type or None, direct function or None)
_T_OPS = {
    "and": ("and", op.AND, None), "or": ("or", op.OR, None), "not": ("not", op.NOT, None),
    "=>": ("=>", op.IMPLIES, None), "iff": ("=", op.IFF, None), "ite": ("ite", op.ITE, None),
    "=": ("=", op.EQUALS, None),
    "+": ("+", op.PLUS, None), "-": ("-", op.MINUS, None), "*": ("*", op.TIMES, None),
    "div": ("div", op.DIV, None), "/": ("/", op.DIV, None), "mod": ("mod", None, lambda p, a: int_mod(*a)),
    "<=": ("<=", op.LE, None), "<": ("<", op.LT, None), "to_real": ("to_real", op.TOREAL, None),
    "^": ("^", op.POW, None),
    "bvnot": ("bvnot", op.BV_NOT, None), "bvneg": ("bvneg", op.BV_NEG, None),
    "bvand": ("bvand", op.BV_AND, None), "bvor": ("bvor", op.BV_OR, None), "bvxor": ("bvxor", op.BV_XOR, None),
    "bvadd": ("bvadd", op.BV_ADD, None), "bvsub": ("bvsub", op.BV_SUB, None), "bvmul": ("bvmul", op.BV_MUL, None),
    "bvudiv": ("bvudiv", op.BV_UDIV, None), "bvurem": ("bvurem", op.BV_UREM, None),
    "bvsdiv": ("bvsdiv", op.BV_SDIV, None), "bvsrem": ("bvsrem", op.BV_SREM, None),
    "bvsmod": ("bvsmod", None, lambda p, a: bv_smod(*a)),
    "bvshl": ("bvshl", op.BV_LSHL, None), "bvlshr": ("bvlshr", op.BV_LSHR, None), "bvashr": ("bvashr", op.BV_ASHR, None),
    "bvcomp": ("bvcomp", op.BV_COMP, None), "concat": ("concat", op.BV_CONCAT, None),
    "extract": ("(_ extract %d %d)", op.BV_EXTRACT, None),
    "rotate_left": ("(_ rotate_left %d)", op.BV_ROL, None), "rotate_right": ("(_ rotate_right %d)", op.BV_ROR, None),
    "zero_extend": ("(_ zero_extend %d)", op.BV_ZEXT, None), "sign_extend": ("(_ sign_extend %d)", op.BV_SEXT, None),
    "bvult": ("bvult", op.BV_ULT, None), "bvule": ("bvule", op.BV_ULE, None),
    "bvslt": ("bvslt", op.BV_SLT, None), "bvsle": ("bvsle", op.BV_SLE, None),
    "bv2nat": ("bv2nat", op.BV_TONATURAL, None),
    "str.len": ("str.len", op.STR_LENGTH, None), "str.++": ("str.++", op.STR_CONCAT, None),
    "str.at": ("str.at", op.STR_CHARAT, None), "str.substr": ("str.substr", op.STR_SUBSTR, None),
    "str.indexof": ("str.indexof", op.STR_INDEXOF, None), "str.replace": ("str.replace", op.STR_REPLACE, None),
    "str.prefixof": ("str.prefixof", op.STR_PREFIXOF, None), "str.suffixof": ("str.suffixof", op.STR_SUFFIXOF, None),
    "str.contains": ("str.contains", op.STR_CONTAINS, None),
    "str.to_int": ("str.to_int", op.STR_TO_INT, None), "str.from_int": ("str.from_int", op.INT_TO_STR, None),
    "select": ("select", op.ARRAY_SELECT, None), "store": ("store", op.ARRAY_STORE, None),
    "arrayvalue": (None, op.ARRAY_VALUE, None),         # params = (index type, elem type)
}
_ALT_NAMES = {"str.to_int": "str.to.int", "str.from_int": "int.to.str"}


def _t_smt(t, names=None):
    if not isinstance(t, _T):
        return _smt_value(t)
    head, _nt, _d = _T_OPS[t.name]
    args = [_t_smt(a, names) for a in t.args]
    if t.name == "arrayvalue":
        s = "((as const %s) %s)" % (_smt_sort(ArrayType(*t.params)), args[0])
        for j in range(1, len(args), 2):
            s = "(store %s %s %s)" % (s, args[j], args[j + 1])
        return s
    if t.params:
        head = head % tuple(t.params)
    if names and head in names:
        head = names[head]
    return "(%s %s)" % (head, " ".join(args))


def _t_fnode(t, m):
    """The pysmt node of a closed term (constants and payload-carrying nodes through the
    FormulaManager's constructors, everything else as the raw node)."""
    if not isinstance(t, _T):
        ty = type(t)
        if ty is bool:
            return m.Bool(t)
        if ty is int:
            return m.Int(t)
        if ty is Fraction:
            return m.Real(t)
        if ty is BV:
            return m.BV(t.value, t.width)
        if ty is str:
            return m.String(t)
        raise Unsupported("constant %r" % (t,))
    nt = _T_OPS[t.name][1]
    a = [_t_fnode(x, m) for x in t.args]
    simple = {op.BV_NOT: "BVNot", op.BV_NEG: "BVNeg", op.BV_AND: "BVAnd", op.BV_OR: "BVOr", op.BV_XOR: "BVXor",
              op.BV_ADD: "BVAdd", op.BV_SUB: "BVSub", op.BV_MUL: "BVMul", op.BV_UDIV: "BVUDiv", op.BV_UREM: "BVURem",
              op.BV_SDIV: "BVSDiv", op.BV_SREM: "BVSRem", op.BV_LSHL: "BVLShl", op.BV_LSHR: "BVLShr",
              op.BV_ASHR: "BVAShr", op.BV_COMP: "BVComp", op.BV_CONCAT: "BVConcat"}
    if nt in simple:
        n = getattr(m, simple[nt])(*a)
    elif nt == op.BV_EXTRACT:
        n = m.BVExtract(a[0], t.params[1], t.params[0])       # (start=low, end=high)
    elif nt == op.BV_ROL:
        n = m.BVRol(a[0], t.params[0])
    elif nt == op.BV_ROR:
        n = m.BVRor(a[0], t.params[0])
    elif nt == op.BV_ZEXT:
        n = m.BVZExt(a[0], t.params[0])
    elif nt == op.BV_SEXT:
        n = m.BVSExt(a[0], t.params[0])
    elif nt == op.ARRAY_VALUE:
        n = m.create_node(node_type=nt, args=tuple(a), payload=t.params[0])
    else:
        n = m.create_node(node_type=nt, args=tuple(a))
    if n.node_type() != nt:
        raise RefEvalError("self-test: constructor for %s built node type %d" % (t.name, n.node_type()))
    return n


def _t_eval(t, m):
    direct = _T_OPS[t.name][2]
    if direct is not None:
        return direct(t.params, list(t.args))
    return evaluate(_t_fnode(t, m), Interp(lazy=False))


# ---- reading solver answers ---------------------------------------------------------------

def _sexprs(text):
    """All top-level s-expressions of text; atoms are str, string literals ('str', content)."""
    out, stack, i, n = [], [], 0, len(text)

    def emit(x):
        (stack[-1] if stack else out).append(x)
    while i < n:
        c = text[i]
        if c.isspace():
            i += 1
        elif c == ";":
            while i < n and text[i] != "\n":
                i += 1
        elif c == "(":
            stack.append([])
            i += 1
        elif c == ")":
            if not stack:
                raise ValueError("unbalanced )")
            x = stack.pop()
            emit(x)
            i += 1
        elif c == '"':
            j, buf = i + 1, []
            while True:
                if j >= n:
                    raise ValueError("unterminated string")
                if text[j] == '"':
                    if j + 1 < n and text[j + 1] == '"':
                        buf.append('"')
                        j += 2
                        continue
                    break
                buf.append(text[j])
                j += 1
            emit(("str", "".join(buf)))
            i = j + 1
        elif c == "|":
            j = text.index("|", i + 1)
            emit(text[i:j + 1])
            i = j + 1
        else:
            j = i
            while j < n and not text[j].isspace() and text[j] not in '()"':
                j += 1
            emit(text[i:j])
            i = j
    if stack:
        raise ValueError("unbalanced (")
    return out


def _unescape(s):
    """SMT-LIB 2.6 escapes \\u{X..}, \\uXXXX (and the \\xXX that z3 4.8 prints)."""
    out, i, n = [], 0, len(s)
    hexd = "0123456789abcdefABCDEF"
    while i < n:
        if s[i] == "\\" and i + 1 < n:
            if s[i + 1] == "u" and i + 2 < n and s[i + 2] == "{":
                j = s.find("}", i + 3)
                if j > 0 and all(ch in hexd for ch in s[i + 3:j]) and 1 <= j - i - 3 <= 5:
                    out.append(chr(int(s[i + 3:j], 16)))
                    i = j + 1
                    continue
            elif s[i + 1] == "u" and i + 5 < n + 0 and all(ch in hexd for ch in s[i + 2:i + 6]) and len(s[i + 2:i + 6]) == 4:
                out.append(chr(int(s[i + 2:i + 6], 16)))
                i += 6
                continue
            elif s[i + 1] == "x" and len(s[i + 2:i + 4]) == 2 and all(ch in hexd for ch in s[i + 2:i + 4]):
                out.append(chr(int(s[i + 2:i + 4], 16)))
                i += 4
                continue
        out.append(s[i])
        i += 1
    return "".join(out)


def _parse_value(x):
    """Value denoted by a solver's answer, or None when it is not a literal."""
    if isinstance(x, tuple):
        return _unescape(x[1])
    if isinstance(x, str):
        if x == "true":
            return True
        if x == "false":
            return False
        if x.isdigit():
            return int(x)
        if x.startswith("#b") and len(x) > 2 and set(x[2:]) <= set("01"):
            return BV(len(x) - 2, int(x[2:], 2))
        if x.startswith("#x") and len(x) > 2:
            try:
                return BV(4 * (len(x) - 2), int(x[2:], 16))
            except ValueError:
                return None
        if x.count(".") == 1:
            a, b = x.split(".")
            if a.isdigit() and b.isdigit():
                return Fraction(int(a + b), 10 ** len(b))
        return None
    if isinstance(x, list):
        if len(x) == 2 and x[0] == "-":
            v = _parse_value(x[1])
            return None if v is None or type(v) not in (int, Fraction) else -v
        if len(x) == 3 and x[0] == "/":
            a, b = _parse_value(x[1]), _parse_value(x[2])
            if a is None or b is None or type(a) not in (int, Fraction) or type(b) not in (int, Fraction) or b == 0:
                return None
            return Fraction(a) / Fraction(b)
        if len(x) == 3 and x[0] == "_" and isinstance(x[1], str) and x[1].startswith("bv") and x[1][2:].isdigit():
            return BV(int(x[2]), int(x[1][2:]))
    return None


def _agree(mine, theirs):
    if theirs is None:
        return None
    if type(mine) is Fraction and type(theirs) is int:
        theirs = Fraction(theirs)
    return type(mine) is type(theirs) and mine == theirs


def _run_solver(cmd, text):
    import os
    import subprocess
    import tempfile
    fd, path = tempfile.mkstemp(suffix=".smt2", prefix="refeval_")
    try:
        with os.fdopen(fd, "w") as f:
            f.write(text)
        p = subprocess.run(cmd + [path], stdout=subprocess.PIPE, stderr=subprocess.STDOUT, timeout=300)
        return p.stdout.decode("utf-8", "replace")
    finally:
        os.unlink(path)


def _ask_z3(terms):
    """answers (s-expressions or ('error', msg)) of z3 for the term texts"""
    out = _run_solver(["z3", "-smt2"], "".join("(simplify %s)\n" % t for t in terms))
    xs = _sexprs(out)
    if len(xs) != len(terms):
        raise RefEvalError("z3: %d answers for %d terms: %s" % (len(xs), len(terms), out[:300]))
    return [("error", x) if isinstance(x, list) and x and x[0] == "error" else x for x in xs]


def _ask_cvc5(terms):
    text = "(set-option :produce-models true)\n(set-logic ALL)\n(check-sat)\n" + "".join("(get-value (%s))\n" % t for t in terms)
    out = _run_solver(["cvc5", "--lang=smt2"], text)
    xs = _sexprs(out)
    if not xs or xs[0] != "sat":
        raise RefEvalError("cvc5: %s" % out[:300])
    xs = xs[1:]
    if len(xs) != len(terms):
        raise RefEvalError("cvc5: %d answers for %d terms: %s" % (len(xs), len(terms), out[-300:]))
    res = []
    for x in xs:
        if isinstance(x, list) and len(x) == 1 and isinstance(x[0], list) and len(x[0]) == 2:
            res.append(x[0][1])
        else:
            res.append(("error", x))
    return res


def _sx_text(x):
    if isinstance(x, tuple):
        return '"%s"' % x[1]
    if isinstance(x, list):
        return "(" + " ".join(_sx_text(y) for y in x) + ")"
    return x


# ---- the closed terms of the cross-validation ----------------------------------------------------

def _cross_terms(rnd):
    """{group name: [_T, ...]}"""
    G = {}

    def allbv(w):
        return [BV(w, v) for v in range(1 << w)]
    sp8 = [0, 1, 2, 3, 7, 8, 9, 15, 16, 127, 128, 129, 200, 254, 255]
    some8 = [BV(8, v) for v in sp8]
    pairs8 = [(BV(8, a), BV(8, b)) for a in (0, 1, 7, 8, 127, 128, 129, 255) for b in (0, 1, 2, 7, 8, 9, 127, 128, 255)]
    pairs8 += [(BV(8, rnd.randint(0, 255)), BV(8, rnd.randint(0, 255))) for _ in range(40)]
    pairs16 = [(BV(16, a), BV(16, b)) for a in (0, 1, 0x7fff, 0x8000, 0xffff, 12345) for b in (0, 1, 15, 16, 17, 0x8000, 0xffff, 321)]
    binops = ["bvand", "bvor", "bvxor", "bvadd", "bvsub", "bvmul", "bvudiv", "bvurem", "bvsdiv", "bvsrem", "bvsmod",
              "bvshl", "bvlshr", "bvashr", "bvcomp", "bvult", "bvule", "bvslt", "bvsle"]
    for o in binops:
        ts = []
        for w in (1, 2, 3):
            ts += [_T(o, a, b) for a in allbv(w) for b in allbv(w)]
        ts += [_T(o, a, b) for a, b in pairs8 + pairs16]
        G[o] = ts
    for o in ("bvnot", "bvneg", "bv2nat"):
        G[o] = [_T(o, a) for w in (1, 2, 3, 8) for a in allbv(w)] + [_T(o, BV(16, v)) for v in (0, 1, 0x8000, 0xffff, 4660)]
    G["concat"] = ([_T("concat", a, b) for w1 in (1, 2, 3) for w2 in (1, 2, 3) for a in allbv(w1) for b in allbv(w2)]
                   + [_T("concat", a, b) for a, b in pairs8[:30]] + [_T("concat", a, BV(3, 5)) for a in some8])
    G["extract"] = ([_T("extract", a, params=(hi, lo)) for w in (1, 2, 3) for hi in range(w) for lo in range(hi + 1) for a in allbv(w)]
                    + [_T("extract", a, params=(hi, lo)) for (hi, lo) in ((7, 0), (7, 7), (0, 0), (6, 2), (3, 3), (4, 0), (7, 4)) for a in some8])
    for o in ("rotate_left", "rotate_right"):
        G[o] = ([_T(o, a, params=(k,)) for w in (1, 2, 3) for k in range(0, 2 * w + 2) for a in allbv(w)]
                + [_T(o, a, params=(k,)) for k in (0, 1, 3, 7, 8, 9, 17, 64) for a in some8])
    for o in ("zero_extend", "sign_extend"):
        G[o] = ([_T(o, a, params=(k,)) for w in (1, 2, 3) for k in range(0, 4) for a in allbv(w)]
                + [_T(o, a, params=(k,)) for k in (0, 1, 8, 9) for a in some8])
    # Core
    bs = (False, True)
    G["and"] = [_T("and", a, b) for a in bs for b in bs] + [_T("and", a, b, c) for a in bs for b in bs for c in bs]
    G["or"] = [_T("or", a, b) for a in bs for b in bs] + [_T("or", a, b, c) for a in bs for b in bs for c in bs]
    G["not"] = [_T("not", a) for a in bs]
    G["=>"] = [_T("=>", a, b) for a in bs for b in bs]
    G["iff"] = [_T("iff", a, b) for a in bs for b in bs]
    G["ite"] = ([_T("ite", c, a, b) for c in bs for a in bs for b in bs] + [_T("ite", c, 3, -4) for c in bs]
                + [_T("ite", c, BV(3, 5), BV(3, 2)) for c in bs] + [_T("ite", c, "x", "") for c in bs])
    # Ints / Reals
    ints = [-7, -3, -2, -1, 0, 1, 2, 3, 7, 2 ** 70, -(2 ** 65) - 1]
    dens = [-5, -3, -2, -1, 1, 2, 3, 5, 2 ** 33, -(2 ** 33)]
    G["div"] = [_T("div", a, b) for a in ints + [9, -9, 10, -10] for b in dens]
    G["mod"] = [_T("mod", a, b) for a in ints + [9, -9, 10, -10] for b in dens]
    G["+ (Int)"] = [_T("+", a, b) for a in ints for b in ints[:6]] + [_T("+", 1, -2, 3, 2 ** 70)]
    G["- (Int)"] = [_T("-", a, b) for a in ints for b in ints[:6]]
    G["* (Int)"] = [_T("*", a, b) for a in ints for b in ints[:8]] + [_T("*", 2, -3, 5)]
    G["<= (Int)"] = [_T("<=", a, b) for a in ints[:9] for b in ints[:9]]
    G["< (Int)"] = [_T("<", a, b) for a in ints[:9] for b in ints[:9]]
    G["= (Int)"] = [_T("=", a, b) for a in ints[:6] for b in ints[:6]]
    rs = [Fraction(0), Fraction(1), Fraction(-1), Fraction(1, 2), Fraction(-3, 4), Fraction(5, 3), Fraction(-7, 2), Fraction(10 ** 20 + 1, 7)]
    G["+ (Real)"] = [_T("+", a, b) for a in rs for b in rs] + [_T("+", rs[3], rs[4], rs[5])]
    G["- (Real)"] = [_T("-", a, b) for a in rs for b in rs]
    G["* (Real)"] = [_T("*", a, b) for a in rs for b in rs] + [_T("*", rs[3], rs[4], rs[5])]
    G["/ (Real)"] = [_T("/", a, b) for a in rs for b in rs if b != 0]
    G["<= (Real)"] = [_T("<=", a, b) for a in rs for b in rs]
    G["< (Real)"] = [_T("<", a, b) for a in rs for b in rs]
    G["= (Real)"] = [_T("=", a, b) for a in rs[:5] for b in rs[:5]]
    G["to_real"] = [_T("to_real", a) for a in ints]
    G["^ (Real base)"] = [_T("^", a, Fraction(e)) for a in rs[:7] for e in (0, 1, 2, 3, 5)]
    G["^ (Int base)"] = [_T("^", a, e) for a in ints[:9] for e in (0, 1, 2, 3, 5)]
    G["= (BV)"] = [_T("=", a, b) for a in allbv(2) for b in allbv(2)]
    # Strings
    S = ["", "a", "b", "ab", "ba", "abc", "aba", "abab", "aab", "0", "12", "007", "1a", "a1", "-5", " 1", "a\"b", "9" * 25]
    S2 = ["", "a", "b", "ab", "ba", "aba", "abab", "bc", "abcabc"]
    T2 = ["", "a", "b", "ab", "ba", "c", "abc"]
    G["str.len"] = [_T("str.len", s) for s in S]
    G["str.++"] = [_T("str.++", s, t) for s in S[:8] for t in S[:8]] + [_T("str.++", "a", "", "bc", "d")]
    G["str.at"] = [_T("str.at", s, i) for s in S2 for i in range(-2, 8)] + [_T("str.at", "abc", 2 ** 70)]
    G["str.substr"] = ([_T("str.substr", s, i, n) for s in S2[:8] for i in range(-2, 6) for n in range(-1, 6)]
                       + [_T("str.substr", "abcabc", 1, 2 ** 70), _T("str.substr", "abcabc", -(2 ** 70), 3), _T("str.substr", "abcabc", 2 ** 70, 3)])
    G["str.indexof"] = [_T("str.indexof", s, t, i) for s in S2 for t in T2 for i in range(-2, 8)]
    G["str.replace"] = [_T("str.replace", s, t, u) for s in S2 for t in T2 for u in ("", "x", "ab", "aa")]
    G["str.prefixof"] = [_T("str.prefixof", s, t) for s in S2 for t in S2]
    G["str.suffixof"] = [_T("str.suffixof", s, t) for s in S2 for t in S2]
    G["str.contains"] = [_T("str.contains", s, t) for s in S2 for t in S2 + T2]
    G["str.to_int"] = [_T("str.to_int", s) for s in S + ["00", "0123456789", "12 ", "1-2", "+1", "1.0", "１", "a", "10" * 30]]
    G["str.from_int"] = [_T("str.from_int", i) for i in ints + [10, 100, 101, 9, -10, 10 ** 30]]
    G["= (String)"] = [_T("=", s, t) for s in S[:8] for t in S[:8]]
    G["str round trip"] = [_T("str.to_int", _T("str.from_int", i)) for i in ints] + [_T("str.from_int", _T("str.to_int", s)) for s in S]
    # ArraysEx (+ constant arrays)
    II = (INT, INT)
    base = [_T("arrayvalue", 0, params=II), _T("arrayvalue", 5, 1, 7, params=II), _T("arrayvalue", 0, 1, 1, 2, 0, -3, 4, params=II)]
    G["select/store"] = []
    for a in base:
        for i in (-3, 0, 1, 2):
            G["select/store"].append(_T("select", a, i))
            for j in (1, 2):
                for v in (0, 9):
                    G["select/store"].append(_T("select", _T("store", a, j, v), i))
                    G["select/store"].append(_T("select", _T("store", _T("store", a, j, v), i, 4), j))
    G["= (Array Int Int)"] = []
    arrs = base + [_T("store", base[0], 1, 0), _T("store", base[0], 1, 7), _T("store", _T("store", base[0], 1, 7), 1, 0),
                   _T("store", _T("store", base[0], 1, 7), 2, 8), _T("store", _T("store", base[0], 2, 8), 1, 7),
                   _T("store", base[1], 1, 5), _T("store", base[1], 2, 5), _T("arrayvalue", 5, params=II)]
    for a in arrs:
        for b in arrs:
            G["= (Array Int Int)"].append(_T("=", a, b))
    B1 = (BVType(1), BOOL)
    c0, c1 = _T("arrayvalue", False, params=B1), _T("arrayvalue", True, params=B1)
    z, o = BV(1, 0), BV(1, 1)
    fin = [c0, c1, _T("store", c0, z, True), _T("store", c0, o, True), _T("store", _T("store", c0, z, True), o, True),
           _T("store", c1, z, False), _T("store", c1, o, False), _T("store", _T("store", c1, o, False), z, False),
           _T("arrayvalue", False, z, True, o, True, params=B1)]
    G["= (Array BV1 Bool)"] = [_T("=", a, b) for a in fin for b in fin]
    N2 = (BVType(2), ArrayType(INT, INT))
    inner = [base[0], base[1]]
    G["nested arrays"] = [_T("select", _T("select", _T("store", _T("arrayvalue", inner[0], params=N2), BV(2, k), inner[1]), BV(2, j)), 1)
                          for k in range(4) for j in range(4)]
    return G


def _cross_validate(verbose, out):
    import shutil
    rnd = random.Random(20260925)
    from pysmt.environment import Environment
    env = Environment()
    m = env.formula_manager
    m._do_type_check = lambda formula: None     # pysmt's checker rejects e.g. rotations by more than the width
    groups = _cross_terms(rnd)
    solvers = []
    if shutil.which("z3"):
        solvers.append(("z3", _ask_z3))
    if shutil.which("cvc5"):
        solvers.append(("cvc5", _ask_cvc5))
    if not solvers:
        out("cross-validation SKIPPED: neither z3 nor cvc5 found")
        return 0, {}
    disagreements = 0
    summary = {}
    out("%-22s %6s  %s" % ("operator", "terms", "   ".join("%-28s" % (s + " agree/differ/no-literal") for s, _ in solvers)))
    for g in groups:
        terms = groups[g]
        mine = [_t_eval(t, m) for t in terms]
        row = []
        for sname, ask in solvers:
            names = None
            texts = [_t_smt(t) for t in terms]
            try:
                ans = ask(texts)
                if any(isinstance(a, tuple) and a[0] == "error" for a in ans) or \
                        (sname == "z3" and all(_parse_value(a) is None for a in ans)):
                    names = _ALT_NAMES
                    ans2 = ask([_t_smt(t, names) for t in terms])
                    if sum(1 for a in ans2 if _parse_value(a) is not None) > sum(1 for a in ans if _parse_value(a) is not None):
                        ans = ans2
            except RefEvalError as e:
                try:
                    ans = ask([_t_smt(t, _ALT_NAMES) for t in terms])
                except RefEvalError:
                    row.append("solver error: %s" % str(e)[:60])
                    summary.setdefault(g, {})[sname] = ("error", str(e)[:200])
                    continue
            ok = bad = unk = 0
            for t, text, v, a in zip(terms, texts, mine, ans):
                r = _agree(v, None if (isinstance(a, tuple) and a[0] == "error") else _parse_value(a))
                if r is None:
                    unk += 1
                    if verbose:
                        out("    no literal from %s for %s: %s" % (sname, text, _sx_text(a)[:100]))
                elif r:
                    ok += 1
                else:
                    bad += 1
                    out("    DISAGREEMENT with %s on %s: refeval %s, %s says %s" % (sname, text, _vtext(v), sname, _sx_text(a)))
            disagreements += bad
            summary.setdefault(g, {})[sname] = (ok, bad, unk)
            row.append("%-28s" % ("%d/%d/%d" % (ok, bad, unk)))
        out("%-22s %6d  %s" % (g, len(terms), "   ".join(row)))
    return disagreements, summary


# ---- unit checks -----------------------------------------------------------------------------------

def _unit_checks(out):
    fails = []
    count = [0]

    def check(what, got, want):
        count[0] += 1
        if type(got) is not type(want) or got != want:
            fails.append(what)
            out("  UNIT FAIL %s: got %r, expected %r" % (what, got, want))

    def raises(what, exc, f):
        count[0] += 1
        try:
            r = f()
        except exc:
            return
        except Exception as e:       # noqa
            fails.append(what)
            out("  UNIT FAIL %s: raised %r instead of %s" % (what, e, exc.__name__))
            return
        fails.append(what)
        out("  UNIT FAIL %s: returned %r instead of raising %s" % (what, r, exc.__name__))

    # Ints: m = n*q + r, 0 <= r < |n|
    for (a, b, q, r) in ((7, 2, 3, 1), (-7, 2, -4, 1), (7, -2, -3, 1), (-7, -2, 4, 1), (6, 3, 2, 0), (-6, 3, -2, 0),
                         (6, -3, -2, 0), (-6, -3, 2, 0), (0, 5, 0, 0), (0, -5, 0, 0), (1, 5, 0, 1), (-1, 5, -1, 4), (-1, -5, 1, 4)):
        check("div %d %d" % (a, b), int_div(a, b), q)
        check("mod %d %d" % (a, b), int_mod(a, b), r)
    for a in range(-20, 21):
        for b in list(range(-6, 0)) + list(range(1, 7)):
            q, r = int_div(a, b), int_mod(a, b)
            check("divmod law %d %d" % (a, b), (a == b * q + r and 0 <= r < abs(b)), True)
    # bit-vectors
    b = lambda w, v: BV(w, v)
    check("bvudiv x 0", bv_udiv(b(4, 5), b(4, 0)), b(4, 15))
    check("bvurem x 0", bv_urem(b(4, 5), b(4, 0)), b(4, 5))
    check("bvudiv", bv_udiv(b(4, 13), b(4, 3)), b(4, 4))
    check("bvurem", bv_urem(b(4, 13), b(4, 3)), b(4, 1))
    check("bvsdiv -7/2", bv_sdiv(b(4, 9), b(4, 2)), b(4, 13))        # -7/2 = -3 (truncation)
    check("bvsdiv 7/-2", bv_sdiv(b(4, 7), b(4, 14)), b(4, 13))
    check("bvsdiv -7/-2", bv_sdiv(b(4, 9), b(4, 14)), b(4, 3))
    check("bvsdiv x>=0 / 0", bv_sdiv(b(4, 5), b(4, 0)), b(4, 15))
    check("bvsdiv x<0 / 0", bv_sdiv(b(4, 11), b(4, 0)), b(4, 1))
    check("bvsdiv min/-1", bv_sdiv(b(4, 8), b(4, 15)), b(4, 8))
    check("bvsrem -7%2", bv_srem(b(4, 9), b(4, 2)), b(4, 15))        # sign follows the dividend
    check("bvsrem 7%-2", bv_srem(b(4, 7), b(4, 14)), b(4, 1))
    check("bvsrem -7%-2", bv_srem(b(4, 9), b(4, 14)), b(4, 15))
    check("bvsrem x % 0", bv_srem(b(4, 11), b(4, 0)), b(4, 11))
    check("bvsmod -7 mod 2", bv_smod(b(4, 9), b(4, 2)), b(4, 1))     # sign follows the divisor
    check("bvsmod 7 mod -2", bv_smod(b(4, 7), b(4, 14)), b(4, 15))
    check("bvsmod x mod 0", bv_smod(b(4, 11), b(4, 0)), b(4, 11))
    check("bvshl >= w", bv_shl(b(4, 15), b(4, 4)), b(4, 0))
    check("bvshl", bv_shl(b(4, 3), b(4, 2)), b(4, 12))
    check("bvlshr >= w", bv_lshr(b(4, 15), b(4, 9)), b(4, 0))
    check("bvlshr", bv_lshr(b(4, 12), b(4, 2)), b(4, 3))
    check("bvashr neg", bv_ashr(b(4, 12), b(4, 1)), b(4, 14))
    check("bvashr neg >= w", bv_ashr(b(4, 8), b(4, 7)), b(4, 15))
    check("bvashr pos >= w", bv_ashr(b(4, 7), b(4, 4)), b(4, 0))
    check("huge shift", bv_shl(b(64, 1), b(64, 2 ** 63)), b(64, 0))
    check("bvneg 0", bv_neg(b(4, 0)), b(4, 0))
    check("bvneg min", bv_neg(b(4, 8)), b(4, 8))
    check("bvnot", bv_not(b(4, 5)), b(4, 10))
    check("concat", bv_concat(b(2, 2), b(3, 1)), b(5, 17))
    check("extract", bv_extract(b(8, 0b10110100), 5, 2), b(4, 0b1101))
    check("extract bit0", bv_extract(b(8, 0b10110101), 0, 0), b(1, 1))
    check("zext", bv_zext(b(3, 5), 2), b(5, 5))
    check("sext neg", bv_sext(b(3, 5), 2), b(5, 29))
    check("sext pos", bv_sext(b(3, 3), 2), b(5, 3))
    check("sext 0", bv_sext(b(3, 5), 0), b(3, 5))
    check("rol", bv_rol(b(4, 0b1001), 1), b(4, 0b0011))
    check("ror", bv_ror(b(4, 0b1001), 1), b(4, 0b1100))
    check("rol mod w", bv_rol(b(4, 0b1001), 9), b(4, 0b0011))
    check("rol w=1", bv_rol(b(1, 1), 5), b(1, 1))

    def rol_spec(a, k):       # the literal recursive definition, one position at a time
        for _ in range(k):
            a = a if a.width == 1 else bv_concat(bv_extract(a, a.width - 2, 0), bv_extract(a, a.width - 1, a.width - 1))
        return a

    def ror_spec(a, k):
        for _ in range(k):
            a = a if a.width == 1 else bv_concat(bv_extract(a, 0, 0), bv_extract(a, a.width - 1, 1))
        return a
    for w in (1, 2, 3, 5):
        for v in range(1 << w):
            for k in range(0, 2 * w + 2):
                check("rol spec", bv_rol(b(w, v), k), rol_spec(b(w, v), k))
                check("ror spec", bv_ror(b(w, v), k), ror_spec(b(w, v), k))
    for w in (1, 2, 3, 4):           # signed operators against two's complement arithmetic (independent cross-check)
        for x in range(1 << w):
            for y in range(1 << w):
                X, Y = b(w, x), b(w, y)
                sx, sy = X.signed(), Y.signed()
                check("slt", bv_slt(X, Y), sx < sy)
                check("sle", bv_sle(X, Y), sx <= sy)
                if sy != 0:
                    q = abs(sx) // abs(sy) * (1 if (sx < 0) == (sy < 0) else -1)      # truncating division
                    check("sdiv trunc", bv_sdiv(X, Y), b(w, q & _mask(w)))
                    check("srem trunc", bv_srem(X, Y), b(w, (sx - sy * q) & _mask(w)))
                    fm = sx - sy * (sx // sy)                                          # floor modulo: sign of divisor
                    check("smod floor", bv_smod(X, Y), b(w, fm & _mask(w)))
                check("ashr", bv_ashr(X, Y), b(w, (sx >> min(y, w)) & _mask(w)))
                check("sub", bv_sub(X, Y), b(w, (x - y) & _mask(w)))
                check("xor", bv_xor(X, Y), bv_or(bv_and(X, bv_not(Y)), bv_and(bv_not(X), Y)))
    check("bvcomp eq", bv_comp(b(3, 5), b(3, 5)), b(1, 1))
    check("bvcomp ne", bv_comp(b(3, 5), b(3, 4)), b(1, 0))
    check("signed", b(4, 9).signed(), -7)
    raises("BV range", ValueError, lambda: BV(3, 8))
    raises("BV width 0", ValueError, lambda: BV(0, 0))
    # strings
    check("at in", str_at("abc", 1), "b")
    check("at len", str_at("abc", 3), "")
    check("at neg", str_at("abc", -1), "")
    check("substr", str_substr("abcde", 1, 3), "bcd")
    check("substr over", str_substr("abcde", 3, 10), "de")
    check("substr i<0", str_substr("abcde", -1, 3), "")
    check("substr i=len", str_substr("abcde", 5, 1), "")
    check("substr n=0", str_substr("abcde", 1, 0), "")
    check("substr n<0", str_substr("abcde", 1, -1), "")
    check("substr huge", str_substr("abcde", 1, 2 ** 80), "bcde")
    check("indexof", str_indexof("abcabc", "bc", 0), 1)
    check("indexof from", str_indexof("abcabc", "bc", 2), 4)
    check("indexof at", str_indexof("abcabc", "bc", 4), 4)
    check("indexof none", str_indexof("abcabc", "bc", 5), -1)
    check("indexof i<0", str_indexof("abcabc", "bc", -1), -1)
    check("indexof i>len", str_indexof("abc", "", 4), -1)
    check("indexof empty i=len", str_indexof("abc", "", 3), 3)
    check("indexof empty i=1", str_indexof("abc", "", 1), 1)
    check("indexof empty empty", str_indexof("", "", 0), 0)
    check("indexof absent", str_indexof("abc", "d", 0), -1)
    check("replace first", str_replace("abab", "ab", "x"), "xab")
    check("replace none", str_replace("abab", "c", "x"), "abab")
    check("replace empty pattern", str_replace("abc", "", "x"), "xabc")
    check("replace empty all", str_replace("", "", "x"), "x")
    check("replace with empty", str_replace("abc", "b", ""), "ac")
    check("prefixof", str_prefixof("ab", "abc"), True)
    check("prefixof arg order", str_prefixof("abc", "ab"), False)
    check("prefixof empty", str_prefixof("", ""), True)
    check("suffixof", str_suffixof("bc", "abc"), True)
    check("suffixof no", str_suffixof("ab", "abc"), False)
    check("suffixof empty", str_suffixof("", "abc"), True)
    check("contains", str_contains("abc", "bc"), True)
    check("contains empty", str_contains("", ""), True)
    check("contains no", str_contains("abc", "ca"), False)
    check("to_int", str_to_int("0123"), 123)
    check("to_int empty", str_to_int(""), -1)
    check("to_int neg", str_to_int("-5"), -1)
    check("to_int space", str_to_int(" 12"), -1)
    check("to_int underscore", str_to_int("1_2"), -1)
    check("to_int unicode digit", str_to_int("１"), -1)
    check("to_int arabic digit", str_to_int("١"), -1)
    check("to_int long", str_to_int("9" * 5000), 10 ** 5000 - 1)
    check("from_int", str_from_int(120), "120")
    check("from_int 0", str_from_int(0), "0")
    check("from_int neg", str_from_int(-1), "")
    check("from_int long", len(str_from_int(10 ** 5000)), 5001)
    # arrays: canonical form = extensional equality
    a0 = ArrayVal(0, {})
    check("array drop default", ArrayVal(0, {1: 0, 2: 3}), ArrayVal(0, {2: 3}))
    check("array store same", a0.set(1, 0), a0)
    check("array store/select", a0.set(1, 5).get(1), 5)
    check("array store/select other", a0.set(1, 5).get(2), 0)
    check("array store order", a0.set(1, 5).set(2, 6), a0.set(2, 6).set(1, 5))
    check("array overwrite", a0.set(1, 5).set(1, 0), a0)
    check("array hash", hash(a0.set(1, 5).set(2, 6)), hash(a0.set(2, 6).set(1, 5)))
    check("array neq", a0.set(1, 5) == a0, False)
    dom2 = tuple(BV(2, v) for v in range(4))
    full = ArrayVal(0, dict((i, 1) for i in dom2), dom2)
    check("finite array: all overwritten", full, ArrayVal(1, {}, dom2))
    check("finite array: majority", ArrayVal(0, {dom2[0]: 1, dom2[1]: 1, dom2[2]: 1}, dom2), ArrayVal(1, {dom2[3]: 0}, dom2))
    check("finite array: tie", ArrayVal(0, {dom2[0]: 1, dom2[1]: 1}, dom2), ArrayVal(1, {dom2[2]: 0, dom2[3]: 0}, dom2))
    check("finite array: hash", hash(ArrayVal(0, {dom2[0]: 1, dom2[1]: 1}, dom2)), hash(ArrayVal(1, {dom2[2]: 0, dom2[3]: 0}, dom2)))
    check("finite array: neq", ArrayVal(0, {dom2[0]: 1}, dom2) == ArrayVal(1, {dom2[0]: 0}, dom2), False)
    check("nested arrays", ArrayVal(a0, {1: a0.set(1, 0)}), ArrayVal(a0, {}))

    # ---- formulas ----
    from pysmt.environment import Environment
    env = Environment()
    m = env.formula_manager
    x, y, i, j = [m.Symbol(n, INT) for n in "xyij"]
    r, s = m.Symbol("r", REAL), m.Symbol("s", REAL)
    p, q = m.Symbol("p", BOOL), m.Symbol("q", BOOL)
    u8, v2 = m.Symbol("u8", BVType(8)), m.Symbol("v2", BVType(2))
    U = env.type_manager.Type("U", 0)
    from pysmt.typing import FunctionType
    c, d = m.Symbol("c", U), m.Symbol("d", U)
    f = m.Symbol("f", FunctionType(INT, [INT, BOOL]))
    k = m.Symbol("k", FunctionType(U, [U]))
    A = m.Symbol("A", ArrayType(INT, INT))
    Bf = m.Symbol("Bf", ArrayType(BVType(1), BOOL))
    st = m.Symbol("st", STRING)
    I0 = Interp({x: 5, y: 0, i: 2, j: -3, r: Fraction(1, 2), s: Fraction(0), p: True, q: False, u8: BV(8, 200),
                 v2: BV(2, 3), c: UVal("U", 0), d: UVal("U", 1), A: ArrayVal(7, {1: 8}), st: "ab1",
                 Bf: ArrayVal(False, {BV(1, 0): True})}, usizes={"U": 2}, seed=11, lazy=False)
    ev = lambda t, it=I0: evaluate(t, it)
    check("plus", ev(m.Plus(x, i, j)), 4)
    check("real arith", ev(m.Times(m.Plus(r, m.Real(Fraction(1, 3))), m.Real(3))), Fraction(5, 2))
    check("toreal", ev(m.ToReal(x)), Fraction(5))
    check("int div", ev(m.create_node(node_type=op.DIV, args=(j, i))), -2)
    check("real div", ev(m.create_node(node_type=op.DIV, args=(r, m.Real(3)))), Fraction(1, 6))
    check("pow int base is Real", ev(m.create_node(node_type=op.POW, args=(x, m.Int(2)))), Fraction(25))
    check("pow 0^0", ev(m.create_node(node_type=op.POW, args=(s, m.Real(0)))), Fraction(1))
    check("type pow", type_of(m.create_node(node_type=op.POW, args=(x, m.Int(2)))), REAL)
    raises("div by zero (Int)", DivisionByZeroEvaluated, lambda: ev(m.create_node(node_type=op.DIV, args=(x, y))))
    raises("div by zero (Real)", DivisionByZeroEvaluated, lambda: ev(m.create_node(node_type=op.DIV, args=(r, s))))
    guarded = m.Ite(m.Equals(y, m.Int(0)), m.Int(0), m.create_node(node_type=op.DIV, args=(x, y)))
    check("ite: untaken branch is not evaluated", ev(guarded), 0)
    raises("and is strict", DivisionByZeroEvaluated,
           lambda: ev(m.And(m.Bool(False), m.Equals(m.create_node(node_type=op.DIV, args=(x, y)), x))))
    If = Interp(dict(I0.symbols), usizes={"U": 2}, seed=11, div0="function")
    dz = m.create_node(node_type=op.DIV, args=(x, y))
    check("div0 function: fixed function of the dividend", ev(m.Equals(dz, m.create_node(node_type=op.DIV, args=(m.Int(5), m.Int(0)))), If), True)
    check("uf functional", ev(m.Equals(m.Function(f, [x, p]), m.Function(f, [m.Int(5), m.Bool(True)]))), True)
    I1 = interp_updated(I0, {x: 6})
    check("interp_updated", ev(x, I1), 6)
    check("interp_updated leaves the original", ev(x), 5)
    check("interp_updated shares tables", ev(m.Function(f, [m.Int(5), p]), I1), ev(m.Function(f, [x, p])))
    I2 = Interp(dict(I0.symbols), usizes={"U": 2}, seed=11, lazy=False)
    check("same seed, same tables (order independent)", ev(m.Function(f, [m.Int(5), p]), I2), ev(m.Function(f, [x, p])))
    check("uf result sort", has_sort(ev(m.Function(k, [c])), U, I0), True)
    raises("unassigned", Unassigned, lambda: ev(m.Symbol("zz", INT)))
    raises("set_symbol sort check", IllTyped, lambda: interp_updated(I0, {x: Fraction(1)}))
    check("select", ev(m.Select(A, m.Int(1))), 8)
    check("select default", ev(m.Select(A, m.Int(2))), 7)
    check("select store", ev(m.Select(m.Store(A, x, i), m.Int(5))), 2)
    check("store of select is identity", ev(m.Equals(m.Store(A, i, m.Select(A, i)), A)), True)
    check("stores commute", ev(m.Equals(m.Store(m.Store(A, i, x), j, y), m.Store(m.Store(A, j, y), i, x))), True)
    check("array value", ev(m.Select(m.Array(INT, m.Int(1), {m.Int(3): x}), m.Int(3))), 5)
    check("array value default", ev(m.Select(m.Array(INT, m.Int(1), {m.Int(3): x}), m.Int(4))), 1)
    check("finite index: all overwritten = constant array",
          ev(m.Equals(m.Store(m.Store(Bf, m.BV(0, 1), m.Bool(True)), m.BV(1, 1), m.Bool(True)), m.Array(BVType(1), m.Bool(True)))), True)
    check("string ops", ev(m.StrConcat(st, m.IntToStr(m.StrLength(st)))), "ab13")
    check("bv formula", ev(m.BVAdd(u8, m.BVZExt(v2, 6))), BV(8, 203))
    check("bv extract formula", ev(m.BVExtract(u8, 3, 7)), BV(5, 25))
    check("bv2nat", ev(m.BVToNatural(u8)), 200)
    # quantifiers
    bx = m.Symbol("bx", BVType(2))
    check("forall bv exact", evaluate_ex(m.ForAll([bx], m.Not(m.Equals(m.BVAdd(bx, m.BV(1, 2)), bx))), I0), (True, True))
    check("exists bv exact", evaluate_ex(m.Exists([bx], m.Equals(m.BVMul(bx, bx), m.BV(2, 2))), I0), (False, True))
    check("exists bool", evaluate_ex(m.Exists([q], m.And(q, p)), I0), (True, True))
    check("forall bool", evaluate_ex(m.ForAll([q], m.Or(q, p)), I0), (True, True))
    check("forall int: sample only", evaluate_ex(m.ForAll([i], m.LE(m.Int(0), m.Times(i, i))), I0), (True, False))
    raises("evaluate raises Inexact", Inexact, lambda: ev(m.ForAll([i], m.LE(m.Int(0), m.Times(i, i)))))
    check("exists int: witness is exact", evaluate_ex(m.Exists([i], m.Equals(i, m.Int(3))), I0), (True, True))
    check("forall int: counterexample is exact", evaluate_ex(m.ForAll([i], m.LT(i, m.Int(5))), I0), (False, True))
    check("exists int: no witness in sample", evaluate_ex(m.Exists([i], m.Equals(i, m.Int(1000))), I0), (False, False))
    check("and absorbs inexact", evaluate_ex(m.And(q, m.ForAll([i], m.LE(m.Int(0), m.Times(i, i)))), I0), (False, True))
    check("shadowing", ev(m.And(m.Equals(x, m.Int(5)), m.Exists([x], m.Equals(x, m.Int(3))))), True)
    check("bound variable hides the interpretation", ev(m.ForAll([p], m.Or(p, m.Not(p)))), True)
    check("nested quantifiers", evaluate_ex(m.ForAll([bx], m.Exists([v2], m.Equals(m.BVAdd(bx, v2), m.BV(0, 2)))), I0), (True, True))
    check("nested, dependency on outer", evaluate_ex(m.Exists([v2], m.ForAll([bx], m.Equals(m.BVAnd(bx, v2), bx))), I0), (True, True))
    check("forall U, size 2", evaluate_ex(m.ForAll([c], m.Equals(c, d)), I0), (False, True))
    I3 = Interp({d: UVal("U", 0)}, usizes={"U": 1})
    check("forall U, size 1", evaluate_ex(m.ForAll([c], m.Equals(c, d)), I3), (True, True))
    check("quantified array (finite)", evaluate_ex(m.Exists([Bf], m.And(m.Select(Bf, m.BV(0, 1)), m.Not(m.Select(Bf, m.BV(1, 1))))), I0), (True, True))
    check("forall over all 4 arrays", evaluate_ex(m.ForAll([Bf], m.Or(m.Select(Bf, m.BV(0, 1)), m.Not(m.Select(Bf, m.BV(0, 1))))), I0), (True, True))
    raises("quantifier instance divides by zero", DivisionByZeroEvaluated,
           lambda: ev(m.Exists([i], m.Equals(m.create_node(node_type=op.DIV, args=(x, i)), m.Int(5)))))
    check("bv > 8 bits: sampled", evaluate_ex(m.ForAll([m.Symbol("w16", BVType(16))], m.BVULE(m.BV(0, 16), m.Symbol("w16", BVType(16)))), I0), (True, False))
    # helpers
    ex_f = m.And(p, m.Or(q, m.Equals(v2, m.BV(1, 2))))
    all_its = exhaustive_interps(ex_f)
    check("exhaustive_interps count", len(all_its), 16)
    check("exhaustive_interps models", sum(1 for it in all_its if evaluate(ex_f, it)), 5)
    check("exhaustive_interps infinite", exhaustive_interps(m.Equals(x, y)), None)
    check("equivalent_on equal", equivalent_on(ex_f, m.And(m.Or(m.Equals(v2, m.BV(1, 2)), q), p), all_its), None)
    d_it = equivalent_on(ex_f, m.And(p, q), all_its)
    check("equivalent_on finds the difference", (d_it.value(p), d_it.value(q), d_it.value(v2)), (True, False, BV(2, 1)))
    check("equivalent_on skips approximate values",
          equivalent_on(m.ForAll([i], m.LE(m.Int(0), m.Times(i, i))), m.Bool(False), [I0]), None)
    check("equivalent_on, approximate allowed",
          equivalent_on(m.ForAll([i], m.LE(m.Int(0), m.Times(i, i))), m.Bool(False), [I0], exact_only=False) is I0, True)
    rr = random.Random(5)
    for ty in (BOOL, INT, REAL, STRING, BVType(5), ArrayType(INT, REAL), ArrayType(BVType(2), ArrayType(INT, BVType(3))), ArrayType(BVType(1), BOOL)):
        for _ in range(20):
            val = random_value(rr, ty, I0)
            check("value_to_fnode round trip (%s)" % sort_name(ty), evaluate(value_to_fnode(val, ty, m), I0), val)
            check("random_value sort (%s)" % sort_name(ty), has_sort(val, ty, I0), True)
    # typing
    m2 = Environment().formula_manager
    m2._do_type_check = lambda formula: None          # raw nodes, also ill-typed ones
    X, P = m2.Symbol("x", INT), m2.Symbol("p", BOOL)
    R, V = m2.Symbol("r", REAL), m2.Symbol("v", BVType(4))
    raw = lambda nt, args, payload=None: m2.create_node(node_type=nt, args=tuple(args), payload=payload)
    raises("type: Equals on Bool", IllTyped, lambda: type_of(raw(op.EQUALS, [P, P])))
    raises("type: Int + Real", IllTyped, lambda: type_of(raw(op.PLUS, [X, R])))
    raises("type: to_real of Real", IllTyped, lambda: type_of(raw(op.TOREAL, [R])))
    raises("type: Pow on Bool", IllTyped, lambda: type_of(raw(op.POW, [P, P])))
    raises("type: stored BV width", IllTyped, lambda: type_of(raw(op.BV_ADD, [V, V], (5,))))
    raises("type: extract range", IllTyped, lambda: type_of(raw(op.BV_EXTRACT, [V], (2, 3, 4))))
    raises("type: bv const range", IllTyped, lambda: type_of(raw(op.BV_CONSTANT, [], (16, 4))))
    raises("type: ite branches", IllTyped, lambda: type_of(raw(op.ITE, [P, X, R])))
    raises("type: and of int", IllTyped, lambda: type_of(raw(op.AND, [P, X])))
    raises("type: evaluate checks types", IllTyped, lambda: evaluate(raw(op.PLUS, [X, R]), Interp()))
    check("type: concat", type_of(raw(op.BV_CONCAT, [V, V], (8,))), BVType(8))
    check("type: comp", type_of(raw(op.BV_COMP, [V, V], (1,))), BVType(1))
    check("type: array value", type_of(raw(op.ARRAY_VALUE, [X, m2.Int(1), X], INT)), ArrayType(INT, INT))
    # depth: no recursion on the formula
    deep = x
    one = m.Int(1)
    for _ in range(30000):
        deep = m.create_node(node_type=op.PLUS, args=(deep, one))
    check("deep formula", ev(deep), 30005)
    deepq = m.Bool(True)
    for _ in range(3000):
        deepq = m.create_node(node_type=op.FORALL, args=(m.create_node(node_type=op.AND, args=(deepq, m.Or(q, p))),), payload=(q,))
    check("deep quantifier nest", evaluate_ex(deepq, I0), (True, True))
    out("unit checks: %d run, %d failed" % (count[0], len(fails)))
    return len(fails)


class _Budget(Exception):
    pass


def _naive_eval(node, interp, env, ev):
    """Plain recursive evaluation with dictionaries as binder environments and no memo: a second
    implementation of the traversal (not of the operators) to test the stack machine against.
    ev.budget bounds the number of calls (no memo: shared sub-DAGs are re-evaluated)."""
    ev.budget -= 1
    if ev.budget < 0:
        raise _Budget()
    nt = node.node_type()
    args = node.args()
    if nt == op.SYMBOL:
        return env[node] if node in env else interp.value(node)
    if nt == op.ITE:
        return _naive_eval(args[1] if _naive_eval(args[0], interp, env, ev) else args[2], interp, env, ev)
    if nt in (op.FORALL, op.EXISTS):
        insts, _exact = ev.instances(node)
        rs = []
        for inst in insts:
            e2 = dict(env)
            e2.update(zip(node.quantifier_vars(), inst))
            rs.append(_naive_eval(args[0], interp, e2, ev))
        return all(rs) if nt == op.FORALL else any(rs)
    if not args:
        if nt == op.BV_CONSTANT:
            return BV(node._content.payload[1], node._content.payload[0])
        if nt == op.REAL_CONSTANT:
            return Fraction(node.constant_value())
        if nt in (op.AND, op.OR):
            return nt == op.AND
        return node.constant_value()
    return apply_operator(interp, node, [_naive_eval(a, interp, env, ev) for a in args])


def _generated_checks(out):
    """Generated formulas: type_of vs pysmt's own checker (information), evaluation sanity, speed."""
    import time
    from pysmt.environment import Environment
    from harness.gen.formulas import FormulaGen
    env = Environment()
    rnd = random.Random(7)
    g = FormulaGen(env, rnd)
    fs = [g.formula(depth=5) for _ in range(200)]
    bad = 0
    stats = {"exact": 0, "approximate": 0, "div0": 0}
    for fm in fs:
        t = type_of(fm)
        if t != env.stc.get_type(fm):
            bad += 1
            out("  type_of differs from pysmt's checker on %s" % fm.serialize()[:120])
        cache = EvalCache()
        for it in random_interps(rnd, fm, 4):
            try:
                v, ex = evaluate_ex(fm, it, cache)
            except DivisionByZeroEvaluated:
                stats["div0"] += 1
                continue
            stats["exact" if ex else "approximate"] += 1
            if not has_sort(v, t, it):
                bad += 1
                out("  value %r is not of sort %s" % (v, sort_name(t)))
            v2, _ = evaluate_ex(fm, it, cache)
            if v2 != v:
                bad += 1
                out("  evaluation is not repeatable")
            if len(postorder([fm])) <= 40:
                it.enum_limit = 300         # keeps the un-memoised recursion affordable; same instances for both
                it._doms.clear()
                try:
                    ev = _Evaluator(it, cache)
                    ev.budget = 5000
                    v3 = _naive_eval(fm, it, {}, ev)
                    v4, _ = evaluate_ex(fm, it, cache)
                    stats["vs naive"] = stats.get("vs naive", 0) + 1
                    if type(v3) is not type(v4) or v3 != v4:
                        bad += 1
                        out("  stack machine %r, naive recursion %r on %s" % (v4, v3, fm.serialize()[:200]))
                except (DivisionByZeroEvaluated, _Budget):
                    pass
    out("generated formulas: %d formulas, evaluations %s, problems %d" % (len(fs), stats, bad))
    sized = sorted(fs, key=lambda fm: abs(len(postorder([fm])) - 50))[0]
    its = random_interps(rnd, sized, 50)
    t0 = time.time()
    first_difference(sized, sized, its)
    dt = time.time() - t0
    out("speed: %d-node formula, 50 interpretations, 2 evaluations each: %.3f s" % (len(postorder([sized])), dt))
    if dt > 1.0:
        bad += 1
        out("  TOO SLOW")
    return bad


def _selftest_main(argv):
    if "--selftest" not in argv:
        sys.stdout.write("usage: python -m harness.refeval --selftest [--no-solvers] [-v]\n")
        return 2
    verbose = "-v" in argv
    out = lambda s: (sys.stdout.write(s + "\n"), sys.stdout.flush())
    bad = _unit_checks(out)
    bad += _generated_checks(out)
    if "--no-solvers" not in argv:
        dis, _summary = _cross_validate(verbose, out)
        out("cross-validation: %d disagreement(s)" % dis)
        bad += dis
    out("refeval self-test: %s" % ("OK" if bad == 0 else "%d PROBLEM(S)" % bad))
    return 0 if bad == 0 else 1


if __name__ == "__main__":
    from harness import refeval as _self      # one copy of the classes, also under `python -m`
    sys.exit(_self._selftest_main(sys.argv[1:]))
