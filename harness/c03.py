"""C03 - every formula that exists is well-typed; ill-typed applications are rejected."""
import itertools
import os
import random
import warnings

import pysmt.operators as op
from pysmt.environment import Environment
from pysmt.fnode import FNodeContent
from pysmt.typing import BOOL, INT, REAL, STRING, ArrayType, BVType, FunctionType

from . import gen_all, lib, tocoq
from .gen.formulas import Config, FormulaGen

TRUSTED = [
    "Coq 8.16.1 kernel (coqc); no native_compute",
    "core/Types.v: the declarative sorting rules (specification) and ctor_shape (what the constructors' Python signatures and width computations guarantee before the check runs)",
    "hand model models/TypeChecker.v of SimpleTypeChecker.walk_*, tied to pysmt/type_checker.py by exhaustive correspondence over (operator, payload, argument-sort tuple) at the create_node level",
    "harness/refeval.py type_of: independent type derivation used as the property-level oracle on formulas returned by constructors, generators and transformations",
]
ASSUME = [
    "tc_sound is stated under ctor_shape (arity and redundant width payloads as the FormulaManager constructors set them): raw create_node calls with inconsistent payloads are outside the property (they are not reachable through the constructors)",
]


def universe(env):
    tm = env.type_manager
    U = tm.Type("U", 0)
    return [BOOL, INT, REAL, BVType(1), BVType(2), BVType(8), STRING, ArrayType(INT, INT),
            ArrayType(BVType(2), BOOL), U, FunctionType(INT, [INT])]


def payload_grid(nt, env, rnd):
    """Payloads to try for a node type (None = no payload)."""
    m = env.formula_manager
    if nt in tocoq.BVOPS:
        return [(w,) for w in (1, 2, 8, 3)]
    if nt == op.BV_EXTRACT:
        out = []
        for w in (1, 2, 8):
            for s in (-1, 0, 1, 7, 8):
                for e in (-1, 0, 1, 7, 8):
                    out.append((w, s, e))
        return out
    if nt in (op.BV_ROL, op.BV_ROR, op.BV_ZEXT, op.BV_SEXT):
        return [(w, k) for w in (-1, 1, 2, 8, 9) for k in (-1, 0, 1, 2, 8, 9)]
    if nt == op.BV_CONSTANT:
        return [(0, 1), (3, 2), (255, 8)]
    if nt == op.BOOL_CONSTANT:
        return [True, False]
    if nt == op.INT_CONSTANT:
        return [0, -7]
    if nt == op.REAL_CONSTANT:
        from fractions import Fraction
        return [Fraction(1, 2)]
    if nt == op.STR_CONSTANT:
        return ["ab"]
    if nt == op.SYMBOL:
        return [("s_%d" % i, t) for i, t in enumerate(universe(env))]
    if nt == op.FUNCTION:
        fts = [FunctionType(INT, [INT]), FunctionType(BOOL, [INT, REAL]), FunctionType(BVType(2), []),
               FunctionType(REAL, [BVType(8), BVType(8), STRING])]
        return [m.Symbol("fn_%d" % i, ft) for i, ft in enumerate(fts)] + [m.Symbol("notfun", INT)]
    if nt in (op.FORALL, op.EXISTS):
        return [(m.Symbol("qv_i", INT),), (m.Symbol("qv_b", BOOL), m.Symbol("qv_r", REAL))]
    if nt == op.ARRAY_VALUE:
        return [INT, BVType(2), BOOL]
    return [None]


def raw_cases(env, rnd, tier):
    """(node_type, payload, tuple of argument types) over the universe."""
    uni = universe(env)
    nts = [nt for nt in op.ALL_TYPES if nt != op.ALGEBRAIC_CONSTANT]
    for nt in nts:
        for pay in payload_grid(nt, env, rnd):
            combos = [()] + [(a,) for a in uni] + list(itertools.product(uni, uni))
            tri = list(itertools.product(uni, uni, uni))
            if tier == "quick":
                # arity 3: all-same, plus a sample; arity 2 fully
                tri = [t for t in tri if len(set(t)) == 1 or t[0] == BOOL or (t[0].is_array_type() and rnd.random() < 0.5)] + rnd.sample(tri, 40)
                if nt in tocoq.BVOPS or nt in (op.BV_EXTRACT, op.BV_ROL, op.BV_ROR, op.BV_ZEXT, op.BV_SEXT):
                    # many payloads: thin the binary combinations
                    combos = [()] + [(a,) for a in uni] + [c for c in itertools.product(uni, uni) if c[0].is_bv_type() or rnd.random() < 0.15]
                    tri = rnd.sample(tri, 12)
            for c in combos + tri:
                yield nt, pay, c
            if nt in (op.ARRAY_VALUE, op.AND, op.PLUS, op.FUNCTION, op.STR_CONCAT, op.BV_ADD):
                for _ in range(30 if tier == "quick" else 300):
                    k = rnd.choice([4, 5])
                    yield nt, pay, tuple(rnd.choice(uni[:7]) if rnd.random() < 0.6 else rnd.choice(uni) for _ in range(k))


def run(tier):
    chk = lib.Check("C03", tier)
    rnd = random.Random(chk.seed)
    warnings.simplefilter("ignore")
    gen_all.regen_all()
    ok = chk.prove()
    lib.clean_cases(chk.dir)
    from . import refeval

    # ------------------------------------------------------------------ raw correspondence
    env = Environment()
    m = env.formula_manager
    argsym = {}
    for i, t in enumerate(universe(env)):
        argsym[t] = [m.Symbol("a%d_%d" % (i, j), t) for j in range(5)]
    rows, meta = [], []
    nfail = 0
    for nt, pay, tys in raw_cases(env, rnd, tier):
        args = tuple(argsym[t][j] for j, t in enumerate(tys))
        try:
            n = m.create_node(node_type=nt, args=args, payload=pay)
            res = env.stc.get_type(n)
        except Exception:   # noqa: any error = rejected
            res = None
            nfail += 1
        node = m.formulae.get(FNodeContent(nt, args, pay))
        if node is None:
            continue
        try:
            o = tocoq.opr(node)
        except Exception:
            continue
        rows.append("(%s, [%s], %s)" % (o, "; ".join(tocoq.ty(t) for t in tys), "None" if res is None else "(Some %s)" % tocoq.ty(res)))
        meta.append((op.op_to_str(nt), str(pay), [str(t) for t in tys], str(res)))
        chk.count(("raw", nt, str(pay), tuple(str(t) for t in tys)))
    chk.sample({"kind": "create_node", "case": meta[len(meta) // 2]})
    files, shard = [], 400
    for k in range(0, len(rows), shard):
        text = ("From Coq Require Import List ZArith Bool String.\nFrom PySMT.core Require Import CaseUtil Syntax.\n"
                "From PySMT.models Require Import TypeChecker.\nImport ListNotations.\n"
                "Definition cases : list (op * list ty * option ty) := [\n%s\n].\n" % ";\n".join(rows[k:k + shard]) +
                "Definition ok (c : op * list ty * option ty) : bool :=\n  let '(o, tys, e) := c in\n"
                "  match tc_rule o tys, e with Some a, Some b => ty_eqb a b | None, None => true | _, _ => false end.\n"
                "Eval vm_compute in mismatches ok cases.\n")
        p = os.path.join(chk.dir, "cases_raw_%d.v" % (k // shard))
        open(p, "w").write(text)
        files.append((p, k, len(rows[k:k + shard])))
    from . import termcases
    bad, errs = termcases.run(files)
    chk.cov["correspondence"] = {"create_node_cases": len(rows), "rejected_by_implementation": nfail,
                                 "disagreements": len(bad), "case_file_errors": len(errs),
                                 "examples": [meta[i] for i in bad[:6]]}
    for i in bad[:6]:
        chk.note("type checker model/implementation disagree on %s" % (meta[i],))
    for e in errs[:2]:
        chk.note("case file error: " + e["error"][-300:])

    # ------------------------------------------------------------------ constructor-level oracle
    env2 = Environment()
    m2 = env2.formula_manager
    uni2 = universe(env2)
    sym = {t: [m2.Symbol("c%d_%d" % (i, j), t) for j in range(3)] for i, t in enumerate(uni2)}
    const = {BOOL: m2.TRUE(), INT: m2.Int(2), REAL: m2.Real(2), STRING: m2.String("a"),
             BVType(1): m2.BV(1, 1), BVType(2): m2.BV(2, 2), BVType(8): m2.BV(2, 8)}
    ctors1 = ["Not", "ToReal", "BVNot", "BVNeg", "StrLength", "StrToInt", "IntToStr", "BVToNatural"]
    ctors2 = ["Implies", "Iff", "Minus", "Div", "Equals", "NotEquals", "GE", "GT", "LE", "LT", "Xor", "EqualsOrIff",
              "BVXor", "BVULT", "BVUGT", "BVULE", "BVUGE", "BVSub", "BVUDiv", "BVURem", "BVLShl", "BVLShr", "BVSLT", "BVSLE",
              "BVComp", "BVSDiv", "BVSRem", "BVAShr", "BVNand", "BVNor", "BVXnor", "BVSGT", "BVSGE", "BVSMod",
              "StrContains", "StrPrefixOf", "StrSuffixOf", "StrCharAt", "Select", "Pow"]
    ctors3 = ["Ite", "StrIndexOf", "StrReplace", "StrSubstr", "Store"]
    ctorsn = ["And", "Or", "Plus", "Times", "BVAnd", "BVOr", "BVAdd", "BVMul", "BVConcat", "StrConcat", "Min", "Max",
              "AtMostOne", "ExactlyOne", "AllDifferent"]
    intp = {"BVRol": (-3, -1, 0, 1, 2, 8, 9), "BVRor": (-3, -1, 0, 1, 2, 8, 9), "BVZExt": (-9, -1, 0, 1, 3), "BVSExt": (-9, -1, 0, 1, 3),
            "BVRepeat": (-1, 0, 1, 2)}
    ncalls = 0

    def safe_type(f):
        try:
            return str(f.get_type())
        except Exception as ex:   # noqa
            return "<get_type raised %s>" % type(ex).__name__

    def judge(name, argdesc, thunk):
        nonlocal ncalls
        ncalls += 1
        try:
            f = thunk()
        except Exception:
            # a rejected application must stay rejected when it is attempted again
            try:
                f2 = thunk()
            except Exception:
                return
            chk.violation({"kind": "history", "what": "%s%s raised on the first attempt but returned %s on the second"
                           % (name, argdesc, f2.serialize()), "repro": "call FormulaManager.%s twice on arguments of sorts %s" % (name, argdesc)},
                          key="ctor2:%s:%s" % (name, argdesc))
            return
        chk.count(("ctor", name, argdesc))
        try:
            t = refeval.type_of(f)
        except refeval.IllTyped as ex:
            chk.violation({"kind": "input", "what": "%s%s returned the ill-typed formula %s (reported type %s): %s"
                           % (name, argdesc, f.serialize(), safe_type(f), ex),
                           "repro": "FormulaManager.%s on arguments of sorts/values %s" % (name, argdesc)},
                          key="ctor:%s:%s" % (name, argdesc))
            return
        except refeval.Unsupported:
            return
        if str(t) != safe_type(f):
            chk.violation({"kind": "input", "what": "%s%s: reported type %s, derived type %s" % (name, argdesc, safe_type(f), t),
                           "formula": f.serialize()}, key="ctortype:%s:%s" % (name, argdesc))

    def variants(t):
        out = [sym[t][0]]
        if t in const:
            out.append(const[t])
        return out
    for name in ctors1:
        for t in uni2:
            for a in variants(t):
                judge(name, "(%s%s)" % (t, "" if a.is_symbol() else " const"), lambda: getattr(m2, name)(a))
    for name in ctors2:
        for t1 in uni2:
            for t2 in uni2:
                for a in variants(t1):
                    for b in variants(t2):
                        if b is a and b.is_symbol():
                            b = sym[t2][1]
                        judge(name, "(%s%s, %s%s)" % (t1, "" if a.is_symbol() else " const", t2, "" if b.is_symbol() else " const"),
                              lambda: getattr(m2, name)(a, b))
    for name in ctors3:
        for t1 in uni2:
            for t2 in uni2:
                for t3 in (uni2 if tier == "thorough" else [t1, t2, BOOL, INT, STRING]):
                    judge(name, "(%s, %s, %s)" % (t1, t2, t3), lambda: getattr(m2, name)(sym[t1][0], sym[t2][1], sym[t3][2]))
    for name in ctorsn:
        for t1 in uni2:
            judge(name, "()", lambda: getattr(m2, name)())
            judge(name, "(%s)" % t1, lambda: getattr(m2, name)(sym[t1][0]))
            for t2 in uni2:
                judge(name, "(%s, %s)" % (t1, t2), lambda: getattr(m2, name)(sym[t1][0], sym[t2][1]))
                judge(name, "(%s, %s, %s)" % (t1, t2, t1), lambda: getattr(m2, name)(sym[t1][0], sym[t2][1], sym[t1][2]))
    for name, ks in intp.items():
        for t in uni2:
            for k in ks:
                judge(name, "(%s, %d)" % (t, k), lambda: getattr(m2, name)(sym[t][0], k))
    for t in uni2:
        for s in (-1, 0, 1, 7, 8):
            for e in (-1, 0, 1, 7, 8, None):
                judge("BVExtract", "(%s, %s, %s)" % (t, s, e), lambda: m2.BVExtract(sym[t][0], s, e))
        for it in (INT, BVType(2)):
            for t2 in uni2:
                judge("Array", "(%s, default %s, {%s: %s})" % (it, t, "const", t2),
                      lambda: m2.Array(it, sym[t][0], {const[it]: sym[t2][1]}))
        judge("ForAll", "([%s], %s)" % (t, t), lambda: m2.ForAll([sym[t][0]], sym[t][1]))
        for fn in (m2.Symbol("cf1", FunctionType(INT, [INT])), m2.Symbol("cf2", FunctionType(BOOL, [INT, REAL])), sym[INT][0]):
            judge("Function", "(%s; %s)" % (fn.symbol_type(), t), lambda: m2.Function(fn, [sym[t][0]]))
            judge("Function", "(%s; %s, %s)" % (fn.symbol_type(), t, REAL), lambda: m2.Function(fn, [sym[t][0], sym[REAL][0]]))
    chk.cov["constructor_calls"] = ncalls
    chk.sample({"kind": "constructor", "case": "Pow(BV8 symbol, BV8 constant) / BVRol(x, -1) / Ite(Bool, Int, Real) ..."})

    # ------------------------------------------------------------------ formulas that exist are well typed
    env3 = Environment()
    g = FormulaGen(env3, rnd, Config())
    nform = 300 if tier == "quick" else 3000
    for i in range(nform):
        f = g.gen(rnd.choice(g.types), rnd.randint(1, 5))
        outs = [("generated", f)]
        try:
            outs.append(("simplify", env3.simplifier.simplify(f)))
        except Exception:
            pass
        for what, h in outs:
            chk.count(("exists", what, tocoq.skey(h)), nontrivial=len(h.args()) > 0)
            try:
                t = refeval.type_of(h)
            except refeval.IllTyped as ex:
                chk.violation({"kind": "input", "what": "%s formula is ill-typed: %s" % (what, ex), "formula": h.serialize(), "source": f.serialize()},
                              key="exists:%s:%s" % (what, str(ex)[:80]))
                continue
            except refeval.Unsupported:
                continue
            if t != env3.stc.get_type(h):
                chk.violation({"kind": "input", "what": "%s formula: reported type %s, derived %s" % (what, env3.stc.get_type(h), t), "formula": h.serialize()},
                              key="existstype:%s:%s:%s" % (what, env3.stc.get_type(h), t))
            elif what == "simplify" and t != refeval.type_of(f):
                chk.violation({"kind": "input", "what": "simplify changed the type from %s to %s" % (refeval.type_of(f), t), "formula": f.serialize(), "result": h.serialize()},
                              key="simptype:%s:%s" % (refeval.type_of(f), t))

    if (not ok or bad or errs) and not chk.violations and not chk.known_hits:
        what = []
        if not ok:
            what.append("proof obligations no longer check: " + lib.proof_failure_summary(chk))
        if bad or errs:
            what.append("correspondence models/TypeChecker.v <-> pysmt/type_checker.py differs, e.g. %s" % [meta[i] for i in bad[:3]])
        chk.violation({"kind": "obligation", "theorem_or_correspondence": what}, found_input=False)
    return chk.finish(TRUSTED, ASSUME,
                      "create_node level: every operator x payload grid x argument-sort tuples over an 11-sort universe (arity 0-2 exhaustive, arity 3 "
                      "sampled in quick / exhaustive in thorough, arity 4-5 sampled for n-ary operators); constructor level: every public constructor "
                      "x sort combinations x symbol/constant variants; distinct = distinct (operator, payload, sorts)")


def replay(path):
    import json
    print(json.dumps(json.load(open(path)), indent=1))
    return run("quick")
