"""C03 - every formula that exists is well-typed; ill-typed applications are rejected."""
import itertools
import os
import random
import warnings

import pysmt.operators as op
from pysmt.environment import Environment
from pysmt.fnode import FNodeContent
from pysmt.typing import BOOL, INT, REAL, STRING, ArrayType, BVType, FunctionType

from . import gen_all, lib, tocoq
from .gen.formulas import Config, FormulaGen

TRUSTED = [
    "Coq 8.16.1 kernel (coqc); no native_compute",
    "core/Types.v: the declarative sorting rules (specification) and ctor_shape (what the constructors' Python signatures and width computations guarantee before the check runs)",
    "hand model models/TypeChecker.v of SimpleTypeChecker.walk_*, tied to pysmt/type_checker.py by exhaustive correspondence over (operator, payload, argument-sort tuple) at the create_node level",
    "translator harness/translate/dispatch_tr.py (Python ast -> Gallina, fail-closed) regenerates gen/Operators.v (node types, ids, names, groups) and gen/Dispatch.v (node type -> name of the handling method, per walker class) from the repository on every run; its output is cross-checked against the live tables (pysmt.operators, walker.functions[op].__name__) and the proofs Operators_proofs / Dispatch_tc_proofs tie the hand model's case analysis to it",
    "harness/refeval.py type_of: independent type derivation used as the property-level oracle on formulas returned by constructors, generators and transformations",
]
ASSUME = [
    "tc_sound is stated under ctor_shape (arity and redundant width payloads as the FormulaManager constructors set them): raw create_node calls with inconsistent payloads are outside the property (they are not reachable through the constructors)",
]


def universe(env):
    tm = env.type_manager
    U = tm.Type("U", 0)
    return [BOOL, INT, REAL, BVType(1), BVType(2), BVType(8), STRING, ArrayType(INT, INT),
            ArrayType(BVType(2), BOOL), U, FunctionType(INT, [INT])]


def payload_grid(nt, env, rnd, tier="thorough"):
    """Payloads to try for a node type (None = no payload).  The quick tier thins the extract / rotate / extend payload
    grids: the WIDTH-BOUNDARY family walks those payloads systematically."""
    m = env.formula_manager
    if tier == "quick" and nt == op.BV_EXTRACT:
        return [(w, s, e) for w in (1, 8) for s in (-1, 0, 1, 7, 8) for e in (-1, 0, 7, 8)]
    if tier == "quick" and nt in (op.BV_ROL, op.BV_ROR, op.BV_ZEXT, op.BV_SEXT):
        return [(w, k) for w in (-1, 1, 8, 9) for k in (-1, 0, 1, 8, 9)]
    if nt in tocoq.BVOPS:
        return [(w,) for w in (1, 2, 8, 3)]
    if nt == op.BV_EXTRACT:
        out = []
        for w in (1, 2, 8):
            for s in (-1, 0, 1, 7, 8):
                for e in (-1, 0, 1, 7, 8):
                    out.append((w, s, e))
        return out
    if nt in (op.BV_ROL, op.BV_ROR, op.BV_ZEXT, op.BV_SEXT):
        return [(w, k) for w in (-1, 1, 2, 8, 9) for k in (-1, 0, 1, 2, 8, 9)]
    if nt == op.BV_CONSTANT:
        return [(0, 1), (3, 2), (255, 8)]
    if nt == op.BOOL_CONSTANT:
        return [True, False]
    if nt == op.INT_CONSTANT:
        return [0, -7]
    if nt == op.REAL_CONSTANT:
        from fractions import Fraction
        return [Fraction(1, 2)]
    if nt == op.STR_CONSTANT:
        return ["ab"]
    if nt == op.SYMBOL:
        return [("s_%d" % i, t) for i, t in enumerate(universe(env))]
    if nt == op.FUNCTION:
        fts = [FunctionType(INT, [INT]), FunctionType(BOOL, [INT, REAL]), FunctionType(BVType(2), []),
               FunctionType(REAL, [BVType(8), BVType(8), STRING])]
        return [m.Symbol("fn_%d" % i, ft) for i, ft in enumerate(fts)] + [m.Symbol("notfun", INT)]
    if nt in (op.FORALL, op.EXISTS):
        return [(m.Symbol("qv_i", INT),), (m.Symbol("qv_b", BOOL), m.Symbol("qv_r", REAL))]
    if nt == op.ARRAY_VALUE:
        return [INT, BVType(2), BOOL]
    return [None]


def raw_cases(env, rnd, tier):
    """(node_type, payload, tuple of argument types) over the universe."""
    uni = universe(env)
    nts = [nt for nt in op.ALL_TYPES if nt != op.ALGEBRAIC_CONSTANT]
    for nt in nts:
        for pay in payload_grid(nt, env, rnd, tier):
            combos = [()] + [(a,) for a in uni] + list(itertools.product(uni, uni))
            tri = list(itertools.product(uni, uni, uni))
            if tier == "quick":
                # arity 3: all-same, plus a sample; arity 2 fully
                tri = [t for t in tri if len(set(t)) == 1 or t[0] == BOOL or (t[0].is_array_type() and rnd.random() < 0.5)] + rnd.sample(tri, 40)
                if nt in tocoq.BVOPS or nt in (op.BV_EXTRACT, op.BV_ROL, op.BV_ROR, op.BV_ZEXT, op.BV_SEXT):
                    # many payloads: thin the binary combinations
                    combos = [()] + [(a,) for a in uni] + [c for c in itertools.product(uni, uni) if c[0].is_bv_type() or rnd.random() < 0.15]
                    tri = rnd.sample(tri, 12)
            for c in combos + tri:
                yield nt, pay, c
            if nt in (op.ARRAY_VALUE, op.AND, op.PLUS, op.FUNCTION, op.STR_CONCAT, op.BV_ADD):
                for _ in range(30 if tier == "quick" else 300):
                    k = rnd.choice([4, 5])
                    yield nt, pay, tuple(rnd.choice(uni[:7]) if rnd.random() < 0.6 else rnd.choice(uni) for _ in range(k))


# ---- WIDTH-BOUNDARY family: the width axis of the type grid includes 0 (pysmt lets BVType(0) be declared), the
#      usual small widths, machine-word edges and widths beyond them, in every ORDERED pair (the rules read the width
#      of the first operand), alone and as components of array / function sorts.
WIDTHS = (0, 1, 2, 8, 9, 16, 33, 64, 65, 257)


def boundary_universe(env):
    bvs = [BVType(w) for w in WIDTHS]
    arrs = [ArrayType(BVType(a), BVType(b)) for a, b in ((0, 8), (8, 0), (9, 16), (16, 9), (0, 0), (257, 1))]
    arrs += [ArrayType(INT, BVType(0)), ArrayType(BVType(0), INT), ArrayType(BVType(8), ArrayType(BVType(0), BVType(9)))]
    return bvs, arrs


def boundary_raw_cases(env, rnd, tier):
    """(node_type, payload, argument sorts) around the width boundaries."""
    m = env.formula_manager
    bvs, arrs = boundary_universe(env)
    allb = bvs + arrs + [BOOL, INT]
    pairs = list(itertools.product(allb, allb))
    for nt in (op.BV_ULT, op.BV_ULE, op.BV_SLT, op.BV_SLE, op.EQUALS, op.LE, op.LT, op.IFF, op.ARRAY_SELECT):
        for c in pairs:
            yield nt, None, c
    for c in pairs:
        yield op.ITE, None, (BOOL,) + c
        yield op.BV_COMP, (1,), c
    # n-ary shapes: the first operand fixes the width every other operand is compared with
    for nt in (op.BV_ULT, op.BV_ULE, op.BV_SLT, op.BV_SLE, op.EQUALS):
        for a in bvs:
            for b in bvs:
                for c in (a, b, BVType(0)):
                    yield nt, None, (a, b, c)
    for nt in tocoq.BVOPS:
        if nt in (op.BV_CONCAT, op.BV_COMP):
            continue
        for w in WIDTHS:
            loc = [BVType(w), BVType(0), BVType(1), BVType(w + 1), arrs[0]]
            for a in loc:
                yield nt, (w,), (a,)
                for b in loc:
                    yield nt, (w,), (a, b)
    for l in WIDTHS:
        for r in WIDTHS:
            for w in sorted({l + r, l, 0}):
                yield op.BV_CONCAT, (w,), (BVType(l), BVType(r))
    for base in WIDTHS:
        for (st, e) in ((0, 0), (0, base - 1), (base - 1, base - 1), (0, base), (base, base), (1, 0)):
            for w in sorted({e - st + 1, 0, base}):
                yield op.BV_EXTRACT, (w, st, e), (BVType(base),)
        for nt in (op.BV_ROL, op.BV_ROR, op.BV_ZEXT, op.BV_SEXT):
            for w in sorted({base, 0, base + 1}):
                for k in sorted({0, 1, base, w, base + 1}):
                    yield nt, (w, k), (BVType(base),)
    for a in arrs:
        for x in bvs + [INT]:
            for v in bvs + [INT]:
                yield op.ARRAY_STORE, None, (a, x, v)
    for it in bvs:
        for d in (BVType(0), BVType(8), INT):
            for c in ((d,), (d, it, d), (d, BVType(0), d), (d, it, BVType(0)), (d, it, d, BVType(8), d)):
                yield op.ARRAY_VALUE, it, c
    fts = [FunctionType(BVType(0), [BVType(8)]), FunctionType(BVType(8), [BVType(0)]), FunctionType(BOOL, [BVType(0), BVType(257)]),
           FunctionType(arrs[0], [arrs[1]])]
    for i, ft in enumerate(fts):
        f = m.Symbol("bfn_%d" % i, ft)
        for a in allb:
            yield op.FUNCTION, f, (a,)
        for a in bvs:
            for b in bvs:
                yield op.FUNCTION, f, (a, b)
    for i, t in enumerate(allb):
        yield op.BV_TONATURAL, None, (t,)
        yield op.SYMBOL, ("bs_%d" % i, t), ()
    for pay in ((0, 0), (0, 257), (5, 65)):
        yield op.BV_CONSTANT, pay, ()


# ---- NAME-COLLISION family: user sorts whose NAMES are spelled like something else - the display string of a builtin
#      sort, the rendering of an instantiated parametric sort of the pool, the same up to spacing / case, names of symbols
#      and functions, the basename of a builtin sort constructor.  Every entry carries an independent structural
#      descriptor (never derived from the name); two sorts are the same sort iff their descriptors are equal.
COLLIDING_NAMES = ("Int", "Real", "String", "Bool", "BV{8}", "Array{Int, Int}", "Pair{Int, Int}", "Array{Int,Int}", "Pair{Int,Int}",
                   "int", "INT", " Int", "Int ", "BV8", "Function", "S", "cs_1_0", "cfn_1", "Pair{Int, Int}{}", "U:Int")


def collision_pool(env):
    """[(label, pysmt type, descriptor)]"""
    tm = env.type_manager
    pair = tm.get_type_instance(tm.Type("Pair", 2), INT, INT)
    pool = [("Bool", BOOL, ("Bool",)), ("Int", INT, ("Int",)), ("Real", REAL, ("Real",)), ("String", STRING, ("String",)),
            ("BV8", BVType(8), ("BV", 8)), ("Array(Int,Int)", ArrayType(INT, INT), ("Array", ("Int",), ("Int",))),
            ("Pair(Int,Int)", pair, ("User", "Pair", (("Int",), ("Int",))))]
    for n in COLLIDING_NAMES:
        pool.append(("U<%s>" % n, tm.Type(n, 0), ("User", n, ())))
    # a user parametric sort that takes the basename of the builtin Array constructor
    pool.append(("U<Array>/2(Int,Int)", tm.get_type_instance(tm.Type("Array", 2), INT, INT), ("User", "Array", (("Int",), ("Int",)))))
    return pool


def collision_rule(name, d1, d2):
    """Descriptor of the result sort, or None when the application is ill-sorted (verdict from the descriptors only)."""
    same = d1 == d2
    if name in ("Equals", "NotEquals"):
        return ("Bool",) if same and d1 != ("Bool",) else None
    if name in ("EqualsOrIff", "AllDifferent", "Function"):
        return ("Bool",) if same else None
    if name == "Ite":
        return d1 if same else None
    if name in ("Plus", "Minus", "Times"):
        return d1 if same and d1 in (("Int",), ("Real",)) else None
    if name in ("LE", "LT", "GE", "GT"):
        return ("Bool",) if same and d1 in (("Int",), ("Real",)) else None
    if name in ("And", "Or", "Implies", "Iff"):
        return ("Bool",) if same and d1 == ("Bool",) else None
    if name == "StrConcat":
        return ("String",) if same and d1 == ("String",) else None
    if name == "BVAdd":
        return d1 if same and d1 == ("BV", 8) else None
    if name == "BVULT":
        return ("Bool",) if same and d1 == ("BV", 8) else None
    if name == "Select":
        return d1[2] if d1[0] == "Array" and d1[1] == d2 else None
    raise ValueError(name)


def run(tier):
    chk = lib.Check("C03", tier)
    rnd = random.Random(chk.seed)
    warnings.simplefilter("ignore")
    gen_all.regen_all()
    ok = chk.prove()
    lib.clean_cases(chk.dir)
    from . import refeval

    # ------------------------------------------------------------------ raw correspondence
    env = Environment()
    m = env.formula_manager
    argsym = {}
    for i, t in enumerate(universe(env)):
        argsym[t] = [m.Symbol("a%d_%d" % (i, j), t) for j in range(5)]
    rows, meta, nodes = [], [], []
    nfail = nboundary = 0

    def symbols_of(t):
        if t not in argsym:
            argsym[t] = [m.Symbol("w%d_%d" % (len(argsym), j), t) for j in range(5)]
        return argsym[t]

    ncollide = 0

    def collision_raw():
        # symbols are kept per pool ENTRY (not looked up by type: a dictionary keyed by types would itself rely on type equality)
        pool = [e for e in collision_pool(env) if e[2][:2] != ("User", "Array")]
        syms = [[m.Symbol("n%d_%d" % (i, j), t) for j in range(3)] for i, (_, t, _) in enumerate(pool)]
        pb = m.Symbol("n_cond", BOOL)
        for i, (_, t1, _) in enumerate(pool):
            fn = m.Symbol("nfn_%d" % i, FunctionType(BOOL, [t1]))
            for j, (_, t2, _) in enumerate(pool):
                a, b = syms[i][0], syms[j][1]
                for nt in (op.EQUALS, op.PLUS, op.LE, op.ARRAY_SELECT):
                    yield nt, None, (t1, t2), (a, b)
                yield op.ITE, None, (BOOL, t1, t2), (pb, a, b)
                yield op.FUNCTION, fn, (t2,), (b,)
                yield op.ARRAY_STORE, None, (ArrayType(INT, INT), t1, t2), (symbols_of(ArrayType(INT, INT))[0], a, b)

    def all_raw():
        nonlocal nboundary, ncollide
        for x in raw_cases(env, rnd, tier):
            yield x + (None,)
        for x in boundary_raw_cases(env, rnd, tier):
            nboundary += 1
            yield x + (None,)
        for x in collision_raw():
            ncollide += 1
            yield x
    chk.note("proofs built; create_node grid")
    for nt, pay, tys, args in all_raw():
        if args is None:
            args = tuple(symbols_of(t)[j] for j, t in enumerate(tys))
        try:
            n = m.create_node(node_type=nt, args=args, payload=pay)
            res = env.stc.get_type(n)
        except Exception:   # noqa: any error = rejected
            res = None
            nfail += 1
        node = m.formulae.get(FNodeContent(nt, args, pay))
        if node is None:
            continue
        try:
            o = tocoq.opr(node)
        except Exception:
            continue
        rows.append("(%s, [%s], %s)" % (o, "; ".join(tocoq.ty(t) for t in tys), "None" if res is None else "(Some %s)" % tocoq.ty(res)))
        meta.append((op.op_to_str(nt), str(pay), [str(t) for t in tys], str(res)))
        nodes.append(node)
        chk.count(("raw", nt, str(pay), tuple(str(t) for t in tys)))
    chk.sample({"kind": "create_node", "case": meta[len(meta) // 2]})
    files, shard = [], 1000
    for k in range(0, len(rows), shard):
        text = ("From Coq Require Import List ZArith Bool String.\nFrom PySMT.core Require Import CaseUtil Syntax.\n"
                "From PySMT.models Require Import TypeChecker.\nImport ListNotations.\n"
                "Definition cases : list (op * list ty * option ty) := [\n%s\n].\n" % ";\n".join(rows[k:k + shard]) +
                "Definition ok (c : op * list ty * option ty) : bool :=\n  let '(o, tys, e) := c in\n"
                "  match tc_rule o tys, e with Some a, Some b => ty_eqb a b | None, None => true | _, _ => false end.\n"
                "Eval vm_compute in mismatches ok cases.\n")
        p = os.path.join(chk.dir, "cases_raw_%d.v" % (k // shard))
        open(p, "w").write(text)
        files.append((p, k, len(rows[k:k + shard])))
    from . import termcases
    chk.note("%d create_node cases (%d of the width-boundary family) written; running the model on them" % (len(rows), nboundary))
    # the model is evaluated by coqc processes while the constructor-level grids below run
    import threading
    box = {}
    worker = threading.Thread(target=lambda: box.update(r=termcases.run(files)))
    worker.start()

    def finish_raw():
        worker.join()
        bad, errs = box.get("r", ([], [{"error": "the case files were not run"}]))
        chk.note("model evaluated")
        # a disagreement is a concrete input: when the implementation ACCEPTED the application, the independent type derivation decides
        for i in bad[:40]:
            if meta[i][3] == "None":
                continue
            try:
                t = refeval.type_of(nodes[i])
                verdict = None if str(t) == meta[i][3] else "independent derivation gives %s" % t
            except refeval.IllTyped as ex:
                verdict = "independent derivation: ill-typed (%s)" % ex
            except Exception:   # noqa: outside the reference's fragment
                verdict = None
            if verdict:
                chk.violation({"kind": "input", "what": "create_node(%s, payload %s) on arguments of sorts %s is accepted with type %s; %s"
                               % (meta[i][0], meta[i][1], meta[i][2], meta[i][3], verdict),
                               "argument_sort_descriptors": [str(tocoq.tkey(a.get_type())) for a in nodes[i].args()],
                               "repro": "FormulaManager.create_node(node_type=%s, args=<symbols of sorts %s>, payload=%s)" % (meta[i][0], meta[i][2], meta[i][1])},
                              key="raw:%s:%s:%s" % (meta[i][0], meta[i][1], ",".join(meta[i][2])))
        chk.cov["correspondence"] = {"create_node_cases": len(rows), "width_boundary_cases": nboundary, "name_collision_cases": ncollide, "rejected_by_implementation": nfail,
                                     "disagreements": len(bad), "case_file_errors": len(errs),
                                     "examples": [meta[i] for i in bad[:6]]}
        for i in bad[:6]:
            chk.note("type checker model/implementation disagree on %s" % (meta[i],))
        for e in errs[:2]:
            chk.note("case file error: " + e["error"][-300:])
        return bad, errs

    # ------------------------------------------------------------------ constructor-level oracle
    env2 = Environment()
    m2 = env2.formula_manager
    uni2 = universe(env2)
    sym = {t: [m2.Symbol("c%d_%d" % (i, j), t) for j in range(3)] for i, t in enumerate(uni2)}
    const = {BOOL: m2.TRUE(), INT: m2.Int(2), REAL: m2.Real(2), STRING: m2.String("a"),
             BVType(1): m2.BV(1, 1), BVType(2): m2.BV(2, 2), BVType(8): m2.BV(2, 8)}
    ctors1 = ["Not", "ToReal", "BVNot", "BVNeg", "StrLength", "StrToInt", "IntToStr", "BVToNatural"]
    ctors2 = ["Implies", "Iff", "Minus", "Div", "Equals", "NotEquals", "GE", "GT", "LE", "LT", "Xor", "EqualsOrIff",
              "BVXor", "BVULT", "BVUGT", "BVULE", "BVUGE", "BVSub", "BVUDiv", "BVURem", "BVLShl", "BVLShr", "BVSLT", "BVSLE",
              "BVComp", "BVSDiv", "BVSRem", "BVAShr", "BVNand", "BVNor", "BVXnor", "BVSGT", "BVSGE", "BVSMod",
              "StrContains", "StrPrefixOf", "StrSuffixOf", "StrCharAt", "Select", "Pow"]
    ctors3 = ["Ite", "StrIndexOf", "StrReplace", "StrSubstr", "Store"]
    ctorsn = ["And", "Or", "Plus", "Times", "BVAnd", "BVOr", "BVAdd", "BVMul", "BVConcat", "StrConcat", "Min", "Max",
              "AtMostOne", "ExactlyOne", "AllDifferent"]
    intp = {"BVRol": (-3, -1, 0, 1, 2, 8, 9), "BVRor": (-3, -1, 0, 1, 2, 8, 9), "BVZExt": (-9, -1, 0, 1, 3), "BVSExt": (-9, -1, 0, 1, 3),
            "BVRepeat": (-1, 0, 1, 2)}
    ncalls = 0

    def safe_type(f):
        try:
            return str(f.get_type())
        except Exception as ex:   # noqa
            return "<get_type raised %s>" % type(ex).__name__

    def safe_ser(f):
        try:
            return f.serialize()
        except BaseException as ex:   # noqa: printing an ill-typed node may recurse without end
            return "<serialize raised %s>" % type(ex).__name__

    def judge(name, argdesc, thunk, expect=None):
        """expect: None, or the verdict of an independent statement of the sorting rule ("accept" / "reject")."""
        nonlocal ncalls
        ncalls += 1
        try:
            f = thunk()
        except Exception as ex0:
            if expect == "accept":
                chk.violation({"kind": "input", "what": "%s%s is well-sorted by the rule but was rejected (%s)" % (name, argdesc, type(ex0).__name__),
                               "repro": "FormulaManager.%s on arguments of sorts/values %s" % (name, argdesc)},
                              key="ctor-rejects:%s:%s" % (name, argdesc))
            # a rejected application must stay rejected when it is attempted again
            try:
                f2 = thunk()
            except Exception:
                return
            chk.violation({"kind": "history", "what": "%s%s raised on the first attempt but returned %s on the second"
                           % (name, argdesc, safe_ser(f2)), "repro": "call FormulaManager.%s twice on arguments of sorts %s" % (name, argdesc)},
                          key="ctor2:%s:%s" % (name, argdesc))
            return
        chk.count(("ctor", name, argdesc))
        if expect == "reject":
            chk.violation({"kind": "input", "what": "%s%s is ill-sorted by the rule (wrong sort or bit-width) but returned %s of type %s"
                           % (name, argdesc, safe_ser(f), safe_type(f)),
                           "repro": "FormulaManager.%s on arguments of sorts/values %s" % (name, argdesc)},
                          key="ctor-accepts:%s:%s" % (name, argdesc))
            return
        try:
            t = refeval.type_of(f)
        except refeval.IllTyped as ex:
            chk.violation({"kind": "input", "what": "%s%s returned the ill-typed formula %s (reported type %s): %s"
                           % (name, argdesc, safe_ser(f), safe_type(f), ex),
                           "repro": "FormulaManager.%s on arguments of sorts/values %s" % (name, argdesc)},
                          key="ctor:%s:%s" % (name, argdesc))
            return
        except refeval.Unsupported:
            return
        if str(t) != safe_type(f):
            chk.violation({"kind": "input", "what": "%s%s: reported type %s, derived type %s" % (name, argdesc, safe_type(f), t),
                           "formula": safe_ser(f)}, key="ctortype:%s:%s" % (name, argdesc))

    def variants(t):
        out = [sym[t][0]]
        if t in const:
            out.append(const[t])
        return out
    for name in ctors1:
        for t in uni2:
            for a in variants(t):
                judge(name, "(%s%s)" % (t, "" if a.is_symbol() else " const"), lambda: getattr(m2, name)(a))
    for name in ctors2:
        for t1 in uni2:
            for t2 in uni2:
                for a in variants(t1):
                    for b in variants(t2):
                        if b is a and b.is_symbol():
                            b = sym[t2][1]
                        judge(name, "(%s%s, %s%s)" % (t1, "" if a.is_symbol() else " const", t2, "" if b.is_symbol() else " const"),
                              lambda: getattr(m2, name)(a, b))
    for name in ctors3:
        for t1 in uni2:
            for t2 in uni2:
                for t3 in (uni2 if tier == "thorough" else [t1, t2, BOOL, INT, STRING]):
                    judge(name, "(%s, %s, %s)" % (t1, t2, t3), lambda: getattr(m2, name)(sym[t1][0], sym[t2][1], sym[t3][2]))
    for name in ctorsn:
        for t1 in uni2:
            judge(name, "()", lambda: getattr(m2, name)())
            judge(name, "(%s)" % t1, lambda: getattr(m2, name)(sym[t1][0]))
            for t2 in uni2:
                judge(name, "(%s, %s)" % (t1, t2), lambda: getattr(m2, name)(sym[t1][0], sym[t2][1]))
                judge(name, "(%s, %s, %s)" % (t1, t2, t1), lambda: getattr(m2, name)(sym[t1][0], sym[t2][1], sym[t1][2]))
    for name, ks in intp.items():
        for t in uni2:
            for k in ks:
                judge(name, "(%s, %d)" % (t, k), lambda: getattr(m2, name)(sym[t][0], k))
    for t in uni2:
        for s in (-1, 0, 1, 7, 8):
            for e in (-1, 0, 1, 7, 8, None):
                judge("BVExtract", "(%s, %s, %s)" % (t, s, e), lambda: m2.BVExtract(sym[t][0], s, e))
        for it in (INT, BVType(2)):
            for t2 in uni2:
                judge("Array", "(%s, default %s, {%s: %s})" % (it, t, "const", t2),
                      lambda: m2.Array(it, sym[t][0], {const[it]: sym[t2][1]}))
        judge("ForAll", "([%s], %s)" % (t, t), lambda: m2.ForAll([sym[t][0]], sym[t][1]))
        for fn in (m2.Symbol("cf1", FunctionType(INT, [INT])), m2.Symbol("cf2", FunctionType(BOOL, [INT, REAL])), sym[INT][0]):
            judge("Function", "(%s; %s)" % (fn.symbol_type(), t), lambda: m2.Function(fn, [sym[t][0]]))
            judge("Function", "(%s; %s, %s)" % (fn.symbol_type(), t, REAL), lambda: m2.Function(fn, [sym[t][0], sym[REAL][0]]))
    # ---- width-boundary grid at the constructor level: every ORDERED pair of boundary sorts; the verdict comes from
    #      the sorting rule stated directly on the two sorts (same-width bit-vectors / same sort / index sort)
    chk.note("constructor grid done (%d calls); width-boundary constructor grid" % ncalls)
    n0 = ncalls
    bvs2, arrs2 = boundary_universe(env2)
    bsorts = bvs2 + arrs2 + [BOOL, INT]
    for i, t in enumerate(bsorts + [a.elem_type for a in arrs2]):
        if t not in sym:
            sym[t] = [m2.Symbol("b%d_%d" % (i, j), t) for j in range(3)]
    for w in WIDTHS[1:]:
        const.setdefault(BVType(w), m2.BV(1, w))
    same_w = ["BVXor", "BVULT", "BVUGT", "BVULE", "BVUGE", "BVSub", "BVUDiv", "BVURem", "BVLShl", "BVLShr", "BVSLT", "BVSLE", "BVComp",
              "BVSDiv", "BVSRem", "BVAShr", "BVNand", "BVNor", "BVXnor", "BVSGT", "BVSGE", "BVSMod", "BVAnd", "BVOr", "BVAdd", "BVMul"]
    rel_like = ["BVULT", "BVUGT", "BVULE", "BVUGE", "BVSLT", "BVSLE", "BVSGT", "BVSGE", "Equals", "NotEquals", "EqualsOrIff", "AllDifferent"]

    def verdict(name, t1, t2):
        bv2 = t1.is_bv_type() and t2.is_bv_type()
        if name in same_w or name in ("MinBV", "MaxBV"):
            if not (bv2 and t1.width == t2.width):
                return "reject"
            return "accept" if t1.width >= 1 else None
        if name in ("Equals", "NotEquals"):
            return "reject" if (t1 != t2 or t1.is_bool_type()) else "accept"
        if name in ("EqualsOrIff", "AllDifferent"):
            return "accept" if t1 == t2 else "reject"
        if name == "BVConcat":
            return ("accept" if min(t1.width, t2.width) >= 1 else None) if bv2 else "reject"
        if name == "Select":
            return "accept" if (t1.is_array_type() and t1.index_type == t2) else "reject"
        if name in ("LT", "LE", "Plus"):
            return "accept" if (t1 == t2 and t1.is_int_type()) else "reject"
        if name == "Implies":
            return "accept" if (t1 == t2 and t1.is_bool_type()) else "reject"
        return None

    def sdesc(t, a):
        return "%s%s" % (t, "" if a.is_symbol() else " const")
    for t1 in bsorts:
        for t2 in bsorts:
            a, b = sym[t1][0], sym[t2][1]
            for name in same_w + ["Equals", "NotEquals", "EqualsOrIff", "AllDifferent", "BVConcat", "Select", "LT", "LE", "Plus", "Implies"]:
                judge(name, "(%s, %s)" % (t1, t2), lambda: getattr(m2, name)(a, b), verdict(name, t1, t2))
            for name in ("MinBV", "MaxBV"):
                for sign in (False, True):
                    judge(name, "(%s; %s, %s)" % (sign, t1, t2), lambda: getattr(m2, name)(sign, a, b), verdict(name, t1, t2))
            judge("Ite", "(Bool, %s, %s)" % (t1, t2), lambda: m2.Ite(sym[BOOL][2], a, b), "accept" if t1 == t2 else "reject")
            if t1.is_bv_type() and t2.is_bv_type():
                # constants on either side (widths >= 1) for the relations, whose rule reads the width of the first operand
                for x, y in ((a, const.get(t2)), (const.get(t1), b), (const.get(t1), const.get(t2))):
                    if x is None or y is None:
                        continue
                    for name in rel_like:
                        judge(name, "(%s, %s)" % (sdesc(t1, x), sdesc(t2, y)), lambda: getattr(m2, name)(x, y), verdict(name, t1, t2))
                # three operands: every operand after the first must match the first
                for t3 in (t1, t2, BVType(0)):
                    for name in ("AllDifferent", "BVAnd", "BVAdd"):
                        judge(name, "(%s, %s, %s)" % (t1, t2, t3), lambda: getattr(m2, name)(a, b, sym[t3][2]),
                              "reject" if not (t1 == t2 == t3) else ("accept" if t1.width >= 1 else None))
    for t in bsorts:
        a = sym[t][0]
        for name in ("BVNot", "BVNeg", "BVToNatural"):
            judge(name, "(%s)" % t, lambda: getattr(m2, name)(a), ("accept" if t.width >= 1 else None) if t.is_bv_type() else "reject")
        w = t.width if t.is_bv_type() else 8
        for name in ("BVRol", "BVRor", "BVZExt", "BVSExt", "BVRepeat"):
            for k in sorted({0, 1, w, w + 1}):
                judge(name, "(%s, %d)" % (t, k), lambda: getattr(m2, name)(a, k), None if t.is_bv_type() else "reject")
        for (st, e) in ((0, 0), (0, w - 1), (w - 1, w - 1), (0, w), (w, w), (1, 0), (0, None), (w, None)):
            ok_rng = t.is_bv_type() and 0 <= st <= (w - 1 if e is None else e) < w
            judge("BVExtract", "(%s, %s, %s)" % (t, st, e), lambda: m2.BVExtract(a, st, e), "accept" if ok_rng else "reject")
        for arr in arrs2:
            for t3 in (arr.elem_type, BVType(0), BVType(8)):
                judge("Store", "(%s, %s, %s)" % (arr, t, t3), lambda: m2.Store(sym[arr][0], a, sym[t3][2]),
                      "accept" if (arr.index_type == t and arr.elem_type == t3) else "reject")
    chk.cov["width_boundary_constructor_calls"] = ncalls - n0
    chk.note("width-boundary constructor grid done (%d calls)" % (ncalls - n0))
    # ---- NAME-COLLISION grid at the constructor level (fresh environment; symbols kept per pool entry)
    n1 = ncalls
    env4 = Environment()
    m4 = env4.formula_manager
    pool = collision_pool(env4)
    csym = [[m4.Symbol("cs_%d_%d" % (i, j), t) for j in range(3)] for i, (_, t, _) in enumerate(pool)]
    cfn = [m4.Symbol("cfn_%d" % i, FunctionType(BOOL, [t])) for i, (_, t, _) in enumerate(pool)]
    cond = m4.Symbol("c_cond", BOOL)

    def cjudge(name, l1, l2, d1, d2, thunk):
        want = collision_rule(name, d1, d2)
        before = len(chk.violations) + len(chk.known_hits)
        desc = "(%s, %s)" % (l1, l2)
        judge(name, desc, thunk, "accept" if want is not None else "reject")
        if want is not None and len(chk.violations) + len(chk.known_hits) == before:
            try:
                got = tocoq.tkey(thunk().get_type())
            except Exception:   # noqa
                got = None
            if got != want:
                chk.violation({"kind": "input", "what": "%s%s: reported type %s, the rule gives %s" % (name, desc, got, want),
                               "repro": "FormulaManager.%s on symbols of the two sorts (user sorts are declared with TypeManager.Type(<name>))" % name},
                              key="ctortype:%s:%s" % (name, desc))
    for i, (l1, t1, d1) in enumerate(pool):
        for j, (l2, t2, d2) in enumerate(pool):
            a, b = csym[i][0], csym[j][1]
            for name in ("Equals", "NotEquals", "EqualsOrIff", "AllDifferent", "Plus", "Minus", "Times", "LE", "LT", "GE", "GT",
                         "And", "Or", "Implies", "Iff", "StrConcat", "BVAdd", "BVULT", "Select"):
                cjudge(name, l1, l2, d1, d2, lambda: getattr(m4, name)(a, b))
            cjudge("Ite", l1, l2, d1, d2, lambda: m4.Ite(cond, a, b))
            cjudge("Function", l1, l2, d1, d2, lambda: m4.Function(cfn[i], [b]))
            # under a binder, and as the value stored into an array of the other sort
            judge("ForAll-Equals", "(%s, %s)" % (l1, l2), lambda: m4.ForAll([a], m4.EqualsOrIff(a, b)), "accept" if d1 == d2 else "reject")
            judge("Store", "(Array(Int,%s), Int, %s)" % (l1, l2),
                  lambda: m4.Store(m4.Symbol("carr_%d" % i, ArrayType(INT, t1)), m4.Int(0), b), "accept" if d1 == d2 else "reject")
    # one name, two kinds of things: a symbol may not change its sort because the two sorts are spelled alike
    for i, (l1, t1, d1) in enumerate(pool):
        for j, (l2, t2, d2) in enumerate(pool):
            if d1 != d2:
                judge("Symbol-redeclared", "(%s then %s)" % (l1, l2),
                      lambda: (m4.Symbol("cre_%d_%d" % (i, j), t1), m4.Symbol("cre_%d_%d" % (i, j), t2))[1], "reject")
    chk.cov["constructor_calls"] = ncalls
    chk.cov["name_collision_constructor_calls"] = ncalls - n1
    chk.note("name-collision constructor grid done (%d calls over %d sorts)" % (ncalls - n1, len(pool)))
    chk.sample({"kind": "constructor", "case": "Pow(BV8 symbol, BV8 constant) / BVRol(x, -1) / Ite(Bool, Int, Real) ..."})

    from io import StringIO
    from pysmt.smtlib.parser import SmtLibParser
    # ---- ABSORBING-OPERAND family: normalising constructors whose other operands trigger the normalisation
    from . import c03_absorb
    n2 = ncalls
    env5 = Environment()

    def absorb_check(prefix, key, thunk, want, probe=None, extra=None):
        """want None: must raise; otherwise the descriptor of the sort of the returned term."""
        nonlocal ncalls
        ncalls += 1
        try:
            f = thunk()
        except BaseException as ex0:   # noqa: any error = rejected (ill-typed array values make the error message recurse)
            if isinstance(ex0, (KeyboardInterrupt, SystemExit)):
                raise
            if want is not None:
                chk.violation(dict({"kind": "input", "what": "%s is well-sorted by the rule (result sort %s) but was rejected (%s)"
                                    % (key, want, type(ex0).__name__)}, **(extra or {})), key="%s-rejects:%s" % (prefix, key))
            return
        chk.count((prefix, key))
        g = probe(f) if probe else f
        try:
            got = tocoq.tkey(g.get_type())
        except Exception:   # noqa
            got = None
        if want is None:
            chk.violation(dict({"kind": "input", "what": "%s is ill-sorted by the rule of the operator but returned %s of type %s: the operand of the "
                                "wrong sort was absorbed by the normalisation before any node was type-checked" % (key, safe_ser(f), safe_type(g)),
                                "repro": "FormulaManager.<constructor> as spelled in the key", "legend": c03_absorb.LEGEND}, **(extra or {})),
                          key="%s:%s" % (prefix, key))
        elif got != want:
            chk.violation(dict({"kind": "input", "what": "%s: returned %s of sort %s, the rule gives %s" % (key, safe_ser(f), got, want)}, **(extra or {})),
                          key="%s-type:%s" % (prefix, key))
        else:
            try:
                if str(refeval.type_of(f)) != safe_type(f):
                    chk.violation(dict({"kind": "input", "what": "%s: reported type %s, derived %s" % (key, safe_type(f), refeval.type_of(f))}, **(extra or {})),
                                  key="%s-type2:%s" % (prefix, key))
            except refeval.IllTyped as ex:
                chk.violation(dict({"kind": "input", "what": "%s returned the ill-typed %s: %s" % (key, safe_ser(f), ex)}, **(extra or {})),
                              key="%s-illtyped:%s" % (prefix, key))
            except Exception:   # noqa: outside the reference's fragment
                pass
    for key, thunk, want in c03_absorb.cases(env5):
        absorb_check("absorb", key, thunk, want)
    nabs = ncalls - n2
    for key, text, want in c03_absorb.scripts(env5):
        absorb_check("absorb-parser", key, (lambda text=text: SmtLibParser(Environment()).get_script(StringIO(text)).get_last_formula()), want,
                     probe=(lambda f: f.arg(0) if f.args() else f), extra={"script": text})
    chk.cov["absorbing_operand_calls"] = {"constructor": nabs, "scripts": ncalls - n2 - nabs}
    # ---- ENVIRONMENT-FLAGS family: the verdict on an application does not depend on the Environment's configuration flags
    #      (except where a flag is ABOUT the call: infix operators need enable_infix_notation, the empty name allow_empty_var_names)
    from . import envflags
    n3 = ncalls
    for fl in envflags.combos():
        fenv = Environment()
        envflags.set_flags(fenv, fl)
        from pysmt.environment import push_env, pop_env
        push_env(fenv)              # infix operators consult the CURRENT environment's flag
        fm = fenv.formula_manager
        fi, fj, fr = fm.Symbol("fl_i", INT), fm.Symbol("fl_j", INT), fm.Symbol("fl_r", REAL)
        lab = envflags.label(fl)
        IN, RE, BO = ("Int",), ("Real",), ("Bool",)
        for key, thunk, want in (
                ("Plus(Int, Int)", lambda: fm.Plus(fi, fj), IN), ("Plus(Int, Real)", lambda: fm.Plus(fi, fr), None),
                ("Div(Int, Int0)", lambda: fm.Div(fi, fm.Int(0)), IN), ("Div(Int, Real0)", lambda: fm.Div(fi, fm.Real(0)), None),
                ("Div(Real, Int0)", lambda: fm.Div(fr, fm.Int(0)), None), ("Div(Int, Int)", lambda: fm.Div(fi, fj), IN),
                ("Div(Real, Real 2)", lambda: fm.Div(fr, fm.Real(2)), RE), ("Div(Int, Real 2)", lambda: fm.Div(fi, fm.Real(2)), None),
                ("LE(Div(Int, Int0), Real)", lambda: fm.LE(fm.Div(fi, fm.Int(0)), fr), None), ("Times(Int, Div(Int, Int0))", lambda: fm.Times(fi, fm.Div(fj, fm.Int(0))), IN),
                ("infix Int + Real", lambda: fi + fr, None), ("infix Int < Real", lambda: fi < fr, None), ("infix Bool & Int", lambda: fm.TRUE() & fi, None),
                ("Symbol('', Int) = Real", lambda: fm.Equals(fm.Symbol("", INT), fr), None)):
            absorb_check("flags", "%s:%s" % (lab, key), thunk, want)
        # calls a flag is about: accepted exactly when the flag is on
        for key, thunk, want, on in (("infix Int + Int", lambda: fi + fj, IN, fl["enable_infix_notation"]),
                                     ("infix Int <= Int", lambda: fi <= fj, BO, fl["enable_infix_notation"]),
                                     ("Symbol('', Int)", lambda: fm.Symbol("", INT), IN, fl["allow_empty_var_names"])):
            absorb_check("flags", "%s:%s" % (lab, key), thunk, want if on else None)
        # Div(Real, Real0): a DIV node when enable_div_by_0 is on; with the flag off the constructor divides by zero itself and raises
        if fl["enable_div_by_0"]:
            absorb_check("flags", "%s:Div(Real, Real0)" % lab, lambda: fm.Div(fr, fm.Real(0)), RE)
        pop_env()
    chk.cov["environment_flag_constructor_calls"] = ncalls - n3
    chk.note("absorbing-operand family done (%d constructor calls, %d scripts)" % (nabs, ncalls - n2 - nabs))
    chk.cov["constructor_calls"] = ncalls
    # ------------------------------------------------------------------ the parser's own sort checks
    chk.note("SMT-LIB scripts: declared sort x derived sort through every binding construct of the parser")
    from io import StringIO
    from pysmt.smtlib.parser import SmtLibParser
    from . import c03_scripts
    nscripts = naccepted = 0
    for key, cmds, path, dsort in c03_scripts.cases(tier):
        nscripts += 1
        text = c03_scripts.render_script(cmds)
        want, why = c03_scripts.reference(cmds)
        penv = Environment()
        try:
            f = SmtLibParser(penv).get_script(StringIO(text)).get_last_formula()
            err = None
        except Exception as ex:   # noqa: any error = the script is rejected
            f, err = None, "%s: %s" % (type(ex).__name__, str(ex)[:120])
        chk.count(("script", key))
        fam = key.split(":")[0]
        if f is None:
            if want == "ok":
                chk.violation({"kind": "input", "what": "a well-sorted script is rejected by the parser (%s)" % err, "script": text, "family": key},
                              key="parser-rejects:%s" % key)
            continue
        naccepted += 1
        if want == "ill":
            chk.violation({"kind": "input", "what": "an ill-sorted script is accepted by SmtLibParser: %s; returned %s" % (why, f.serialize()),
                           "script": text, "family": key, "returned_type_of_probe": safe_type(f),
                           "repro": "SmtLibParser().get_script(StringIO(script)).get_last_formula()"},
                          key="parser-accepts:%s" % key)
            continue
        # accepted and well-sorted: the returned terms have exactly the declared sorts
        probe = f
        for i in path:
            if i < len(probe.args()):
                probe = probe.arg(i)
            else:
                break               # constant folding by the constructors (ground terms): the node reached has the same sort
        try:
            pkey = tocoq.tkey(probe.get_type())
        except Exception:   # noqa
            pkey = None
        if pkey != c03_scripts.KEY[dsort]:
            chk.violation({"kind": "input", "what": "the term %s read from the script has type %s; by the declarations it has sort %s"
                           % (probe.serialize(), pkey, c03_scripts.KEY[dsort]), "script": text, "family": key, "returned": f.serialize()},
                          key="parser-type:%s" % key)
            continue
        try:
            t = refeval.type_of(f)
        except refeval.IllTyped as ex:
            chk.violation({"kind": "input", "what": "the formula read from the script is ill-typed: %s" % ex, "script": text, "returned": f.serialize()},
                          key="parser-illtyped:%s" % key)
            continue
        except refeval.Unsupported:
            continue
        if str(t) != safe_type(f) or str(t) != "Bool":
            chk.violation({"kind": "input", "what": "asserted formula: reported type %s, derived type %s" % (safe_type(f), t), "script": text},
                          key="parser-asserttype:%s" % key)
    chk.cov["parser_scripts"] = {"scripts": nscripts, "accepted": naccepted}
    chk.sample({"kind": "script", "case": "(define-fun f ((a Int)) Real (+ a 1)) (declare-fun y () Int) (assert (= (f y) (f y))) -> must be rejected"})

    # ------------------------------------------------------------------ formulas that exist are well typed
    env3 = Environment()
    g = FormulaGen(env3, rnd, Config())
    nform = 300 if tier == "quick" else 3000
    for i in range(nform):
        f = g.gen(rnd.choice(g.types), rnd.randint(1, 5))
        outs = [("generated", f)]
        try:
            outs.append(("simplify", env3.simplifier.simplify(f)))
        except Exception:
            pass
        for what, h in outs:
            chk.count(("exists", what, tocoq.skey(h)), nontrivial=len(h.args()) > 0)
            try:
                t = refeval.type_of(h)
            except refeval.IllTyped as ex:
                chk.violation({"kind": "input", "what": "%s formula is ill-typed: %s" % (what, ex), "formula": h.serialize(), "source": f.serialize()},
                              key="exists:%s:%s" % (what, str(ex)[:80]))
                continue
            except refeval.Unsupported:
                continue
            if t != env3.stc.get_type(h):
                chk.violation({"kind": "input", "what": "%s formula: reported type %s, derived %s" % (what, env3.stc.get_type(h), t), "formula": h.serialize()},
                              key="existstype:%s:%s:%s" % (what, env3.stc.get_type(h), t))
            elif what == "simplify" and t != refeval.type_of(f):
                chk.violation({"kind": "input", "what": "simplify changed the type from %s to %s" % (refeval.type_of(f), t), "formula": f.serialize(), "result": h.serialize()},
                              key="simptype:%s:%s" % (refeval.type_of(f), t))

    bad, errs = finish_raw()
    if (not ok or bad or errs) and not chk.violations:
        what = []
        if not ok:
            what.append("proof obligations no longer check: " + lib.proof_failure_summary(chk))
        if bad or errs:
            what.append("correspondence models/TypeChecker.v <-> pysmt/type_checker.py differs, e.g. %s" % [meta[i] for i in bad[:3]])
        chk.violation({"kind": "obligation", "theorem_or_correspondence": what}, found_input=False)
    return chk.finish(TRUSTED, ASSUME,
                      "create_node level: every operator x payload grid x argument-sort tuples over an 11-sort universe (arity 0-2 exhaustive, arity 3 "
                      "sampled in quick / exhaustive in thorough, arity 4-5 sampled for n-ary operators); constructor level: every public constructor "
                      "x sort combinations x symbol/constant variants; ABSORBING-OPERAND family (normalising constructors with the operands that trigger the "
                      "normalisation: singleton lists, empty binders, constant folding, default-valued array entries, stores / selects on constant arrays, "
                      "identical operands, zero steps; 1.8 k constructor calls + 250 scripts, verdicts from sort descriptors); WIDTH-BOUNDARY family (BV widths 0,1,2,8,9,16,33,64,65,257 and array / function "
                      "sorts over them, every ordered pair) at both levels with the verdict stated directly on the sorts; NAME-COLLISION family (28 sorts: builtin sorts, Pair{Int, Int} and user sorts NAMED like their renderings, "
                      "up to spacing / case, like symbols and functions, like the Array constructor; every ordered pair x 23 constructors and 7 node types; "
                      "verdicts from structural descriptors); PARSER family (declared sort x "
                      "derived sort over 12 sorts (8 builtin + Pair Int Int and user sorts named |Pair{Int, Int}|, |Array{Int, Int}|, |BV{8}|) through define-fun / declared and defined applications / let / binders, ground and non-ground) against "
                      "a strict sort checker; distinct = distinct (operator, payload, sorts) / script")


def replay(path):
    import json
    print(json.dumps(json.load(open(path)), indent=1))
    return run("quick")
