"""C15 - a failing call leaves no trace: later calls behave as if it never happened."""
import io
import json
import os
import random
import warnings

from . import lib, walktap, walkgen
from .walktap import Tap, export_dag

TRUSTED = [
    "Coq 8.16.1 kernel; vm_compute evaluates the walker model on the exported histories; no native_compute",
    "hand model models/WalkerFail.v over core/DagWalk.v (stack and memo are instance attributes; iter_walk empties the stack when the loop raises, walk clears a one-shot memo in its finally), tied by correspondence on every failing history of this run: answer kind of every call, callback order, loop iterations, the stack and the memo keys left behind",
    "harness/walktap.py (observation from outside) and the fault injector of this file (a wrapper in walker.functions that raises at one chosen key)",
    "twin run: the same formulas built in a second, untouched Environment; results compared up to the order of commutative arguments",
    "the SMT-LIB parser, the formula manager's node table and solver objects are not modelled in Coq: their part of C15 is decided by the twin comparison only",
    "solver objects: harness/c17.py's fault family (run_fault_family) drives the real SmtLibSolver against the strict reference solver process harness/smtref.py; the twin is the history without the failing call, judged by that check's oracle (brute-force verdicts, no exception, legal stream)",
]
ASSUMPTIONS = [
    "the solver-object clause is exercised on the text-interface solver only (SmtLibSolver; no native solver is available): one failing call per history (assertion refused by the solver after its declarations, construction rejected by pysmt, value query without a sat answer, pop below level 0) followed by 1-4 legal calls; values of symbols first declared by the failing call and a solver process that dies are not compared",
    "answers are compared as: same value, or both raise (ans_equiv) for persistent walkers, equal outright for the one-shot walker; which exception is raised first is compared in the twin run only",
    "for SizeOracle the probes that the model sees use the measure of the failing call (the stack stores formulas, the model stores keys)",
    "walker objects created per call (NNFizer, CNFizer, PolarityCNFizer - whose own iter_walk has no try/except -, PrenexNormalizer, AIGer, SmtDagPrinter) are not long-lived and not probed",
]

# Former findings, now regression cases (corpus): (known_findings key, history); run first.
CORPUS = ["dagwalker:exception-leaves-stack:Simplifier  simplify(And(r, Or(q, <custom node>))) raises; simplify(And(q, q)) == q",
          "dagwalker:exception-leaves-stack:<every oracle>  same history on env.fvo/qfo/typeso/theoryo/ao/sizeo",
          "dagwalker:exception-keeps-oneshot-memo:MGSubstituter  substitute(And(Not p, a<b), {p:a, a:c}) raises; substitute(a<b, {a:b}) == b<b",
          "dagwalker:exception-keeps-oneshot-memo:MGSubstituter  substitute(And(x, Not y), {y:i}) raises; substitute(And(x,z), {x:z}) == And(z,z); substitute(x, {x:y}) == y"]


class InjectedFault(Exception):
    pass


class Injector(object):
    """Makes the callback of `walker` raise at one key (set .target; None = off)."""

    def __init__(self, walker, kind):
        self.target = None
        self.kind = kind
        tab = walker.measure_to_fun if kind == "size" else walker.functions
        for k, fn in list(tab.items()):
            tab[k] = self._wrap(fn)

    def _wrap(self, fn):
        def inj(formula, *a, **kw):
            if self.target is not None:
                key = (kw.get("measure"), formula) if self.kind == "size" else formula
                if key == self.target:
                    raise InjectedFault()
            return fn(formula, *a, **kw)
        return inj


# name, getter, kind, early, oneshot, call(env, w, f, extra)
def _specs():
    def subst(env, w, f, extra):
        return w.substitute(f, extra(env) if extra else {})
    return [
        ("Simplifier", lambda e: e.simplifier, "plain", True, False, lambda e, w, f, x: w.simplify(f)),
        ("MGSubstituter", lambda e: e.substituter, "subst", True, True, subst),
        ("FreeVarsOracle", lambda e: e.fvo, "plain", True, False, lambda e, w, f, x: w.get_free_variables(f)),
        ("QuantifierOracle", lambda e: e.qfo, "plain", True, False, lambda e, w, f, x: w.is_qf(f)),
        ("TypesOracle", lambda e: e.typeso, "plain", True, False, lambda e, w, f, x: w.get_types(f)),
        ("TheoryOracle", lambda e: e.theoryo, "plain", True, False, lambda e, w, f, x: str(w.get_theory(f))),
        ("AtomsOracle", lambda e: e.ao, "plain", True, False, lambda e, w, f, x: w.walk(f)),
        ("SizeOracle", lambda e: e.sizeo, "size", False, False, lambda e, w, f, x: w.get_size(f, 0)),
    ]


LONG_LIVED = ("stc", "substituter", "simplifier", "qfo", "theoryo", "fvo", "sizeo", "ao", "typeso")
HOOKS = ("_push_with_children_to_stack", "_compute_node_result", "_get_children", "_get_key")


def stacks_empty(chk, env, label, replay=None, extra=()):
    """The theorem (C15_walk_err / C15_failure_transparent): after a walk that raised at ANY node
    the stack is empty, and a one-shot table is empty.  Asserted on every long-lived walker of the
    environment (and on `extra` = [(name, walker)]) right after each failing call."""
    bad = 0
    for nm, w in [(n, getattr(env, n)) for n in LONG_LIVED] + list(extra):
        if len(w.stack) != 0:
            bad += 1
            chk.violation(dict(replay or {}, kind="history", what="env.%s.stack holds %d entries after a call that raised (%s); the model theorem says the stack "
                               "is empty after a walk that raised at any node" % (nm, len(w.stack), label)), key="stack-not-empty:%s" % nm)
        if w.invalidate_memoization and len(w.memoization) != 0:
            bad += 1
            chk.violation(dict(replay or {}, kind="history", what="the one-shot table of env.%s holds %d entries after a call that raised (%s)"
                               % (nm, len(w.memoization), label)), key="oneshot-memo-not-empty:%s" % nm)
    return bad == 0


def outcome(thunk):
    try:
        return ("ok", thunk())
    except InjectedFault:
        return ("raise", "InjectedFault")
    except Exception as ex:           # noqa: any exception is an observable outcome
        return ("raise", type(ex).__name__)


def canon_outcome(o):
    return (o[0], walkgen.canon_key(o[1]) if o[0] == "ok" else o[1])


def key_of(kind, f):
    return (0, f) if kind == "size" else f


_CURRENT_CHK = [None]


class History(object):
    """One walker object of the environment under test, observed call by call, next to the
    same calls (minus the failing one) on the twin."""

    def __init__(self, spec, env, twin):
        self.name, get, self.kind, self.early, self.oneshot, self.call = spec
        self.env, self.twin = env, twin
        self.w, self.tw = get(env), get(twin)
        self.inj = Injector(self.w, self.kind)
        self.tap = Tap(self.w, self.kind, limit=200000)
        self.ids, self.table = {}, []
        self.walks = []
        self.diffs = []

    def register(self, formulas):
        export_dag(self.w, self.kind, [key_of(self.kind, f) for f in formulas], self.ids, self.table)

    def do(self, f, tf, extra=None, bad=None, twin_too=True, label=""):
        """Calls the walker on f (twin: tf).  Returns (outcome, twin outcome or None)."""
        self.tap.reset()
        self.inj.target = bad
        o = outcome(lambda: self.call(self.env, self.w, f, extra))
        self.inj.target = None
        code = (0, 0)
        if o[0] == "raise" and _CURRENT_CHK[0] is not None and not getattr(self, "_stack_reported", False):
            if not stacks_empty(_CURRENT_CHK[0], self.env, "%s: %s" % (self.name, label or "failing call")):
                self._stack_reported = True
        if o[0] == "raise":
            code = (2, 0) if o[1] == "KeyError" else (1, self.ids.get(self.tap.log[-1], 0) if self.tap.log else 0)
        ids = self.ids
        memo = [ids[k] for k in self.w.memoization if k in ids]
        badl = [ids[bad]] if bad is not None and bad in ids else ([code[1]] if code[0] == 1 else [])
        self.walks.append(walktap.coq_walk(ids[key_of(self.kind, f)], badl, code, [ids.get(k, 0) for k in self.tap.log], self.tap.pops,
                                           walktap.stack_ids(self.w, self.kind, ids), memo))
        t = None
        if twin_too:
            t = outcome(lambda: self.call(self.twin, self.tw, tf, extra))
            if canon_outcome(o) != canon_outcome(t):
                self.diffs.append({"call": label, "after_failure": list(canon_outcome(o)), "fresh_twin": list(canon_outcome(t))})
        return o, t

    def again(self, chk, first, f, tf, extra=None, bad=None, label="", replay=None):
        """The failing call once more on the same walker: it must fail the same way, and the way
        a single attempt on the (so far untouched) twin fails.  Call it after the probes."""
        o, _ = self.do(f, tf, extra=extra, bad=bad, twin_too=False, label=label + " (second attempt)")
        self.inj.target = None
        single = first if bad is not None else outcome(lambda: self.call(self.twin, self.tw, tf, extra))
        if canon_outcome(o) != canon_outcome(first) or canon_outcome(o) != canon_outcome(single):
            chk.violation(dict(replay or {}, kind="history", what="%s: a call that failed does not fail the same way when it is attempted again on the same "
                               "environment (%s)" % (self.name, label), first_attempt=list(canon_outcome(first)), second_attempt=list(canon_outcome(o)),
                               fresh_environment_single_attempt=list(canon_outcome(single))), key="second-attempt:%s:%s" % (self.name, label.split(" ")[0]))

    def coq(self):
        return walktap.coq_case(self.table, self.early, self.oneshot, self.walks)


def subst_maps(rnd, rows):
    """A few substitution maps as functions of the environment (so the twin gets its own nodes)."""
    syms = [i for i, r in enumerate(rows) if r[0] == "sym"]

    def mk(pairs):
        def f(env):
            nodes = walkgen.build(env, rows)
            return {nodes[a]: nodes[b] for a, b in pairs}
        return f
    out = [None]
    for _ in range(2):
        a = rnd.choice(syms)
        same = [i for i in syms if rows[i][2] == rows[a][2] and i != a]
        if same:
            out.append(mk([(a, rnd.choice(same))]))
    return out


def run_injected(chk, rnd, spec, rows, stats):
    """Fault injection at every node of the traversal of one formula by one walker."""
    from pysmt.environment import Environment
    name, kind = spec[0], spec[2]
    env0 = Environment()
    nodes0 = walkgen.build(env0, rows)
    g0 = walkgen.last_of_sort(env0, nodes0)
    gi = nodes0.index(g0)
    h0 = History(spec, env0, env0)
    h0.register([g0])
    keys = sorted(h0.ids.items(), key=lambda kv: kv[1])
    rows_out, meta = [], []
    for key0, kid in keys:
        f0 = key0[1] if kind == "size" else key0
        if f0 not in nodes0:
            continue
        idx = nodes0.index(f0)
        env, twin = Environment(), Environment()
        nodes, tnodes = walkgen.build(env, rows), walkgen.build(twin, rows)
        g, tg = nodes[gi], tnodes[gi]
        h = History(spec, env, twin)
        probes = [nodes[idx], g]
        args = [a for a in g.args()] or [g]
        probes += [args[0], args[-1]]
        leaf = nodes[0]
        probes.append(leaf)
        other = walkgen.last_of_sort(env, nodes[:max(4, gi)])      # another root sharing sub-DAGs
        probes.append(other)
        h.register([g] + probes)
        maps = subst_maps(rnd, rows) if kind == "subst" else [None]
        bad = key_of(kind, nodes[idx])
        o, _ = h.do(g, tg, extra=maps[-1], bad=bad, twin_too=False, label="failing call")
        stats["failing_calls"] += 1
        if o != ("raise", "InjectedFault"):
            stats["fault_not_reached"] += 1
            continue
        at_root = (nodes[idx] is g)
        # the fault is transient: the second attempt comes while it is still there, before the fault-free probes
        h.again(chk, o, g, tg, extra=maps[-1], bad=bad, label="injected fault",
                replay={"walker": name, "recipe": rows, "repro": "harness.c15.replay_injected(%r, %r, %d, %d)" % (name, rows, gi, idx)})
        for j, p in enumerate(probes):
            tp = tnodes[nodes.index(p)]
            for mp in maps:
                h.do(p, tp, extra=mp, label="probe %d (%s)" % (j, "root" if p is g else "sub-term"))
        stats["probe_calls"] += len(h.walks) - 1
        chk.count((name, tuple(map(str, rows[-3:])), kid))
        replay = {"walker": name, "recipe": rows, "root_row": gi, "fault_at_row": idx,
                  "repro": "harness.c15.replay_injected(%r, %r, %d, %d)" % (name, rows, gi, idx)}
        rows_out.append(h.coq())
        meta.append(replay)
        if h.diffs:
            stats["histories_with_trace"] += 1
            rep = dict(replay, kind="history", what="after a call of %s that raised at %s, later calls differ from the untouched twin environment"
                       % (name, "the root of its traversal" if at_root else "an inner node"),
                       differences=h.diffs[:4], history=["%s(%s) with the callback raising at row %d" % (name, "row %d" % gi, idx), "probe calls"])
            # theorems C15_failure_transparent / _oneshot: no trace wherever the callback raised
            if spec[4]:
                chk.violation(rep, key="dagwalker:exception-keeps-oneshot-memo:%s" % name)
            else:
                chk.violation(rep, key="dagwalker:exception-leaves-stack:%s" % name)
    return rows_out, meta


# -------- natural faults ---------------------------------------------------------------------

_CUSTOM = []


def custom_node_type():
    import pysmt.operators as op
    if not _CUSTOM:
        _CUSTOM.append(op.new_node_type(node_str="C15_UNSUPPORTED"))
    return _CUSTOM[0]


def run_unsupported_operator(chk, rnd, spec, rows, stats):
    """A node of a custom type (pysmt.operators.new_node_type) that only the type checker knows:
    every other walker raises UnsupportedOperatorError at it."""
    from pysmt.environment import Environment
    from pysmt.typing import BOOL
    NT = custom_node_type()
    name, kind = spec[0], spec[2]
    if kind == "subst":
        return [], []
    envs = []
    for _ in range(2):
        env = Environment()
        env.add_dynamic_walker_function(NT, type(env.stc), lambda self, formula, args, **kw: BOOL)
        nodes = walkgen.build(env, rows)
        g = walkgen.last_of_sort(env, nodes)
        m = env.formula_manager
        cn = m.create_node(node_type=NT, args=(nodes[0],))
        top = m.And(g, m.Or(nodes[1], cn))
        envs.append((env, nodes, g, cn, top))
    (env, nodes, g, cn, top), (twin, tnodes, tg, tcn, ttop) = envs
    h = History(spec, env, twin)
    probes = [(g, tg), (nodes[0], tnodes[0]), (nodes[1], tnodes[1]), (g.args()[0] if g.args() else g, tg.args()[0] if tg.args() else tg)]
    h.register([top] + [p for p, _ in probes])
    o, _ = h.do(top, ttop, twin_too=False, label="failing call")
    stats["failing_calls"] += 1
    if o[0] != "raise":
        stats["fault_not_reached"] += 1
        return [], []
    for j, (p, tp) in enumerate(probes):
        h.do(p, tp, label="probe %d" % j)
    stats["probe_calls"] += len(probes)
    chk.count((name, "unsupported", tuple(map(str, rows[-3:]))))
    replay = {"walker": name, "recipe": rows, "repro": "harness.c15.replay_unsupported(%r, %r)" % (name, rows)}
    h.again(chk, o, top, ttop, label="unsupported operator", replay=replay)
    if h.diffs:
        stats["histories_with_trace"] += 1
        chk.violation(dict(replay, kind="history", what="after %s raised %s on And(g, Or(b1, <custom node>)), later calls on well-formed formulas "
                           "differ from the untouched twin environment" % (name, o[1]), differences=h.diffs[:4]),
                      key="dagwalker:exception-leaves-stack:%s" % name)
    if kind == "size":      # the unsupported node's callback is not in measure_to_fun: not observable by the tap
        return [], []
    return [h.coq()], [replay]


DWF_HANDLERS = {
    # what an extension would register with env.add_dynamic_walker_function for its node type
    "Simplifier": lambda self, formula, args, **kw: self.manager.create_node(node_type=formula.node_type(), args=tuple(args)),
    "MGSubstituter": lambda self, formula, args, **kw: self.mgr.create_node(node_type=formula.node_type(), args=tuple(args)),
    "FreeVarsOracle": lambda self, formula, args, **kw: frozenset(x for a in args for x in a),
    "QuantifierOracle": lambda self, formula, args, **kw: all(args),
    "TypesOracle": lambda self, formula, args, **kw: frozenset(x for a in args for x in a),
    "TheoryOracle": lambda self, formula, args, **kw: args[0].copy(),
    "AtomsOracle": lambda self, formula, args=None, **kw: frozenset([formula]),
    "SizeOracle": lambda self, formula, args, **kw: 1 + sum(args),
}


def run_register_after_failure(chk, rnd, spec, rows, stats):
    """fail -> REGISTER -> retry: a call on a long-lived walker fails with UnsupportedOperatorError
    on a custom node type, then the handler is registered through the documented extension API
    (env.add_dynamic_walker_function), then the call is made again.  The twin registers the
    same handler but never made the failing call.  (Class: anything a failing call leaves on the
    walker that outlives a later, legitimate change of the environment.)"""
    from pysmt.environment import Environment
    from pysmt.typing import BOOL
    NT = custom_node_type()
    name, kind = spec[0], spec[2]
    envs = []
    for _ in range(2):
        env = Environment()
        env.add_dynamic_walker_function(NT, type(env.stc), lambda self, formula, args, **kw: BOOL)
        nodes = walkgen.build(env, rows)
        g = walkgen.last_of_sort(env, nodes)
        m = env.formula_manager
        cn = m.create_node(node_type=NT, args=(nodes[0],))
        cn2 = m.create_node(node_type=NT, args=(nodes[1],))
        top = m.And(g, m.Or(nodes[1], cn))
        other = m.Or(m.Not(cn2), nodes[2])
        envs.append((env, nodes, g, cn, top, other))
    (env, nodes, g, cn, top, other), (twin, tnodes, tg, tcn, ttop, tother) = envs
    h = History(spec, env, twin)
    h.register([top, other, cn, g])
    first, _ = h.do(top, ttop, twin_too=False, label="failing call (no handler registered yet)")
    stats["failing_calls"] += 1
    if first[0] != "raise":
        stats["fault_not_reached"] += 1
        return [], []
    for e in (env, twin):
        e.add_dynamic_walker_function(NT, type(spec[1](e)), DWF_HANDLERS[name])
    replay = {"walker": name, "recipe": rows, "history": ["%s(And(g, Or(p1, <custom node>))) raises %s" % (name, first[1]),
                                                          "env.add_dynamic_walker_function(<custom type>, %s, handler)" % name,
                                                          "%s(And(g, Or(p1, <custom node>))) again" % name],
              "repro": "harness.c15.replay_register(%r, %r)" % (name, rows)}
    h.do(top, ttop, label="the failing call again, after the handler was registered")
    rows_out = [] if kind == "size" else [h.coq()]      # the model sees: call 1 raises at the custom node, call 2 does not
    # further calls (twin comparison only: the resolved handler replaces the tapped table entry)
    for lbl, f, tf in (("another formula with the custom type", other, tother), ("the custom node alone", cn, tcn), ("a formula without it", g, tg)):
        a = canon_outcome(outcome(lambda: spec[5](env, h.w, f, None)))
        b = canon_outcome(outcome(lambda: spec[5](twin, h.tw, tf, None)))
        stats["probe_calls"] += 1
        if a != b:
            h.diffs.append({"call": lbl, "after_failure": list(a), "fresh_twin": list(b)})
    chk.count((name, "register-after-failure", tuple(map(str, rows[-3:]))))
    if h.diffs:
        stats["histories_with_trace"] += 1
        chk.violation(dict(replay, kind="history", what="%s failed on a custom node type, the handler was registered afterwards, and later calls still differ "
                           "from a twin environment that registered the same handler without the failing call" % name, differences=h.diffs[:4]),
                      key="register-after-failure:%s" % name)
    return rows_out, [replay] if rows_out else []


def run_register_type_checker(chk, stats):
    """The same three steps on the type checker (through FormulaManager.create_node)."""
    from pysmt.environment import Environment
    from pysmt.typing import BOOL
    NT = custom_node_type()
    env, twin = Environment(), Environment()
    out = []
    for e, fail_first in ((env, True), (twin, False)):
        m = e.formula_manager
        b = m.Symbol("b", BOOL)
        first = outcome(lambda: m.create_node(node_type=NT, args=(b,))) if fail_first else None
        e.add_dynamic_walker_function(NT, type(e.stc), lambda self, formula, args, **kw: BOOL)
        second = outcome(lambda: m.create_node(node_type=NT, args=(b,)))
        third = outcome(lambda: m.And(b, m.create_node(node_type=NT, args=(m.Not(b),))))
        out.append((first, canon_outcome(second), canon_outcome(third)))
    stats["failing_calls"] += 1
    stats["probe_calls"] += 2
    chk.count(("register-after-failure", "SimpleTypeChecker"))
    if out[0][0][0] != "raise" or out[0][1:] != out[1][1:]:
        chk.violation({"kind": "history", "what": "create_node with a custom node type failed, the type-checker handler was registered afterwards, and the "
                       "same construction still differs from a twin that never made the failing attempt",
                       "history": ["create_node(<custom>, (b,)) -> %s" % (out[0][0],), "add_dynamic_walker_function(<custom>, SimpleTypeChecker, h)",
                                   "create_node(<custom>, (b,)) -> %s" % (out[0][1],)], "fresh_twin": [list(x) for x in out[1][1:]],
                       "repro": "harness.c15.replay_register('SimpleTypeChecker', [])"}, key="register-after-failure:SimpleTypeChecker")


def replay_register(name, rows):
    warnings.simplefilter("ignore")
    c = _Chk()
    if name == "SimpleTypeChecker":
        run_register_type_checker(c, _stats())
    else:
        spec = [s for s in _specs() if s[0] == name][0]
        run_register_after_failure(c, random.Random(0), spec, rows, _stats())
    return 1 if c.v else 0


def run_ill_typed_substitution(chk, rnd, rows, stats):
    from pysmt.environment import Environment
    spec = [s for s in _specs() if s[0] == "MGSubstituter"][0]
    env, twin = Environment(), Environment()
    nodes, tnodes = walkgen.build(env, rows), walkgen.build(twin, rows)
    g = walkgen.last_of_sort(env, nodes)
    gi = nodes.index(g)
    tg = tnodes[gi]
    syms = [i for i, r in enumerate(rows) if r[0] == "sym" and nodes[i] in env.fvo.get_free_variables(g)]
    if not syms:
        return [], []
    a = rnd.choice(syms)
    others = [i for i, r in enumerate(rows) if r[0] == "sym" and r[2] != rows[a][2]]
    b = rnd.choice(others)
    h = History(spec, env, twin)
    probes = [(g, tg), (nodes[a], tnodes[a])] + [(x, tnodes[nodes.index(x)]) for x in g.args()[:2]]
    h.register([g] + [p for p, _ in probes])
    bad_map = lambda e: (lambda n: {n[a]: n[b]})(walkgen.build(e, rows))
    o, _ = h.do(g, tg, extra=bad_map, twin_too=False, label="ill-typed substitution {%s: %s}" % (rows[a][1], rows[b][1]))
    stats["failing_calls"] += 1
    if o[0] != "raise":
        stats["fault_not_reached"] += 1
        return [], []
    maps = subst_maps(rnd, rows)
    for j, (p, tp) in enumerate(probes):
        for mp in maps:
            h.do(p, tp, extra=mp, label="probe %d" % j)
    stats["probe_calls"] += len(probes) * len(maps)
    chk.count(("ill-typed-subst", tuple(map(str, rows[-3:])), a, b))
    replay = {"recipe": rows, "root_row": gi, "map_rows": [a, b],
              "repro": "harness.c15.replay_subst(%r, %d, %d, %d)" % (rows, gi, a, b)}
    h.again(chk, o, g, tg, extra=bad_map, label="ill-typed substitution", replay=replay)
    if h.diffs:
        stats["histories_with_trace"] += 1
        chk.violation(dict(replay, kind="history", what="after env.substituter.substitute(g, {%s: %s}) raised %s, later substitutions on the same "
                           "environment differ from the untouched twin (KeyError or a result computed with the earlier map)"
                           % (rows[a][1], rows[b][1], o[1]), differences=h.diffs[:4]),
                      key="dagwalker:exception-keeps-oneshot-memo:MGSubstituter")
    return [h.coq()], [replay]


def bad_constructions(env, nodes, rows):
    """Catalogue of constructions that must be rejected: ill-typed applications (pysmt type
    errors), typing rules that die with a non-pysmt exception, and a node of a type the type
    checker does not know.  Each entry is (label, thunk)."""
    from pysmt.typing import INT
    m, tm = env.formula_manager, env.type_manager
    b0 = [n for n, r in zip(nodes, rows) if r[0] == "sym" and r[2] == "bool"][0]
    i0 = [n for n, r in zip(nodes, rows) if r[0] == "sym" and r[2] == "int"][0]
    v0 = [n for n, r in zip(nodes, rows) if r[0] == "sym" and r[2] == "bv"][0]
    g = walkgen.last_of_sort(env, nodes)
    NT = custom_node_type()
    arr = m.Symbol("arr0", tm.ArrayType(INT, INT))
    return [
        ("And(i, b)", lambda: m.And(i0, b0)), ("Plus(i, b)", lambda: m.Plus(i0, b0)), ("Ite(i, b, b)", lambda: m.Ite(i0, b0, b0)),
        ("BVAdd(v, i)", lambda: m.BVAdd(v0, i0)), ("LT(v, i)", lambda: m.LT(v0, i0)), ("Not(Plus(i, i))", lambda: m.Not(m.Plus(i0, i0))),
        ("And(g, Or(b, i))", lambda: m.And(g, m.Or(b0, i0))), ("Equals(i, v)", lambda: m.Equals(i0, v0)),
        ("Ite(b, i, v)", lambda: m.Ite(b0, i0, v0)), ("Iff(i, i)", lambda: m.Iff(i0, i0)), ("ToReal(b)", lambda: m.ToReal(b0)),
        # typing rules that raise something else than a pysmt type error
        ("BVULT(i, i)", lambda: m.BVULT(i0, i0)), ("BVULE(i, b)", lambda: m.BVULE(i0, b0)), ("BVSLT(i, i)", lambda: m.BVSLT(i0, i0)),
        ("BVSLE(b, b)", lambda: m.BVSLE(b0, b0)), ("BVComp(i, i)", lambda: m.BVComp(i0, i0)), ("Select(i, i)", lambda: m.Select(i0, i0)),
        ("Store(b, i, i)", lambda: m.Store(b0, i0, i0)), ("Select(arr, b)", lambda: m.Select(arr, b0)), ("StrLength(i)", lambda: m.StrLength(i0)),
        ("BVToNatural(i)", lambda: m.BVToNatural(i0)), ("Function(i, [i])", lambda: m.Function(i0, [i0])),
        ("BVConcat(v, i)", lambda: m.BVConcat(v0, i0)), ("BVExtract(i, 0, 1)", lambda: m.BVExtract(i0, 0, 1)), ("BVZExt(i, 2)", lambda: m.BVZExt(i0, 2)),
        ("BVNot(b)", lambda: m.BVNot(b0)), ("BVNeg(i)", lambda: m.BVNeg(i0)), ("Pow(b, b)", lambda: m.Pow(b0, b0)), ("Div(v, v)", lambda: m.Div(v0, v0)),
        # a node type without any type-checker function: raw create_node, as an extension would call it
        ("create_node(<custom type>, (b, b))", lambda: m.create_node(node_type=NT, args=(b0, b0))),
        ("create_node(<custom type>, (g,))", lambda: m.create_node(node_type=NT, args=(g,))),
    ]


def run_ill_typed_construction(chk, rnd, rows, stats):
    """A rejected construction leaves no trace: the SAME construction attempted again on the same
    environment fails the same way (as the single attempt on a fresh environment does), and
    afterwards the environment answers as the twin does."""
    from pysmt.environment import Environment
    env, twin = Environment(), Environment()
    nodes, tnodes = walkgen.build(env, rows), walkgen.build(twin, rows)
    g = walkgen.last_of_sort(env, nodes)
    diffs = []
    cat = bad_constructions(env, nodes, rows)
    memo_reported = False
    for k, (label, bad) in enumerate(cat):
        sizes = dict((w, len(getattr(env, w).memoization)) for w in LONG_LIVED if not getattr(env, w).invalidate_memoization)
        first = outcome(bad)
        stats["failing_calls"] += 1
        for w, n0 in sizes.items():
            # theorem (C15_failure_transparent): after a call that raised the memo is correct and has ONLY GROWN
            if len(getattr(env, w).memoization) < n0 and not memo_reported:
                memo_reported = True
                chk.violation({"kind": "history", "what": "the memo table of env.%s shrank from %d to %d entries across the rejected construction %s: what was computed before a "
                               "failing call is thrown away (model: memo correct and only grown after a walk that raised)" % (w, n0, len(getattr(env, w).memoization), label),
                               "recipe": rows, "repro": "harness.c15.replay_construction(%r, %d)" % (rows, k)}, key="memo-shrinks-after-failure:%s" % w)
        if first[0] != "raise":
            stats["fault_not_reached"] += 1        # accepted: C03's business, not a failing call
            continue
        second = outcome(bad)
        third = outcome(bad)
        fresh = Environment()
        single = outcome(bad_constructions(fresh, walkgen.build(fresh, rows), rows)[k][1])
        stats["probe_calls"] += 3
        chk.count(("construction-twice", label))
        for nth, o in (("second", second), ("third", third)):
            if canon_outcome(o) != canon_outcome(first) or canon_outcome(o) != canon_outcome(single):
                chk.violation({"kind": "history", "what": "a construction that was rejected is not rejected the same way when it is attempted again on the same "
                               "environment: %s" % label, "history": ["%s  -> %s" % (label, first[1]), "%s again (%s attempt) -> %s" % (label, nth, canon_outcome(o)[1][:200] if o[0] == "ok" else o[1])],
                               "first_attempt": list(canon_outcome(first)), "%s_attempt" % nth: list(canon_outcome(o)), "fresh_environment_single_attempt": list(canon_outcome(single)),
                               "recipe": rows, "repro": "harness.c15.replay_construction(%r, %d)" % (rows, k)},
                              key="construction:second-attempt:%s" % label)
                break
    gi = nodes.index(g)
    for label, fn in [("simplify", lambda e, n: e.simplifier.simplify(n[gi])),
                      ("get_type", lambda e, n: str(e.stc.get_type(n[gi]))),
                      ("rebuild", lambda e, n: walkgen.build(e, rows)[gi]),
                      ("new formula", lambda e, n: e.formula_manager.And(n[gi], e.formula_manager.Not(n[0]))),
                      ("free vars", lambda e, n: e.fvo.get_free_variables(n[gi])),
                      ("logic", lambda e, n: str(__import__("pysmt.oracles").oracles.get_logic(n[gi], e))),
                      ("substitute", lambda e, n: e.substituter.substitute(n[gi], {n[0]: n[1]}))]:
        a = canon_outcome(outcome(lambda: fn(env, nodes)))
        b = canon_outcome(outcome(lambda: fn(twin, tnodes)))
        stats["probe_calls"] += 1
        if a != b:
            diffs.append({"call": label, "after_failure": list(a), "fresh_twin": list(b)})
    chk.count(("ill-typed-construction", tuple(map(str, rows[-3:]))))
    if diffs:
        stats["histories_with_trace"] += 1
        chk.violation({"kind": "history", "what": "after rejected constructions, later calls differ from the twin", "recipe": rows,
                       "differences": diffs[:4]}, key="construction:trace-after-type-error")


def replay_construction(rows, k):
    warnings.simplefilter("ignore")
    from pysmt.environment import Environment
    env = Environment()
    label, bad = bad_constructions(env, walkgen.build(env, rows), rows)[k]
    a, b = outcome(bad), outcome(bad)
    fresh = Environment()
    c = outcome(bad_constructions(fresh, walkgen.build(fresh, rows), rows)[k][1])
    print(label, "first:", canon_outcome(a), "second:", canon_outcome(b), "fresh single:", canon_outcome(c))
    return 0 if canon_outcome(a) == canon_outcome(b) == canon_outcome(c) else 1


GOOD_SCRIPTS = [
    "(declare-fun a () Int)\n(assert (< a b))\n",          # b undeclared: must fail the same way
    "(declare-fun a () Int)\n(assert (< (f a) 3))\n",      # f undeclared
    "(declare-fun a () Int)\n(declare-fun b () Int)\n(assert (< a b))\n(check-sat)\n",
    "(declare-fun p () Bool)\n(define-fun f ((x Int)) Int (+ x 1))\n(declare-fun a () Int)\n(assert (=> p (< (f a) 3)))\n(push 1)\n(assert p)\n(check-sat)\n(pop 1)\n",
    "(declare-fun q () (_ BitVec 8))\n(assert (let ((t (bvadd q q))) (= t q)))\n(check-sat)\n(get-model)\n",
    "(declare-fun a () Bool)\n(declare-fun k () Bool)\n(assert (and a k))\n",
    "(declare-fun a () Real)\n(assert (< a 1.5))\n",
]
BAD_SCRIPTS = [
    ("undefined symbol", "(declare-fun a () Int)\n(assert (< a undefined_sym))\n"),
    ("undefined symbol under let", "(declare-fun a () Int)\n(assert (let ((b (+ a 1))) (< b undefined_sym)))\n"),
    ("undefined symbol under quantifier", "(declare-fun a () Int)\n(assert (forall ((k Int)) (< k undefined_sym)))\n"),
    ("malformed: unbalanced", "(declare-fun a () Int)\n(assert (let ((q (+ a 1)) (< q \n"),
    ("malformed: stray paren", "(declare-fun a () Int)\n(assert (< a 1)))\n(check-sat)\n"),
    ("unsupported command", "(declare-fun a () Int)\n(frobnicate a)\n"),
    ("ill-typed term", "(define-fun f ((x Int)) Int (+ x 1))\n(declare-fun p () Bool)\n(assert (f p))\n"),
    ("ill-typed after define-fun and push", "(declare-fun p () Bool)\n(push 1)\n(define-fun g ((x Bool)) Bool (not x))\n(assert (+ p 1))\n"),
    ("bad sort", "(declare-fun a () Intt)\n"),
]


def run_parser(chk, rnd, stats):
    from pysmt.environment import Environment
    from pysmt.smtlib.parser import SmtLibParser

    def parse(p, txt):
        sc = p.get_script(io.StringIO(txt))
        return [(c.name, [walkgen.canon_key(a) if hasattr(a, "node_id") else str(a) for a in c.args]) for c in sc.commands]
    for label, bad in BAD_SCRIPTS:
        for gi, good in enumerate(GOOD_SCRIPTS):
            env, twin = Environment(), Environment()
            p, tp = SmtLibParser(environment=env), SmtLibParser(environment=twin)
            o = outcome(lambda: parse(p, bad))
            stats["failing_calls"] += 1
            if o[0] != "raise":
                stats["fault_not_reached"] += 1
                continue
            seq = [good] + [GOOD_SCRIPTS[(gi + 1) % len(GOOD_SCRIPTS)]]
            diffs = []
            o2 = outcome(lambda: parse(p, bad))
            stats["probe_calls"] += 1
            if o2 != o:
                chk.violation({"kind": "history", "what": "a script that failed (%s) does not fail the same way when it is parsed again by the same parser" % label,
                               "failing_script": bad, "first_attempt": list(o), "second_attempt": [o2[0], str(o2[1])[:300]]},
                              key="second-attempt:parser:%s" % label)
            for s in seq:
                a = outcome(lambda: parse(p, s))
                b = outcome(lambda: parse(tp, s))
                stats["probe_calls"] += 1
                a = (a[0], walkgen.rename_fresh(str(a[1])))
                b = (b[0], walkgen.rename_fresh(str(b[1])))
                if a != b:
                    diffs.append({"script": s, "after_failure": list(a), "fresh_twin": list(b)})
            chk.count(("parser", label, gi))
            if diffs:
                stats["histories_with_trace"] += 1
                redeclared = any("already" in str(d) or "TypeError" in str(d["after_failure"]) for d in diffs)
                chk.violation({"kind": "history", "what": "after get_script failed (%s), a later get_script on the same parser/environment differs from the twin"
                               % label, "failing_script": bad, "differences": diffs[:3],
                               "repro": "p = SmtLibParser(environment=env); p.get_script(bad) raises; p.get_script(good)"},
                              key="parser:failed-script-keeps-declarations" if redeclared else "parser:trace-after-failure:%s" % label)


# ---------------------------------------------------------------------------------------------
# The PHASE in which the exception surfaces: faults inside every overridable hook of the loop
# (expansion, key, children, computation), at the n-th call, on every long-lived walker and on
# a reused SmtDagPrinter; natural faults under binders that are not the root (C15-E class)
# ---------------------------------------------------------------------------------------------

def hook_overrides():
    """Which DagWalker subclasses of the tree override which hooks (for the evidence)."""
    import pysmt.rewritings, pysmt.smtlib.printers, pysmt.simplifier, pysmt.substituter, pysmt.oracles, pysmt.type_checker     # noqa
    import pysmt.walkers.dag as d

    def subs(c):
        for x in c.__subclasses__():
            yield x
            for y in subs(x):
                yield y
    names = HOOKS + ("_process_stack", "iter_walk", "walk")
    return dict((c.__name__, [h for h in names if h in c.__dict__]) for c in set(subs(d.DagWalker)) if any(h in c.__dict__ for h in names))


def _hook_walkers():
    """name -> (get(env) walker, call(env, walker, f))"""
    import pysmt.environment as pe
    from pysmt.smtlib.printers import SmtDagPrinter

    def mk_printer(env):
        if not hasattr(env, "_c15_printer"):
            pe.push_env(env)
            try:
                env._c15_printer = SmtDagPrinter(io.StringIO())
            finally:
                pe.pop_env()
        return env._c15_printer

    def print_call(env, w, f):
        buf = io.StringIO()
        w.stream, w.write = buf, buf.write
        pe.push_env(env)
        try:
            w.printer(f)
        finally:
            pe.pop_env()
        return buf.getvalue()
    W = {"stc": (lambda e: e.stc, lambda e, w, f: e.formula_manager.Not(e.formula_manager.And(f, e.formula_manager.Symbol("hk_fresh")))),
         "substituter": (lambda e: e.substituter, lambda e, w, f: w.substitute(f, {e.formula_manager.Symbol("p2"): e.formula_manager.Symbol("p1")})),
         "simplifier": (lambda e: e.simplifier, lambda e, w, f: w.simplify(f)),
         "qfo": (lambda e: e.qfo, lambda e, w, f: w.is_qf(f)), "theoryo": (lambda e: e.theoryo, lambda e, w, f: str(w.get_theory(f))),
         "fvo": (lambda e: e.fvo, lambda e, w, f: w.get_free_variables(f)), "sizeo": (lambda e: e.sizeo, lambda e, w, f: w.get_size(f, 0)),
         "ao": (lambda e: e.ao, lambda e, w, f: w.get_atoms(f)), "typeso": (lambda e: e.typeso, lambda e, w, f: [str(t) for t in w.get_types(f)]),
         "reused SmtDagPrinter": (mk_printer, print_call)}
    return W


CONTEXTS = ("and", "or", "not", "ite", "implies")


def _in_context(m, f, kinds, p, c):
    for k in kinds:
        f = {"and": lambda: m.And(p, f), "or": lambda: m.Or(f, p), "not": lambda: m.Not(f), "ite": lambda: m.Ite(c, f, p),
             "implies": lambda: m.Implies(p, f)}[k]()
    return f


def _hook_formulas(env, rows, kinds, forall=False):
    """F: a quantifier that is NOT the root (under 1..3 Boolean operators); G1: unrelated, no
    quantifier; G2: another quantifier."""
    nodes = walkgen.build(env, rows)
    m = env.formula_manager
    g = walkgen.last_of_sort(env, nodes)
    p0, p1, p2 = nodes[0], nodes[1], nodes[2]
    i0, i1, i2 = nodes[3], nodes[4], nodes[5]
    Q = m.ForAll if forall else m.Exists
    F = _in_context(m, Q([i0], m.And(g, m.LT(i0, i1))), kinds, p0, p1)
    G1 = m.And(p2, m.Or(m.LT(i1, i2), m.Not(p1)))
    G2 = m.Or(m.ForAll([i2], m.LE(i2, m.Plus(i1, i2))), p2)
    return F, G1, G2


def run_hook_faults(chk, rnd, rows, stats):
    from pysmt.environment import Environment
    W = _hook_walkers()
    for wname in sorted(W):
        get, call = W[wname]
        for hook in HOOKS:
            for nth in (1, 2, 4, 7):
                kinds = [rnd.choice(CONTEXTS) for _ in range(rnd.choice([1, 2, 3]))]
                forall = rnd.random() < 0.5
                env, twin = Environment(), Environment()
                F, G1, G2 = _hook_formulas(env, rows, kinds, forall)
                tF, tG1, tG2 = _hook_formulas(twin, rows, kinds, forall)
                w, tw = get(env), get(twin)
                orig = getattr(w, hook)
                cnt = [0]

                def faulty(*a, **kw):
                    cnt[0] += 1
                    if cnt[0] == nth:
                        raise InjectedFault()
                    return orig(*a, **kw)
                setattr(w, hook, faulty)
                first = outcome(lambda: call(env, w, F))
                delattr(w, hook)
                stats["failing_calls"] += 1
                if first != ("raise", "InjectedFault"):
                    stats["fault_not_reached"] += 1
                    continue
                replay = {"walker": wname, "hook": hook, "nth_call": nth, "context": kinds, "recipe": rows,
                          "history": ["%s on F = %s(quantifier) with %s raising at its call number %d" % (wname, "/".join(kinds), hook, nth),
                                      "%s on G1 (unrelated, no quantifier)" % wname, "%s on G2 (another quantifier)" % wname, "%s on F again" % wname],
                          "repro": "harness.c15.replay_hook(%r, %r, %d, %r, %r, %r)" % (wname, hook, nth, kinds, forall, rows)}
                extra = [(wname, w)] if wname.startswith("reused") else []
                ok = stacks_empty(chk, env, "%s raising in %s (call %d)" % (wname, hook, nth), replay, extra)
                diffs = []
                for lbl, f, tf in (("G1", G1, tG1), ("G2", G2, tG2), ("F again", F, tF), ("G1 again", G1, tG1)):
                    a = canon_outcome(outcome(lambda: call(env, w, f)))
                    b = canon_outcome(outcome(lambda: call(twin, tw, tf)))
                    stats["probe_calls"] += 1
                    if a != b:
                        diffs.append({"call": lbl, "after_failure": list(a), "fresh_twin": list(b)})
                chk.count(("hook-fault", wname, hook, nth, tuple(kinds)))
                if diffs and ok:
                    stats["histories_with_trace"] += 1
                    chk.violation(dict(replay, kind="history", what="after %s raised inside %s, later calls on the same walker differ from the twin" % (wname, hook),
                                       differences=diffs[:4]), key="hook-fault:%s:%s" % (wname, hook))


def replay_hook(wname, hook, nth, kinds, forall, rows):
    warnings.simplefilter("ignore")
    from pysmt.environment import Environment
    get, call = _hook_walkers()[wname]
    env = Environment()
    F, G1, G2 = _hook_formulas(env, rows, kinds, forall)
    w = get(env)
    orig, cnt = getattr(w, hook), [0]

    def faulty(*a, **kw):
        cnt[0] += 1
        if cnt[0] == nth:
            raise InjectedFault()
        return orig(*a, **kw)
    setattr(w, hook, faulty)
    print("failing call:", outcome(lambda: call(env, w, F)))
    delattr(w, hook)
    print("stack left:", len(w.stack), "entries")
    r = [canon_outcome(outcome(lambda: call(env, w, f))) for f in (G1, G2, F)]
    for x in r:
        print("later call:", x[0], str(x[1])[:120])
    return 1 if len(w.stack) or any(x[0] == "raise" for x in r) else 0


def run_binder_faults(chk, rnd, rows, stats):
    """Natural faults below a binder that is not the root: an ill-typed replacement (substituter)
    and a node type the printer does not know (reused SmtDagPrinter), at depth 1..3 under
    And / Or / Not / Ite / Implies; the first later call does not contain that quantifier."""
    from pysmt.environment import Environment
    from pysmt.typing import BOOL
    W = _hook_walkers()
    NT = custom_node_type()
    for depth in (1, 2, 3):
        for forall in (False, True):
            for wname in ("substituter", "reused SmtDagPrinter"):
                for order in (0, 1):
                    kinds = [rnd.choice(CONTEXTS) for _ in range(depth)]
                    res = []
                    for with_failure in (True, False):
                        env = Environment()
                        env.add_dynamic_walker_function(NT, type(env.stc), lambda self, formula, args, **kw: BOOL)
                        nodes = walkgen.build(env, rows)
                        m = env.formula_manager
                        p0, p1, p2, i0, i1, i2 = nodes[0], nodes[1], nodes[2], nodes[3], nodes[4], nodes[5]
                        Q = m.ForAll if forall else m.Exists
                        good_atom = m.LT(m.Plus(i1, i0), i2)
                        if wname == "substituter":
                            bad_atom = m.Equals(i2, i0)
                            call_bad = lambda w, f: w.substitute(f, {i1: m.Int(1), i2: m.Real(2)})
                            call_ok = lambda w, f: w.substitute(f, {i1: i2})
                        else:
                            bad_atom = m.create_node(node_type=NT, args=(m.LT(i0, i1),))
                            call_bad = lambda w, f: W[wname][1](env, w, f)
                            call_ok = call_bad
                        body = m.And(bad_atom, good_atom) if order == 0 else m.And(good_atom, bad_atom)
                        F = _in_context(m, Q([i0], body), kinds, p0, p1)
                        G1 = m.And(p2, m.Or(m.LT(m.Plus(i1, i0), i2), m.Not(p1)))
                        G2 = m.Or(m.ForAll([i0], m.LE(i0, m.Plus(i1, i0))), p2)
                        w = W[wname][0](env)
                        first = outcome(lambda: call_bad(w, F)) if with_failure else None
                        ok = True
                        if with_failure:
                            stats["failing_calls"] += 1
                            extra = [(wname, w)] if wname.startswith("reused") else []
                            ok = stacks_empty(chk, env, "%s failing below a %s under %s" % (wname, "forall" if forall else "exists", "/".join(kinds)),
                                              {"history": ["%s(%s)" % (wname, walkgen.canon_key(F)[:300])], "repro": "harness.c15.replay_binder_fault()"}, extra)
                        later = [canon_outcome(outcome(lambda: call_ok(w, f))) for f in (G1, G2, G1)]
                        stats["probe_calls"] += 3
                        res.append((first, later, ok, walkgen.canon_key(F)))
                    (first, later, ok, fk), (_, tlater, _, _) = res
                    chk.count(("binder-fault", wname, depth, forall, order, tuple(kinds)))
                    if first[0] != "raise":
                        stats["fault_not_reached"] += 1
                        continue
                    if later != tlater and ok:
                        stats["histories_with_trace"] += 1
                        chk.violation({"kind": "history", "what": "after %s failed below a quantifier that is not the root (depth %d under %s), later calls differ from the twin"
                                       % (wname, depth, "/".join(kinds)), "history": ["%s(%s) raises %s" % (wname, fk[:300], first[1]), "G1 (unrelated)", "G2", "G1"],
                                       "after_failure": [list(x) for x in later], "fresh_twin": [list(x) for x in tlater],
                                       "repro": "harness.c15.replay_binder_fault()"}, key="binder-fault:%s" % wname)


def replay_binder_fault():
    warnings.simplefilter("ignore")
    c = _Chk()
    rnd = random.Random(0)
    run_binder_faults(c, rnd, walkgen.gen_recipe(rnd, 8), _stats())
    return 1 if c.v else 0


def run_corpus(chk, stats):
    """The minimal histories of the repaired defects; each must behave like the twin."""
    from pysmt.environment import Environment
    from pysmt.typing import BOOL, INT
    NT = custom_node_type()

    def expect(key, label, got, want):
        stats["probe_calls"] += 1
        if canon_outcome(got) != canon_outcome(want):
            chk.violation({"kind": "history", "what": "regression of a repaired defect: " + label, "after_failure": list(canon_outcome(got)),
                           "expected": list(canon_outcome(want)), "repro": "harness.c15.replay_corpus()"}, key=key)
    for spec in _specs():
        name, get, kind, early, oneshot, call = spec
        if kind == "subst":
            continue
        env = Environment()
        env.add_dynamic_walker_function(NT, type(env.stc), lambda self, formula, args, **kw: BOOL)
        m = env.formula_manager
        q, r = m.Symbol("q", BOOL), m.Symbol("r", BOOL)
        cn = m.create_node(node_type=NT, args=(q,))
        w = get(env)
        first = outcome(lambda: call(env, w, m.And(r, m.Or(q, cn)), None))
        stats["failing_calls"] += 1
        expect("dagwalker:exception-leaves-stack:%s" % name, "%s on And(r, Or(q, <custom node>)) must raise" % name,
               (first[0], None), ("raise", None))
        twin = Environment()
        tm_ = twin.formula_manager
        tq = tm_.Symbol("q", BOOL)
        for _ in range(2):
            expect("dagwalker:exception-leaves-stack:%s" % name, "%s(And(q, q)) after the failing call" % name,
                   outcome(lambda: call(env, w, m.And(q, q), None)), outcome(lambda: call(twin, get(twin), tm_.And(tq, tq), None)))
        if len(w.stack) != 0:
            chk.violation({"kind": "history", "what": "%s.stack not empty after a failing call" % name, "repro": "harness.c15.replay_corpus()"},
                          key="dagwalker:exception-leaves-stack:%s" % name)
        chk.count(("corpus", name))
    env = Environment()
    m = env.formula_manager
    p_, x, y, z = [m.Symbol(n, BOOL) for n in ("p", "x", "y", "z")]
    a, b, c, i = [m.Symbol(n, INT) for n in ("a", "b", "c", "i")]
    sub = env.substituter
    key = "dagwalker:exception-keeps-oneshot-memo:MGSubstituter"
    stats["failing_calls"] += 2
    expect(key, "substitute(And(Not p, a<b), {p:a, a:c}) must raise",
           (outcome(lambda: sub.substitute(m.And(m.Not(p_), m.LT(a, b)), {p_: a, a: c}))[0], None), ("raise", None))
    expect(key, "substitute(a<b, {a:b}) after the failing substitution", outcome(lambda: sub.substitute(m.LT(a, b), {a: b})), ("ok", m.LT(b, b)))
    expect(key, "substitute(And(x, Not y), {y:i}) must raise",
           (outcome(lambda: sub.substitute(m.And(x, m.Not(y)), {y: i}))[0], None), ("raise", None))
    expect(key, "substitute(And(x,z), {x:z}) after the failing substitution", outcome(lambda: sub.substitute(m.And(x, z), {x: z})), ("ok", m.And(z, z)))
    expect(key, "substitute(x, {x:y}) after the failing substitution", outcome(lambda: sub.substitute(x, {x: y})), ("ok", y))
    if len(sub.stack) != 0 or len(sub.memoization) != 0:
        chk.violation({"kind": "history", "what": "env.substituter keeps %d stack entries / %d memo entries after failing calls"
                       % (len(sub.stack), len(sub.memoization)), "repro": "harness.c15.replay_corpus()"}, key=key)
    chk.count(("corpus", "substituter"))


def replay_corpus():
    warnings.simplefilter("ignore")
    c = _Chk()
    run_corpus(c, _stats())
    return 1 if c.v else 0


def run(tier):
    chk = lib.Check("C15", tier)
    rnd = random.Random(chk.seed)
    warnings.simplefilter("ignore")
    ok = chk.prove()
    stats = {"failing_calls": 0, "probe_calls": 0, "fault_not_reached": 0, "histories_with_trace": 0}
    specs = _specs()
    _CURRENT_CHK[0] = chk
    run_corpus(chk, stats)
    for k in range(2 if tier == "quick" else 12):
        rows = walkgen.gen_recipe(rnd, rnd.choice([6, 9]))
        run_hook_faults(chk, rnd, rows, stats)
        run_binder_faults(chk, rnd, rows, stats)
    chk.cov["hook_overrides_in_tree"] = hook_overrides()
    rows_out, meta = [], []
    nform = 10 if tier == "quick" else 80
    for k in range(nform):
        size = rnd.choice([4, 6, 8, 11])
        rows = walkgen.gen_recipe(rnd, size)
        for spec in specs:
            r, m = run_injected(chk, rnd, spec, rows, stats)
            rows_out += r
            meta += m
            r, m = run_unsupported_operator(chk, rnd, spec, rows, stats)
            rows_out += r
            meta += m
            r, m = run_register_after_failure(chk, rnd, spec, rows, stats)
            rows_out += r
            meta += m
        for _ in range(3):
            r, m = run_ill_typed_substitution(chk, rnd, rows, stats)
            rows_out += r
            meta += m
        run_ill_typed_construction(chk, rnd, rows, stats)
    run_parser(chk, rnd, stats)
    run_register_type_checker(chk, stats)
    chk.note("failing calls %(failing_calls)d, probe calls %(probe_calls)d, histories with a trace %(histories_with_trace)d" % stats)

    lib.clean_cases(chk.dir)
    files, per = [], 60
    for k in range(0, len(rows_out), per):
        p = os.path.join(chk.dir, "cases_%d.v" % (k // per))
        with open(p, "w") as f:
            f.write(walktap.case_file(rows_out[k:k + per]))
        files.append(p)
    corr_bad = []
    lib.coq_make(["models/DagWalkRun.vo"])   # not in the closure of the property file: build it here
    if os.path.exists(os.path.join(lib.COQ, "models", "DagWalkRun.vo")):
        res = lib.run_case_files(files)
        for i, p in enumerate(files):
            rc, out = res[p]
            mm = lib.parse_nat_list(out) if rc == 0 else None
            if mm is None:
                corr_bad.append({"file": p, "error": out[-400:]})
            else:
                for j in mm:
                    corr_bad.append(dict(meta[i * per + j], what="model and implementation differ on a failing history (answer kinds / order / stack / memo)"))
    else:
        corr_bad.append({"error": "models/DagWalkRun.v does not compile"})
    chk.cov["correspondence"] = {"model_histories": len(rows_out), "disagreements": len(corr_bad), "examples": corr_bad[:6],
                                 "compared": "per call: answer kind, callback order, loop iterations, stack left, memo keys left"}
    chk.cov["fault_injection"] = stats
    chk.cov["corpus"] = CORPUS
    chk.cov["faults"] = ["callback raising at every key of the traversal (injected)", "unsupported operator (custom node type)",
                         "ill-typed substitution",
                         "a fault at the n-th call (1,2,4,7) of each loop hook (_push_with_children_to_stack, _compute_node_result, _get_children, _get_key) of the 9 long-lived walkers and a reused SmtDagPrinter, on a quantifier that is not the root; natural faults below such a binder at depth 1..3 (ill-typed replacement, node unknown to the printer)",
                         "after EVERY failing call: stack == [] (and one-shot table empty) on every long-lived walker of the environment",
                         "fail -> register the handler (env.add_dynamic_walker_function) -> retry, on each of the 8 long-lived walkers and on the type checker",
                         "rejected constructions (31 entries: pysmt type errors, typing rules raising AttributeError/AssertionError, create_node with a node type unknown to the type checker), each attempted three times",
                         "parser: " + ", ".join(l for l, _ in BAD_SCRIPTS),
                         "every failing call is attempted a second time on the same environment and must fail as the first time and as a single attempt on a fresh environment"]
    if meta:
        chk.sample(meta[0])
        chk.sample(meta[-1])
    # the SOLVER-object clause: failing calls on a text-interface solver (C17's fault family)
    try:
        from . import c17
        if not chk.enough():
            chk.cov["solver_object_faults"] = c17.run_fault_family(chk, rnd, 40 if tier == "quick" else 400)
    except ImportError:
        chk.cov["solver_object_faults"] = "harness/c17.py not available: the solver-object clause was not exercised"
    if (not ok or corr_bad) and not chk.violations:
        what = []
        if not ok:
            what.append("proof obligations no longer check: " + lib.proof_failure_summary(chk))
        if corr_bad:
            what.append("correspondence model<->implementation differs: %s" % corr_bad[:3])
        chk.violation({"kind": "obligation", "theorem_or_correspondence": what}, found_input=False)
    return chk.finish(TRUSTED, ASSUMPTIONS,
                      "random shared-DAG formulas (walkgen recipes) x 8 environment-wide walkers x a fault at every key of the traversal, "
                      "plus natural faults and the corpus of repaired defects; each followed by a fixed probe sequence, compared with an untouched twin Environment and with the Coq model")


# -------- replays --------------------------------------------------------------------------------

class _Chk(object):
    def __init__(self):
        self.v = []

    def count(self, *a, **k):
        pass

    def violation(self, rep, key=None, found_input=True):
        self.v.append((key, rep))
        print("key=%s: %s" % (key, rep.get("what")))
        for d in rep.get("differences", []):
            print("   ", d)


def _stats():
    return {"failing_calls": 0, "probe_calls": 0, "fault_not_reached": 0, "histories_with_trace": 0}


def replay_injected(name, rows, gi, idx):
    warnings.simplefilter("ignore")
    c = _Chk()
    spec = [s for s in _specs() if s[0] == name][0]
    run_injected(c, random.Random(0), spec, [tuple(r) if not isinstance(r[1], list) else (r[0], r[1]) for r in rows], _stats())
    return 1 if c.v else 0


def replay_unsupported(name, rows):
    warnings.simplefilter("ignore")
    c = _Chk()
    spec = [s for s in _specs() if s[0] == name][0]
    run_unsupported_operator(c, random.Random(0), spec, rows, _stats())
    return 1 if c.v else 0


def replay_subst(rows, gi, a, b):
    warnings.simplefilter("ignore")
    c = _Chk()
    for seed in range(20):
        run_ill_typed_substitution(c, random.Random(seed), rows, _stats())
    return 1 if c.v else 0


def replay(path):
    r = json.load(open(path))
    print(json.dumps(r, indent=1)[:3000])
    rep = r.get("repro", "")
    if str(r.get("mode", "")).startswith("fault:"):      # a solver-object history: replayed by the C17 harness
        from . import c17
        return c17.replay(path)
    if rep.startswith("harness.c15.replay_"):
        rep = rep if rep.endswith(")") else rep + ")"
        return eval(rep[len("harness.c15."):])
    return run("quick")
