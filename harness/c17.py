"""C17 - text-interface solvers: legal command stream, replies in sync, faithful verdict/model.

The real `pysmt.smtlib.solver.SmtLibSolver` (attached with env.factory.add_generic_solver) is
driven through random and enumerated API histories against the strict reference solver process
harness/smtref.py (independent of pysmt).  Two things are checked on every history:

 * correspondence: the command stream logged by the reference solver and whether pysmt raised are
   compared with `observed h` of the Coq model models/SmtLibSolver.v (evaluated with vm_compute
   in generated case files);
 * the property itself, with oracles that do not involve the model: any `(error ...)` reply in the
   solver log (illegal stream), any exception on a user-legal history, verdicts and values
   returned to the caller vs. the logged replies (attribution) and vs. brute-force evaluation of
   the live assertions by the harness's own evaluator over the finite domains, completeness and
   correctness of the model returned by get_model, meaning of every logged assertion.

Finite domains: Bool, (_ BitVec 3), Int restricted to -4..4 (the reference solver is started with
--int-range 4 and the harness enumerates the same range: Int verdicts are relative to it).
Every run of the real solver is under two watchdogs: the reference solver exits after 8 s without
input (the wrapper then sees EOF) and the worker raises after 20 s (SIGALRM).
"""
import itertools
import json
import os
import random
import signal
import sys
import time

from . import lib, smtref

smtref.set_int_range(4)
PY = "/venv/bin/python"
SMTREF = os.path.join(lib.VERIF, "harness", "smtref.py")
INT_RANGE = 4
BVW = 3

TRUSTED = [
    "Coq 8.16.1 kernel; vm_compute only inside the generated correspondence case files",
    "hand model models/SmtLibSolver.v of SmtLibSolver / Solver.is_sat.. / clear_pending_pop and of the strict SMT-LIB solver, tied to the implementation by this run's correspondence (command streams + raised flag)",
    "harness/smtref.py: strict reference SMT-LIB solver (written from the standard, no pysmt code); its log is the observation point for the command stream and the replies",
    "the harness's own formula AST, evaluator and brute-force search (finite domains Bool, BV3, Int in -4..4)",
    "external solver in the theorems = Section variables `decide`/`holds` with hypotheses decide_correct, holds_not (C17_shortcut_truth)",
    "formula.simplify() and the SMT-LIB printer are outside the model (C01/C07): the model sees a formula as its set of free symbols after simplify(); the meaning of every logged assertion is checked by the oracle",
]
ASSUMPTIONS = [
    "the Coq model has no failing calls: a modelled history ends at the first exception raised by the wrapper; histories in which a call fails and the history goes on (family `fault`, property C15 on the solver object) are checked by the oracle only: the commands of the failing call are taken out of the log and the rest must behave like the history without that call (verdicts by brute force, no exception, legal stream); model key sets / values of symbols first declared by the failing call are not compared; a solver process that dies is not exercised",
    "OS pipe buffering and process start-up are not modelled",
    "custom sorts: arity 0 and two instances of one arity-2 sort symbol (model: a second declared-set with its own level stack, separate name space); reading abstract values of custom sorts is not modelled (open finding)",
    "the sat-mode precondition of get-value is enforced by the reference solver, not by the Coq spec; generated histories query values only after a sat answer",
    "Int verdicts are relative to the range -4..4 for free symbols",
]
RULE = ("histories: (a) the witnesses of the clauses repaired by fixes C17 a-e (regression), (b) user-legal histories over a 13-call alphabet: all up to length 2 + a sample of length 3 (thorough: all up to length 4), "
        "(c) random histories with one-level push/pop, no reset, value queries last, (d) random histories stressing one repaired clause each; a quarter of (c),(d) draws from a 40-symbol pool of mixed sorts with formulas of 7..33 distinct free symbols (sizes 7,8,9,15,16,17,31,32,33 explicitly), "
        "(f) fault (C15, oracle only): one call FAILS (an assertion the strict solver refuses after accepting its declarations: Real-sorted subterm or symbol, non-Boolean formula; a construction pysmt rejects before anything is sent: Pow over Int; a value query without a current sat answer; pop below level 0), it mentions symbols / a custom sort for the first time, and 1-4 legal calls that mention them follow (same level, after push, after pop), then solve / get_value / get_model; "
        "(d'') names: a custom sort and a symbol with the SAME name (both arrival orders, one assertion or several, across push / pop(n) / reset, first use popped before the second arrives), a symbol named like its own sort, sorts named like theory functions / auxiliary let names / needing quotes, symbols named Int, 0x, .def_k; 15% of (c),(d) add such names to their pool; sortpos: a custom sort (arity 0 / instance of the arity-2 symbol) that occurs ONLY in quantifier binders or as index sort of constant array values, in closed formulas or formulas whose free symbols are declared already (often the symbol NAMED like the sort), first use at level 0 / in a pushed level / popped and used again / after reset, via add_assertion and the one-shot checks; paramsort: two instances of a sort symbol with arguments; sortvalue: value queries on custom-sort symbols, "
        "(d') poplevels: symbols declared at different levels, one pop(n) with n in 2..4, reuse of symbols of the lowest/middle/highest popped level in small and large formulas, with/without a small formula first, optionally after push / reset_assertions; widemodel: 15..33 symbols at one level then get_model / get_value of wide terms, "
        "(value queries anywhere / get_model at any depth / push,pop with n in 0..3 / reset_assertions / value query on an unasserted symbol), (e) factory one-shot shortcuts; "
        "distinct = distinct (history, formulas) inputs")

# ------------------------------------------------------------------------------------------
# symbols, formulas (harness AST), evaluator
# ------------------------------------------------------------------------------------------
POOL = [("b0", "Bool"), ("b1", "Bool"), ("b2", "Bool"), ("v0", "BV"), ("v1", "BV"), ("i0", "Int"), ("i1", "Int")]
# the large pool of the "wide" families (formulas with 7..33 distinct free symbols, mixed sorts)
WIDE_POOL = ["p%d" % k for k in range(28)] + ["u%d" % k for k in range(6)] + ["k%d" % k for k in range(6)]
POOL += [(n, {"p": "Bool", "u": "BV", "k": "Int"}[n[0]]) for n in WIDE_POOL]
# sizes around the usual thresholds of "bulk" shortcuts (8 / 16 / 32)
WIDE_SIZES = [7, 8, 9, 15, 16, 17, 31, 32, 33]
# custom (uninterpreted, arity 0) sorts and names that COLLIDE on purpose: SMT-LIB keeps sorts and
# function symbols in separate namespaces, and identifies |a| with a.
#   sort named like a symbol of another sort (S, T, b0, p1, u0), like one of its own elements (e0),
#   like a theory function (and), like the printer's auxiliary let names (.def_0), needing quotes (a b);
#   symbols named like sorts, like sort symbols of the theories (Int), like auxiliary names, needing quotes.
SORTS = ["S", "T", "b0", "p1", "u0", "e0", "and", ".def_0", "a b"]
SORT_ELEMS = {"S": ["es0", "es1"], "T": ["et0", "et1"], "b0": ["eb0", "eb1"], "p1": ["ep0", "ep1"], "u0": ["eu0", "eu1"],
              "e0": ["e0", "e1"], "and": ["ea0", "ea1"], ".def_0": ["ed0", "ed1"], "a b": ["eq0", "eq1"]}
for _sn in SORTS:
    POOL += [(n, "U:" + _sn) for n in SORT_ELEMS[_sn]]
# a sort symbol WITH arguments: two instances of one declaration (only in the paramsort family)
PARAM_SORTS = {"(Pair Int Int)": ("Pair", ["Int", "Int"]), "(Pair Bool Bool)": ("Pair", ["Bool", "Bool"])}
SORT_ELEMS.update({"(Pair Int Int)": ["q0", "q1"], "(Pair Bool Bool)": ["r0", "r1"]})
POOL += [("q0", "U:(Pair Int Int)"), ("q1", "U:(Pair Int Int)"), ("r0", "U:(Pair Bool Bool)"), ("r1", "U:(Pair Bool Bool)"),
         ("Pair", "Bool")]
# quantifier-bound variables: two per custom sort (never free)
BOUND = {}
for _k, _so in enumerate(["U:" + n for n in SORTS] + ["U:(Pair Int Int)"]):
    BOUND[_so] = ["z%da" % _k, "z%db" % _k]
    POOL += [(BOUND[_so][0], _so), (BOUND[_so][1], _so)]
# symbols (of built-in sorts) named like a custom sort / oddly; b0, p1, u0 above collide too
ODD_SYMS = [("S", "Bool"), ("T", "BV"), (".def_0", "Bool"), ("a b", "Bool"), ("Int", "Bool"), ("0x", "Int"), (".def_1", "BV")]
POOL += ODD_SYMS
POOL += [("rr0", "Real")]      # only inside calls that are meant to fail (fault family)
SYM_ID = {n: k for k, (n, _) in enumerate(POOL)}
SYM_SORT = dict(POOL)
assert len(SYM_SORT) == len(POOL)
# in the Coq model sorts and symbols are numbered in separate name spaces; a sort gets the number
# of the symbol with the same name, if there is one
SORT_ID = {n: SYM_ID.get(n, 1000 + k) for k, n in enumerate(SORTS)}
SORT_ID["Pair"] = SYM_ID["Pair"]
for _inst, (_decl, _args) in PARAM_SORTS.items():
    SORT_ID[_inst] = SORT_ID[_decl]     # the model knows the sort SYMBOL (its declaration)


def is_usort(sort):
    return sort.startswith("U:")


def pysmt_type(sort, mgr, types):
    if sort == "Bool":
        return types.BOOL
    if sort == "Int":
        return types.INT
    if sort == "BV":
        return types.BVType(BVW)
    if sort == "Real":
        return types.REAL
    if sort[2:] in PARAM_SORTS:
        decl, args = PARAM_SORTS[sort[2:]]
        return mgr.env.type_manager.get_type_instance(mgr.env.type_manager.Type(decl, len(args)),
                                                      *[pysmt_type(a, mgr, types) for a in args])
    return mgr.env.type_manager.Type(sort[2:], 0)


def domain(sort):
    if sort == "Bool":
        return [False, True]
    if sort == "BV":
        return [("bv", BVW, k) for k in range(1 << BVW)]
    if is_usort(sort):      # two abstract values, as in the reference solver
        return [("u", sort[2:], 0), ("u", sort[2:], 1)]
    return list(range(-INT_RANGE, INT_RANGE + 1))


def _bv(n):
    return ("bv", BVW, n % (1 << BVW))


def _sgn(n):
    return n - (1 << BVW) if n >= (1 << (BVW - 1)) else n


def ev(t, env):
    """Evaluator of the harness AST (independent of pysmt and of smtref)."""
    op = t[0]
    if op == "var":
        return env[t[1]]
    if op == "true":
        return True
    if op == "false":
        return False
    if op == "iconst":
        return t[1]
    if op == "bvconst":
        return _bv(t[1])
    if op in ("exists", "forall"):      # over the finite universes (two values per custom sort)
        for vals in itertools.product(*[domain(SYM_SORT[n]) for n in t[1]]):
            e2 = dict(env)
            e2.update(zip(t[1], vals))
            if bool(ev(t[2], e2)) != (op == "forall"):
                return op != "forall"
        return op == "forall"
    if op == "constarr":                # array = tuple of element values over the index universe
        return (ev(t[2], env),) * len(domain(t[1]))
    if op in ("select", "store"):
        arr, idx = ev(t[1], env), ev(t[2], env)
        k = domain("U:" + idx[1]).index(idx)
        return arr[k] if op == "select" else arr[:k] + (ev(t[3], env),) + arr[k + 1:]
    a = [ev(x, env) for x in t[1:]]
    if op == "not":
        return not a[0]
    if op == "and":
        return a[0] and a[1]
    if op == "or":
        return a[0] or a[1]
    if op == "xor":
        return a[0] != a[1]
    if op == "iff":
        return a[0] == a[1]
    if op == "implies":
        return (not a[0]) or a[1]
    if op in ("ite", "iite", "bvite"):
        return a[1] if a[0] else a[2]
    if op == "le":
        return a[0] <= a[1]
    if op == "lt":
        return a[0] < a[1]
    if op in ("eq", "bveq", "ueq", "aeq"):
        return a[0] == a[1]
    if op in ("uite", "aite"):
        return a[1] if a[0] else a[2]
    if op == "plus":
        return a[0] + a[1]
    if op == "minus":
        return a[0] - a[1]
    if op == "times":
        return a[0] * a[1]
    x = a[0][2]
    y = a[1][2] if len(a) > 1 else None
    if op == "bvult":
        return x < y
    if op == "bvule":
        return x <= y
    if op == "bvslt":
        return _sgn(x) < _sgn(y)
    if op == "bvadd":
        return _bv(x + y)
    if op == "bvsub":
        return _bv(x - y)
    if op == "bvmul":
        return _bv(x * y)
    if op == "bvand":
        return _bv(x & y)
    if op == "bvor":
        return _bv(x | y)
    if op == "bvxor":
        return _bv(x ^ y)
    if op == "bvnot":
        return _bv(~x)
    if op == "bvneg":
        return _bv(-x)
    if op == "bvudiv":
        return _bv((1 << BVW) - 1 if y == 0 else x // y)
    if op == "bvurem":
        return _bv(x if y == 0 else x % y)
    if op == "bvshl":
        return _bv(x << y if y < BVW else 0)
    if op == "bvlshr":
        return _bv(x >> y if y < BVW else 0)
    raise ValueError(op)


def syms(t, acc=None, bound=frozenset()):
    """FREE symbols of the term."""
    acc = set() if acc is None else acc
    if t[0] == "var":
        if t[1] not in bound:
            acc.add(t[1])
    elif t[0] in ("exists", "forall"):
        syms(t[2], acc, bound | set(t[1]))
    elif t[0] == "constarr":
        syms(t[2], acc, bound)
    else:
        for x in t[1:]:
            if isinstance(x, (tuple, list)):
                syms(x, acc, bound)
    return acc


def sorts_in(t, acc=None):
    """Custom sorts that occur in binders / array constants of the term (harness AST)."""
    acc = set() if acc is None else acc
    if t[0] in ("exists", "forall"):
        for n in t[1]:
            if is_usort(SYM_SORT[n]):
                acc.add(SYM_SORT[n][2:])
        sorts_in(t[2], acc)
    elif t[0] == "constarr":
        acc.add(t[1][2:])
        sorts_in(t[2], acc)
    elif t[0] != "var":
        for x in t[1:]:
            if isinstance(x, (tuple, list)):
                sorts_in(x, acc)
    return acc


def to_pysmt(t, mgr, types):
    """Build the formula with the user-level constructors of the repository under test."""
    op = t[0]
    R = lambda k: to_pysmt(t[k], mgr, types)
    if op == "var":
        return mgr.Symbol(t[1], pysmt_type(SYM_SORT[t[1]], mgr, types))
    if op == "true":
        return mgr.TRUE()
    if op == "false":
        return mgr.FALSE()
    if op == "iconst":
        return mgr.Int(t[1])
    if op == "bvconst":
        return mgr.BV(t[1] % (1 << BVW), BVW)
    if op == "pow":         # (pow t k): an operator the reference solver does not know
        return mgr.Pow(R(1), mgr.Int(t[2]))
    if op == "toreal_le":   # (<= (to_real t) c.0): Real is not supported by the reference solver
        return mgr.LE(mgr.ToReal(R(1)), mgr.Real(t[2]))
    if op in ("exists", "forall"):
        vs = [mgr.Symbol(n, pysmt_type(SYM_SORT[n], mgr, types)) for n in t[1]]
        return (mgr.Exists if op == "exists" else mgr.ForAll)(vs, R(2))
    if op == "constarr":
        return mgr.Array(pysmt_type(t[1], mgr, types), R(2))
    table = {"not": mgr.Not, "and": mgr.And, "or": mgr.Or, "xor": mgr.Xor, "iff": mgr.Iff, "implies": mgr.Implies,
             "ite": mgr.Ite, "iite": mgr.Ite, "bvite": mgr.Ite, "le": mgr.LE, "lt": mgr.LT, "eq": mgr.Equals,
             "bveq": mgr.Equals, "ueq": mgr.Equals, "uite": mgr.Ite, "aeq": mgr.Equals, "aite": mgr.Ite,
             "select": mgr.Select, "store": mgr.Store, "plus": mgr.Plus, "minus": mgr.Minus, "times": mgr.Times,
             "bvult": mgr.BVULT, "bvule": mgr.BVULE, "bvslt": mgr.BVSLT, "bvadd": mgr.BVAdd, "bvsub": mgr.BVSub,
             "bvmul": mgr.BVMul, "bvand": mgr.BVAnd, "bvor": mgr.BVOr, "bvxor": mgr.BVXor, "bvnot": mgr.BVNot,
             "bvneg": mgr.BVNeg, "bvudiv": mgr.BVUDiv, "bvurem": mgr.BVURem, "bvshl": mgr.BVLShl, "bvlshr": mgr.BVLShr}
    return table[op](*[R(k) for k in range(1, len(t))])


def gen_term(rnd, sort, pool, depth):
    vs = [n for n in pool if SYM_SORT[n] == sort]
    if depth <= 0 or rnd.random() < 0.25:
        if vs and rnd.random() < 0.8:
            return ("var", rnd.choice(vs))
        if sort == "Bool":
            return (rnd.choice(["true", "false"]),)
        if sort == "Int":
            return ("iconst", rnd.randint(-3, 3))
        return ("bvconst", rnd.randrange(1 << BVW))
    d = depth - 1
    if sort == "Bool":
        kinds = ["not", "and", "or", "xor", "iff", "implies", "ite"]
        if any(SYM_SORT[n] == "Int" for n in pool):
            kinds += ["le", "lt", "eq"] * 2
        if any(SYM_SORT[n] == "BV" for n in pool):
            kinds += ["bveq", "bvult", "bvule", "bvslt"] * 2
        upairs = [(a, b) for a in pool for b in pool if a < b and is_usort(SYM_SORT[a]) and SYM_SORT[a] == SYM_SORT[b]]
        if upairs:
            kinds += ["ueq"] * 4
        k = rnd.choice(kinds)
        if k == "ueq":
            a, b = rnd.choice(upairs)
            if rnd.random() < 0.3:
                return ("ueq", ("uite", gen_term(rnd, "Bool", pool, d), ("var", a), ("var", b)), ("var", rnd.choice([a, b])))
            return ("ueq", ("var", a), ("var", b))
        if k == "not":
            return ("not", gen_term(rnd, "Bool", pool, d))
        if k == "ite":
            return ("ite", gen_term(rnd, "Bool", pool, d), gen_term(rnd, "Bool", pool, d), gen_term(rnd, "Bool", pool, d))
        if k in ("le", "lt", "eq"):
            return (k, gen_term(rnd, "Int", pool, d), gen_term(rnd, "Int", pool, d))
        if k in ("bveq", "bvult", "bvule", "bvslt"):
            return (k, gen_term(rnd, "BV", pool, d), gen_term(rnd, "BV", pool, d))
        return (k, gen_term(rnd, "Bool", pool, d), gen_term(rnd, "Bool", pool, d))
    if sort == "Int":
        k = rnd.choice(["plus", "minus", "times", "iite", "plus"])
        if k == "times":
            return ("times", ("iconst", rnd.randint(-2, 3)), gen_term(rnd, "Int", pool, d))
        if k == "iite":
            return ("iite", gen_term(rnd, "Bool", pool, d), gen_term(rnd, "Int", pool, d), gen_term(rnd, "Int", pool, d))
        return (k, gen_term(rnd, "Int", pool, d), gen_term(rnd, "Int", pool, d))
    k = rnd.choice(["bvadd", "bvsub", "bvmul", "bvand", "bvor", "bvxor", "bvnot", "bvneg", "bvudiv", "bvurem", "bvshl", "bvlshr", "bvite"])
    if k in ("bvnot", "bvneg"):
        return (k, gen_term(rnd, "BV", pool, d))
    if k == "bvite":
        return ("bvite", gen_term(rnd, "Bool", pool, d), gen_term(rnd, "BV", pool, d), gen_term(rnd, "BV", pool, d))
    return (k, gen_term(rnd, "BV", pool, d), gen_term(rnd, "BV", pool, d))


def gen_formula(rnd, pool):
    for _ in range(20):
        f = gen_term(rnd, "Bool", pool, rnd.choice([0, 1, 1, 2, 2, 3]))
        if syms(f):
            return f
    return ("var", [n for n in pool if SYM_SORT[n] == "Bool"][0]) if any(SYM_SORT[n] == "Bool" for n in pool) else f


def first_value(sort):
    return domain(sort)[0]


def wide_literal(rnd, n, anchor):
    """A literal over symbol n; anchor=True: one that holds under the first assignment of the
    enumeration order (false / #b000 / -4) shared by the reference solver and the harness."""
    so = SYM_SORT[n]
    v = ("var", n)
    if is_usort(so):        # an equation with the other element of the sort (holds at first: both @0)
        other = [m for m in SORT_ELEMS[so[2:]] if m != n][0]
        return ("ueq", v, ("var", other)) if (anchor or rnd.random() < 0.5) else ("not", ("ueq", v, ("var", other)))
    if so == "Bool":
        return ("not", v) if (anchor or rnd.random() < 0.5) else v
    if so == "BV":
        c = rnd.randrange(1, (1 << BVW) - 1)
        return ("bvule", v, ("bvconst", c)) if (anchor or rnd.random() < 0.5) else ("bvult", ("bvconst", c), v)
    c = rnd.randint(-3, 3)
    return ("le", v, ("iconst", c)) if (anchor or rnd.random() < 0.5) else ("lt", ("iconst", c), v)


def _tree(op, items):
    while len(items) > 1:
        items = [(op, items[k], items[k + 1]) if k + 1 < len(items) else items[k] for k in range(0, len(items), 2)]
    return items[0]


def gen_wide(rnd, names):
    """A formula that mentions exactly the given symbols and holds under the first assignment:
    one clause, or a conjunction of two or three clauses, each with an anchor literal."""
    names = list(names)
    rnd.shuffle(names)
    nparts = 1 if len(names) < 4 else rnd.choice([1, 1, 2, 3])
    parts = [names[k::nparts] for k in range(nparts)]
    clauses = []
    for part in parts:
        lits = [wide_literal(rnd, n, k == 0) for k, n in enumerate(part)]
        rnd.shuffle(lits)
        clauses.append(_tree("or", lits))
    return _tree("and", clauses)


def search_space(names):
    t = 1
    for n in names:
        t *= len(domain(SYM_SORT[n]))
    return t


def assignments(names):
    names = sorted(names)
    for vals in itertools.product(*[domain(SYM_SORT[n]) for n in names]):
        yield dict(zip(names, vals))


def holds(f, env):
    """ev, but a malformed value (not a constant of the symbol's sort) makes the formula false."""
    try:
        for n in syms(f):
            v = env[n]
            so = SYM_SORT[n]
            good = (isinstance(v, bool) if so == "Bool" else
                    (isinstance(v, int) and not isinstance(v, bool)) if so == "Int" else
                    (isinstance(v, (tuple, list)) and len(v) == 3 and v[0] == "u") if is_usort(so) else
                    (isinstance(v, (tuple, list)) and len(v) == 3 and v[0] == "bv" and v[1] == BVW))
            if not good:
                return False
        return bool(ev(f, env))
    except Exception:
        return False


def brute_sat(formulas):
    names = set()
    for f in formulas:
        syms(f, names)
    for env in assignments(names):
        if all(ev(f, env) for f in formulas):
            return True
    return False


# ------------------------------------------------------------------------------------------
# the user's view of a history (ideal assertion stack) - used to generate legal histories and
# as the reference for the oracles; independent of pysmt and of the Coq model
# ------------------------------------------------------------------------------------------
LINE_CALLS = ("add", "push", "pop", "solve", "reset", "is_sat", "is_valid", "is_unsat")


def _plain_syms(f):
    return syms(f)


# symbols of an assertion as it reaches the solver (after formula.simplify()); set by run()
SYMS_OF = _plain_syms


def _make_symfun():
    """Free symbols of the formula after formula.simplify() (what add_assertion declares and
    asserts); used to generate legal value queries.  The oracle uses the logged symbols instead."""
    import pysmt.environment
    import pysmt.typing as types
    env = pysmt.environment.get_env()
    cache = {}

    def f(ast):
        key = repr(ast)
        if key not in cache:
            cache[key] = frozenset(x.symbol_name() for x in to_pysmt(ast, env.formula_manager, types).simplify().get_free_variables())
        return cache[key]
    return f


class Ideal(object):
    def __init__(self):
        self.levels = [{"decl": set(), "asserts": [], "syms": []}]
        self.pending = None          # level of a one-shot check not yet removed
        self.sat_mode = False
        self.multi = False           # a push/pop with n != 1 happened
        self.reset_seen = False
        self.declared_before_reset = set()
        self.value_cmd_seen = False  # a value query happened (for the desync diagnosis)

    def depth(self):
        return len(self.levels) - 1

    def live(self):
        return [f for l in self.levels for f in l["asserts"]]

    def live_syms(self):
        s = set()
        for l in self.levels:
            for ss in l["syms"]:
                s |= ss
        return s

    def _declare(self, level, f, symset):
        known = set().union(*[l["decl"] for l in self.levels])
        if self.pending is not None:
            known |= self.pending["decl"]
        symset = set(SYMS_OF(f)) if symset is None else set(symset)
        level["syms"].append(symset)
        for n in symset:
            if n not in known:
                level["decl"].add(n)

    def top_decl(self):
        return set(self.pending["decl"]) if self.pending is not None else set(self.levels[-1]["decl"])

    def legal(self, call):
        k = call[0]
        if k == "pop":
            return call[1] <= self.depth()
        if k in ("get_value", "get_model"):
            if not self.sat_mode:
                return False
        return True

    def cheap(self, extra=()):
        """Can a check over the live assertions (+ extra formulas) be decided quickly by brute
        force?  Yes if the search space is small, or if the first assignment of the enumeration
        order is a model (then the reference solver and the harness both stop at once)."""
        fs = self.live() + list(extra)
        names = set()
        for f in fs:
            syms(f, names)
        if search_space(names) <= 4096:
            return True
        env = {n: first_value(SYM_SORT[n]) for n in names}
        return all(ev(f, env) for f in fs)

    def queryable(self, term):
        """The theorems' side condition on value queries: only symbols of live assertions."""
        live = self.live_syms()
        if self.pending:
            for ss in self.pending["syms"]:
                live |= ss
        return syms(term) <= live

    def declared(self):
        d = set().union(*[l["decl"] for l in self.levels])
        return d | (self.pending["decl"] if self.pending else set())

    def step(self, call, symset=None):
        """Returns the expected return value (verdict) for solving calls, else None.
        symset: the symbols of the asserted formula as logged by the solver (oracle side)."""
        k = call[0]
        if k in ("get_value", "get_model"):
            self.value_cmd_seen = True
            return None
        self.pending = None
        self.sat_mode = False
        if k == "add":
            self._declare(self.levels[-1], call[1], symset)
            self.levels[-1]["asserts"].append(call[1])
        elif k == "push":
            self.multi |= call[1] != 1
            for _ in range(call[1]):
                self.levels.append({"decl": set(), "asserts": [], "syms": []})
        elif k == "pop":
            self.multi |= call[1] != 1
            for _ in range(call[1]):
                self.levels.pop()
        elif k == "reset":
            self.reset_seen = True
            self.declared_before_reset |= set().union(*[l["decl"] for l in self.levels])
            self.levels = [{"decl": set(), "asserts": [], "syms": []}]
        elif k == "solve":
            r = brute_sat(self.live())
            self.sat_mode = r
            return r
        elif k in ("is_sat", "is_valid", "is_unsat"):
            f = ("not", call[1]) if k == "is_valid" else call[1]
            lvl = {"decl": set(), "asserts": [f], "syms": []}
            self._declare(lvl, f, symset)
            self.pending = lvl
            r = brute_sat(self.live() + [f])
            self.sat_mode = r
            return r if k == "is_sat" else (not r)
        return None


# ------------------------------------------------------------------------------------------
# history generators
# ------------------------------------------------------------------------------------------
def pick_size(rnd):
    return rnd.choice(WIDE_SIZES) if rnd.random() < 0.6 else rnd.randint(9, 20)


def wide_names(rnd, size, must=(), prefer=()):
    """`size` distinct symbols of the large pool: those in `must`, then from `prefer`, then any."""
    out = list(dict.fromkeys(must))
    for src in (list(prefer), WIDE_POOL):
        cand = [n for n in src if n not in out]
        rnd.shuffle(cand)
        out += cand[:max(0, size - len(out))]
    return out[:max(size, len(set(must)))]


def admissible(h):
    """User-legal, and every check / value query is decidable quickly by brute force."""
    ideal = Ideal()
    for c in h:
        if not ideal.legal(c):
            return False
        if c[0] == "solve" and not ideal.cheap():
            return False
        if c[0] in ("is_sat", "is_unsat") and not ideal.cheap([c[1]]):
            return False
        if c[0] == "is_valid" and not ideal.cheap([("not", c[1])]):
            return False
        ideal.step(c)
    return True


def random_history(rnd, cls, wide=False, names=False):
    """cls: 'fragment' | 'values' | 'modeldepth' | 'multi' | 'reset' | 'mixed' | 'valuefree'.
    wide: symbols from the large pool, formulas with up to 33 distinct free symbols.
    names: the pool also has elements of one or two custom sorts and symbols whose names collide
    with sort names / need quotes (no value queries then: see finding custom-sort-value-unparsed)."""
    nb = rnd.choice([1, 2, 2, 3])
    pool = rnd.sample(["b0", "b1", "b2"], nb)
    extra = rnd.choice([[], ["v0"], ["i0"], ["v0"], ["i0"], ["v0", "v1"], ["i0", "i1"], ["v0", "i0"]])
    pool = pool + extra
    if len(pool) > 4:
        pool = pool[-4:]
    if wide:
        pool = rnd.sample(WIDE_POOL, rnd.randint(12, 20))
    if names:
        for sn in rnd.sample(SORTS, rnd.choice([1, 1, 2])):
            pool = pool + SORT_ELEMS[sn] + ([sn] if sn in SYM_SORT and not is_usort(SYM_SORT[sn]) else [])
        pool = list(dict.fromkeys(pool + [rnd.choice(ODD_SYMS)[0]]))

    def formula():
        usorts = sorted(set(SYM_SORT[n] for n in pool if is_usort(SYM_SORT[n]) and SYM_SORT[n] in BOUND))
        if names and usorts and rnd.random() < 0.25:
            bools = [n for n in pool if SYM_SORT[n] == "Bool"]
            f, _ = sort_atom(rnd, rnd.choice(usorts), rnd.choice(bools) if bools and rnd.random() < 0.5 else None)
            return f if rnd.random() < 0.5 else (rnd.choice(["and", "or"]), f, gen_formula(rnd, pool))
        if not wide:
            return gen_formula(rnd, pool)
        r = rnd.random()
        if r < 0.5:
            return gen_wide(rnd, wide_names(rnd, pick_size(rnd), prefer=pool))
        if r < 0.8:
            return gen_wide(rnd, rnd.sample(pool, rnd.choice([1, 1, 2, 3])))
        return gen_formula(rnd, rnd.sample(pool, 3))
    n = rnd.choice([2, 3, 4, 5, 6, 8, 10, 14])
    ideal = Ideal()
    h = []
    ns = [1]
    if cls in ("multi", "mixed"):
        ns = [0, 1, 1, 2, 2, 3]
    kinds = ["add"] * 5 + ["push"] * 3 + ["pop"] * 3 + ["solve"] * 3 + ["is_sat", "is_valid", "is_unsat"]
    if cls in ("reset", "mixed"):
        kinds += ["reset"] * 2
    if cls in ("values", "mixed") and not names:
        kinds += ["get_value"] * 3 + ["get_model"] * 2
    tries = 0
    while len(h) < n and tries < 200:
        tries += 1
        k = rnd.choice(kinds)
        if k in ("add", "is_sat", "is_valid", "is_unsat"):
            call = (k, formula())
        elif k in ("push", "pop"):
            call = (k, rnd.choice(ns))
        elif k == "get_value":
            live = sorted(ideal.live_syms())
            if rnd.random() < 0.3:      # also symbols that no live assertion mentions
                live = sorted(set(live) | set(n for n in pool if not is_usort(SYM_SORT[n])))
            if not live:
                continue
            sub = rnd.sample(live, min(len(live), rnd.choice([1, 1, 2])))
            sort = rnd.choice(["Bool", SYM_SORT[sub[0]]])
            t = ("var", sub[0]) if rnd.random() < 0.5 else gen_term(rnd, SYM_SORT[sub[0]] if sort != "Bool" else "Bool", sub, 2)
            if wide and rnd.random() < 0.5:
                t = gen_wide(rnd, rnd.sample(live, min(len(live), pick_size(rnd))))
            call = (k, t)
        else:
            call = (k,)
        if not ideal.legal(call):
            continue
        if (k == "solve" and not ideal.cheap()) or (k in ("is_sat", "is_unsat") and not ideal.cheap([call[1]])) \
                or (k == "is_valid" and not ideal.cheap([("not", call[1])])):
            continue
        ideal.step(call)
        h.append(call)
    # tail: value queries (legal in every class when the last check said sat)
    if names:
        return h
    if cls in ("fragment", "multi", "reset", "modeldepth", "values", "mixed", "valuefree"):
        if cls in ("fragment", "valuefree"):
            # get_model is proved complete only at depth 0 without a pending level; go there
            while ideal.depth() > 0:
                call = ("pop", 1)
                ideal.step(call)
                h.append(call)
        if (not ideal.sat_mode or (cls in ("fragment", "valuefree") and ideal.pending is not None)) and not ideal.cheap():
            return h
        if not ideal.sat_mode or (cls in ("fragment", "valuefree") and ideal.pending is not None):
            call = ("solve",)
            ideal.step(call)
            h.append(call)
        if ideal.sat_mode:
            live = sorted(ideal.live_syms())
            for _ in range(rnd.choice([0, 1, 2])):
                if live:
                    x = rnd.choice(live)
                    call = ("get_value", ("var", x) if rnd.random() < 0.6 else gen_term(rnd, SYM_SORT[x], [x], 1))
                    if wide and rnd.random() < 0.5:
                        call = ("get_value", gen_wide(rnd, rnd.sample(live, min(len(live), pick_size(rnd)))))
                    if ideal.legal(call) and ideal.queryable(call[1]):
                        ideal.step(call)
                        h.append(call)
            if cls == "valuefree":
                # (a custom sort has no default value: get_value raises PysmtTypeError before sending)
                # (rr0 : Real exists only for calls that are meant to fail: the reference solver has no Real)
                free = [n for n, so in POOL if n not in ideal.declared() and not is_usort(so) and so != "Real"]
                if free:
                    h.append(("get_value", ("var", rnd.choice(free))))
                    return h
            if rnd.random() < 0.8:
                h.append(("get_model",))
    return h


def poplevels_history(rnd):
    """Multi-level pops: symbols declared at DIFFERENT levels (lowest / middle / highest popped
    one), one pop(n) with n in 2..4, then each of those symbols is used again in small and in
    large formulas, with and without a small formula mentioning it first, optionally after a
    push or a reset_assertions."""
    ideal = Ideal()
    h = []
    used = []

    def do(call):
        ideal.step(call)
        h.append(call)

    def fresh(k):
        cand = [n for n in WIDE_POOL if n not in used]
        rnd.shuffle(cand)
        used.extend(cand[:k])
        return cand[:k]

    def big(must):
        return gen_wide(rnd, wide_names(rnd, pick_size(rnd), must=must, prefer=used if rnd.random() < 0.5 else ()))

    if rnd.random() < 0.5:
        do(("add", gen_wide(rnd, fresh(rnd.choice([1, 2, 3, 9])))))
    if rnd.random() < 0.25:
        do(("push", 1))
        if rnd.random() < 0.5:
            do(("add", gen_wide(rnd, fresh(rnd.choice([1, 2])))))
    rounds = 2 if rnd.random() < 0.25 else 1
    for _ in range(rounds):
        L = rnd.choice([2, 2, 3, 3, 4])
        how = rnd.choice(["separate", "separate", "separate", "bulk", "mixed"])
        level_syms = []
        if how == "bulk":
            do(("push", L))
            level_syms = [[] for _ in range(L - 1)] + [fresh(rnd.choice([1, 2, 3]))]
            do(("add", gen_wide(rnd, level_syms[-1]) if rnd.random() < 0.7 else big(level_syms[-1])))
        else:
            j = 0
            while j < L:
                step = 1 if how == "separate" else rnd.choice([1, 2])
                step = min(step, L - j)
                do(("push", step))
                level_syms += [[] for _ in range(step - 1)]
                ss = fresh(rnd.choice([0, 1, 1, 2, 3]) if j + step < L or any(level_syms) else rnd.choice([1, 2]))
                level_syms.append(ss)
                if ss:
                    do(("add", gen_wide(rnd, ss) if rnd.random() < 0.7 else big(ss)))
                j += step
        n = rnd.randint(2, L)
        if rnd.random() < 0.15:                 # control: the same levels popped one call at a time
            for _ in range(n):
                do(("pop", 1))
        else:
            do(("pop", n))
        popped = [ss for ss in level_syms[L - n:] if ss]
        after = rnd.choice([None, None, None, "push", "push2", "reset", "solve"])
        if after == "push":
            do(("push", 1))
        elif after == "push2":
            do(("push", 2))
        elif after == "reset":
            do(("reset",))
        elif after == "solve" and ideal.cheap():
            do(("solve",))
        targets = [rnd.choice(ss) for ss in popped]
        rnd.shuffle(targets)
        for y in targets:
            if rnd.random() < 0.35:             # "healing": a small formula mentions y first
                do(("add", gen_wide(rnd, [y] + rnd.sample(used, min(len(used), rnd.choice([0, 1]))))))
            if rnd.random() < 0.7:
                others = [t for t in targets if t != y and rnd.random() < 0.4]
                do(("add", big([y] + others)))
            else:
                do(("add", gen_wide(rnd, list(dict.fromkeys([y] + rnd.sample(used, min(len(used), rnd.choice([0, 1, 2]))))))))
        if rnd.random() < 0.3 and ideal.depth() > 0:
            do(("pop", rnd.randint(1, ideal.depth())))
            if targets:
                do(("add", big([rnd.choice(targets)])))
    if ideal.cheap() and rnd.random() < 0.6:
        do(("solve",))
        if ideal.sat_mode:
            if rnd.random() < 0.5 and ideal.live_syms():
                do(("get_value", ("var", rnd.choice(sorted(ideal.live_syms())))))
            do(("get_model",))
    return h


def sort_atom(rnd, so, p=None):
    """A formula in which the custom sort `so` ("U:...") occurs ONLY in quantifier binders or as
    index sort of constant array values (no free symbol of that sort).  Returns (formula, closed
    truth value or None when it depends on the Bool symbol p)."""
    a, b = BOUND[so]
    va, vb = ("var", a), ("var", b)
    q2 = ("forall", (a, b), ("ueq", va, vb))
    c = rnd.randint(1, 3)
    table = {
        "q1": (("exists", (a, b), ("not", ("ueq", va, vb))), True),
        "q2": (q2, False),
        "nq2": (("not", q2), True),
        "q3": (("forall", (a,), ("exists", (b,), ("not", ("ueq", va, vb)))), True),
        "a2": (("exists", (a,), ("eq", ("select", ("store", ("constarr", so, ("iconst", 0)), va, ("iconst", c)), va), ("iconst", c))), True),
        "a3": (("forall", (a,), ("eq", ("select", ("constarr", so, ("iconst", c)), va), ("iconst", c))), True),
    }
    kinds = ["q1", "q1", "nq2", "q3", "a2", "a3", "q2"]
    if p is not None:
        # (ite p A1 A0) = A0  <=>  not p: the sort is only the index sort of array constants
        table["a1"] = (("aeq", ("aite", ("var", p), ("constarr", so, ("iconst", 1)), ("constarr", so, ("iconst", 0))),
                        ("constarr", so, ("iconst", 0))), None)
        kinds += ["a1", "a1"]
    return table[rnd.choice(kinds)]


def sortpos_history(rnd):
    """WHERE a sort can occur: a custom sort (arity 0 or an instance of the arity-2 one) that occurs
    only in binders / array constants of formulas that are closed or whose free symbols are all
    declared already; first use at level 0, inside pushed levels, popped and used again, after
    reset_assertions; through add_assertion and the one-shot checks; the declared symbol is often
    the one NAMED like the sort."""
    ideal = Ideal()
    h = []

    def do(call):
        ideal.step(call)
        h.append(call)

    sn = rnd.choice(SORTS + ["(Pair Int Int)"])
    so = "U:" + sn
    same = sn if SYM_SORT.get(sn) == "Bool" else None
    p = same if (same and rnd.random() < 0.6) else rnd.choice(["b0", "b1", "p2", "Int", "Pair"])
    plit = ("not", ("var", p))

    def use(first_true_only=False):
        for _ in range(20):
            f, truth = sort_atom(rnd, so, p if rnd.random() < 0.5 else None)
            if truth is False and first_true_only:
                continue
            return f, truth
        return sort_atom(rnd, so)

    def assert_use():
        f, truth = use(first_true_only=True)
        r = rnd.random()
        if r < 0.45 and p in ideal.declared():
            f = (rnd.choice(["and", "or"]), plit, f) if rnd.random() < 0.7 else ("and", f, plit)
        elif r < 0.55:
            f = ("and", f, gen_wide(rnd, wide_names(rnd, rnd.choice([1, 2, 9]))))
        do(("add", f))

    def check_use():
        f, truth = use()
        k = rnd.choice(["is_sat", "is_valid", "is_unsat"])
        if ideal.cheap([("not", f) if k == "is_valid" else f]):
            do((k, f))

    if rnd.random() < 0.7:
        do(("add", plit))
    if rnd.random() < 0.2:
        do(("solve",))
    where = rnd.choice(["level0", "level0", "pushed", "popped-reuse", "reset-reuse", "mixed"])
    if where != "level0":
        do(("push", rnd.choice([1, 1, 2])))
    (assert_use if rnd.random() < 0.65 else check_use)()
    if rnd.random() < 0.4 and ideal.cheap():
        do(("solve",))
    if rnd.random() < 0.4:
        (assert_use if rnd.random() < 0.5 else check_use)()
    if where in ("popped-reuse", "mixed") and ideal.depth() > 0:
        do(("pop", rnd.randint(1, ideal.depth())))
        (assert_use if rnd.random() < 0.7 else check_use)()          # the sort must be declared again
    if where in ("reset-reuse", "mixed"):
        do(("reset",))
        if rnd.random() < 0.5:
            do(("add", plit))
        (assert_use if rnd.random() < 0.7 else check_use)()
    if rnd.random() < 0.3 and not sn.startswith("("):
        # the sort comes into scope with a free element symbol; binder-only uses before / after
        do(("add", wide_literal(rnd, rnd.choice(SORT_ELEMS[sn]), True)))
        assert_use()
    if rnd.random() < 0.3 and ideal.depth() > 0:
        do(("pop", ideal.depth()))
        assert_use()
    if ideal.cheap() and rnd.random() < 0.6:
        do(("solve",))
    return h


def names_history(rnd):
    """Name collisions across namespaces: a custom sort N and a symbol NAMED N (SMT-LIB keeps them
    apart), a symbol named like its own sort, sorts named like theory functions / auxiliary let
    names / needing quotes, symbols named Int, 0x, .def_k: both arrival orders, in one assertion or
    several, at one level or across push / pop(n) / reset_assertions, first use popped before
    the second arrives, re-use afterwards, small and large formulas."""
    ideal = Ideal()
    h = []

    def do(call):
        ideal.step(call)
        h.append(call)

    collide = [n for n in SORTS if n in SYM_SORT and not is_usort(SYM_SORT[n])]
    kind = rnd.choice(["sort-vs-symbol"] * 6 + ["own-element", "odd-names", "two-sorts"])
    if kind == "own-element":
        sort_names, sym_names = ["e0"], ["e1"]
    elif kind == "odd-names":
        sort_names, sym_names = [rnd.choice(["and", ".def_0", "a b"])], [n for n, _ in rnd.sample(ODD_SYMS, 2)]
    elif kind == "two-sorts":
        sort_names = rnd.sample(collide, 2)
        sym_names = list(sort_names)
    else:
        n = rnd.choice(collide)
        sort_names, sym_names = [n], [n]

    def sort_use(sn):
        e = rnd.choice(SORT_ELEMS[sn])
        return wide_literal(rnd, e, True)

    def sym_use(x):
        return wide_literal(rnd, x, True)

    def widen(f):
        if rnd.random() < 0.25:
            return ("or", f, gen_wide(rnd, wide_names(rnd, pick_size(rnd))))
        if rnd.random() < 0.3:
            return ("and", f, gen_wide(rnd, rnd.sample(["b1", "b2", "v0", "i0"], rnd.choice([1, 2]))))
        return f

    uses = [("sort", sn) for sn in sort_names] + [("sym", x) for x in sym_names]
    rnd.shuffle(uses)
    if rnd.random() < 0.3:
        do(("push", rnd.choice([1, 2])))
    for k, (what, n) in enumerate(uses):
        do(("add", widen(sort_use(n) if what == "sort" else sym_use(n))))
        if k + 1 < len(uses):
            between = rnd.choice([None, None, None, "push1", "push2", "pop-all", "pop1", "reset", "solve"])
            if between == "push1":
                do(("push", 1))
            elif between == "push2":
                do(("push", 2))
            elif between == "pop-all" and ideal.depth() > 0:
                do(("pop", ideal.depth()))
            elif between == "pop1" and ideal.depth() > 0:
                do(("pop", 1))
            elif between == "reset":
                do(("reset",))
            elif between == "solve" and ideal.cheap():
                do(("solve",))
    after = rnd.choice([None, None, "pop1", "popn", "reset", "push", "solve"])
    if after == "pop1" and ideal.depth() > 0:
        do(("pop", 1))
    elif after == "popn" and ideal.depth() > 0:
        do(("pop", rnd.randint(1, ideal.depth())))
    elif after == "reset":
        do(("reset",))
    elif after == "push":
        do(("push", rnd.choice([1, 2])))
    elif after == "solve" and ideal.cheap():
        do(("solve",))
    # both namespaces in ONE assertion, then each again on its own
    both = _tree(rnd.choice(["and", "or"]), [sort_use(sn) for sn in sort_names] + [sym_use(x) for x in sym_names])
    if rnd.random() < 0.8:
        do(("add", widen(both)))
    for what, n in rnd.sample(uses, rnd.choice([0, 1, len(uses)])):
        do(("add", sort_use(n) if what == "sort" else sym_use(n)))
    if ideal.cheap():
        r = rnd.random()
        if r < 0.4:
            do(("solve",))
        elif r < 0.6 and ideal.cheap([both]):
            do(("is_sat", both))
    return h


def paramsort_history(rnd):
    """Two instances of one sort symbol with arguments, at one level or across push/pop; plus a
    symbol named like the sort symbol."""
    ideal = Ideal()
    h = []

    def do(call):
        ideal.step(call)
        h.append(call)
    uses = [wide_literal(rnd, "q0", True), wide_literal(rnd, "r0", True)]
    if rnd.random() < 0.5:
        uses.append(wide_literal(rnd, "Pair", True))
    rnd.shuffle(uses)
    for k, f in enumerate(uses):
        do(("add", f))
        r = rnd.random()
        if k + 1 < len(uses):
            if r < 0.25:
                do(("push", rnd.choice([1, 2])))
            elif r < 0.4 and ideal.depth() > 0:
                do(("pop", ideal.depth()))
            elif r < 0.5:
                do(("reset",))
    if rnd.random() < 0.6:
        do(("add", _tree("and", uses)))
    if ideal.cheap() and rnd.random() < 0.7:
        do(("solve",))
    return h


def sortvalue_history(rnd):
    """Value queries on a symbol of a custom sort (the reply is an abstract value (as @S_0 S))."""
    sn = rnd.choice(SORTS)
    e = SORT_ELEMS[sn]
    h = [("add", rnd.choice([("ueq", ("var", e[0]), ("var", e[1])), ("not", ("ueq", ("var", e[0]), ("var", e[1])))])), ("solve",)]
    h.append(rnd.choice([("get_value", ("var", e[0])), ("get_model",)]))
    return h


def widemodel_history(rnd):
    """Many symbols declared at ONE level (15..33), then value queries: get_model, get_value of one
    symbol and of a term with many symbols; optionally a second level."""
    ideal = Ideal()
    h = []

    def do(call):
        ideal.step(call)
        h.append(call)
    if rnd.random() < 0.3:
        do(("push", rnd.choice([1, 2])))
    size = rnd.choice([15, 16, 17, 31, 32, 33]) if rnd.random() < 0.8 else rnd.randint(9, 20)
    names = wide_names(rnd, size)
    if rnd.random() < 0.5:
        do(("add", gen_wide(rnd, names)))
    else:                                       # the same symbols through several assertions
        cut = rnd.randint(1, size - 1)
        do(("add", gen_wide(rnd, names[:cut])))
        do(("add", gen_wide(rnd, names[cut:] + rnd.sample(names[:cut], 1))))
    if rnd.random() < 0.4:
        do(("push", 1))
        do(("add", gen_wide(rnd, wide_names(rnd, pick_size(rnd), prefer=names if rnd.random() < 0.5 else ()))))
    kind = rnd.choice(["solve", "solve", "is_sat"])
    if kind == "solve":
        do(("solve",))
    else:
        do(("is_sat", gen_wide(rnd, wide_names(rnd, rnd.choice([1, 2, 9, 16, 17]), prefer=names))))
    if ideal.sat_mode:
        live = sorted(ideal.live_syms())
        for _ in range(rnd.choice([0, 1, 2])):
            if rnd.random() < 0.5:
                do(("get_value", ("var", rnd.choice(live))))
            else:
                do(("get_value", gen_wide(rnd, rnd.sample(live, min(len(live), pick_size(rnd))))))
        do(("get_model",))
        if rnd.random() < 0.3 and ideal.depth() > 0:
            do(("pop", ideal.depth()))
            do(("solve",))
            if ideal.sat_mode:
                do(("get_model",))
    return h


W9 = _tree("or", [("not", ("var", "p0"))] + [("var", n) for n in ["b1"] + ["p%d" % k for k in range(1, 8)]])
ENUM_ALPHABET = [("add", W9), ("add", ("var", "b0")), ("add", ("or", ("var", "b1"), ("not", ("var", "b0")))), ("push", 1), ("push", 2),
                 ("pop", 1), ("pop", 2), ("solve",), ("get_value", ("var", "b0")), ("get_value", ("var", "b2")), ("get_model",), ("reset",),
                 ("is_sat", ("var", "b1")), ("is_valid", ("var", "b0"))]


def enumerated_histories(maxlen):
    out = []

    def rec(prefix, ideal_calls):
        if prefix:
            out.append(list(prefix))
        if len(prefix) == maxlen:
            return
        for c in ENUM_ALPHABET:
            ideal = Ideal()
            for p in prefix:
                ideal.step(p)
            if not ideal.legal(c):
                continue
            prefix.append(c)
            rec(prefix, None)
            prefix.pop()
    rec([], None)
    # only maximal prefixes need to run: a history's prefixes are covered by... no: each history
    # ends differently (exceptions stop a run), so every one is run.
    return out


X, Y = ("var", "b0"), ("var", "b1")
# histories that refuted clauses before the fixes C17 a-e (kept as regression corpus: they must
# be clean now)
WITNESSES = [
    ("sync_witness", [("add", X), ("solve",), ("get_value", X), ("solve",)]),
    ("pop2_witness", [("push", 1), ("add", X), ("push", 1), ("pop", 2), ("add", X)]),
    ("push2_witness", [("push", 2), ("pop", 1), ("pop", 1), ("add", X)]),
    ("redeclare_witness", [("push", 1), ("push", 1), ("pop", 2), ("add", X), ("push", 2), ("pop", 1), ("pop", 1), ("add", X)]),
    ("reset_witness", [("add", X), ("reset",), ("add", X)]),
    ("value_witness", [("add", X), ("solve",), ("get_value", Y), ("get_value", ("and", X, Y))]),
    ("model_witness", [("add", X), ("push", 1), ("add", Y), ("solve",), ("get_model",)]),
    ("model_witness_pending", [("add", X), ("is_sat", Y), ("get_model",)]),
    # two histories on which a thorough run once reported a model/implementation difference: the
    # reference solver's log record of the clean-up `exit` was cut by terminate() (harness defect)
    ("thorough_a", [("push", 1), ("is_valid", X), ("add", _tree("or", [("not", ("var", "p0")), Y] + [("var", "p%d" % k) for k in range(1, 8)])), ("add", X)]),
    ("thorough_b", [("is_sat", ("not", ("var", "b2"))), ("add", ("ite", Y, X, ("var", "b2"))), ("push", 1), ("add", ("not", Y)),
                    ("add", ("ite", ("iff", ("var", "b2"), ("var", "b2")), ("not", Y), ("xor", ("false",), Y))), ("pop", 1),
                    ("add", ("and", Y, X)), ("push", 1), ("is_sat", X), ("solve",), ("get_value", ("var", "b2"))]),
]


# ------------------------------------------------------------------------------------------
# running one history on the implementation (in a worker process)
# ------------------------------------------------------------------------------------------
class Watchdog(Exception):
    pass


def _alarm(signum, frame):
    raise Watchdog("worker watchdog: the call did not return within 20 s")


def _value_of(node):
    if node.is_bool_constant():
        return bool(node.constant_value())
    if node.is_bv_constant():
        return ("bv", node.bv_width(), int(node.constant_value()))
    if node.is_int_constant():
        return int(node.constant_value())
    return ("?", str(node))


def read_log(path):
    """Returns (records, end marker, partial): `partial` is the text of a last line that was cut
    while being written (the reference solver was terminated in the middle of a record)."""
    out, end, partial = [], None, None
    try:
        text = open(path).read()
        lines = text.split("\n")
        if lines and lines[-1].strip():
            partial = lines.pop()       # no newline after it: the record is incomplete
        for line in lines:
            line = line.strip()
            if not line:
                continue
            try:
                o = json.loads(line)
            except ValueError:
                out.append({"name": "<unparsable log line>", "cmd": line, "reply": None, "symbols": [], "args": None})
                continue
            if "end" in o:
                end = o["end"]
            else:
                out.append(o)
    except OSError:
        pass
    return out, end, partial


def _records(path):
    try:
        return open(path).read().count("\n")
    except OSError:
        return 0


def run_history(h, logpath, mode="incremental"):
    """Drive the real SmtLibSolver through history h.  Returns a JSON-able observation.
    mode "fault:<k>": call number k is expected to FAIL; its exception is recorded and the history
    goes on (C15: a failing call leaves no trace)."""
    fault = int(mode.split(":")[1]) if mode.startswith("fault:") else None
    if fault is not None:
        mode = "incremental"
    import pysmt.environment
    import pysmt.logics
    import pysmt.typing as types
    try:
        os.remove(logpath)
    except OSError:
        pass
    env = pysmt.environment.reset_env()
    mgr = env.formula_manager
    env.factory.add_generic_solver("smtref", [PY, SMTREF, "--log", logpath, "--idle-timeout", "8", "--int-range", str(INT_RANGE)],
                                   [pysmt.logics.QF_AUFBVLIRA])
    obs = {"results": [], "exc": None, "fvs": [], "sorts": {}, "timeout": False}
    old = signal.signal(signal.SIGALRM, _alarm)
    signal.alarm(20)
    s = None
    k = -1
    try:
        if mode != "incremental":
            # factory one-shot shortcuts: h = [(shortcut, formula)]
            name, f = h[0]
            F = to_pysmt(f, mgr, types)
            k = 0
            fn = getattr(env.factory, name)
            r = fn(F, solver_name="smtref")
            if name == "get_model":
                r = None if r is None else {kk.symbol_name(): _value_of(vv) for kk, vv in r}
            obs["results"].append(r)
        else:
            s = env.factory.get_solver(name="smtref", logic=pysmt.logics.QF_AUFBVLIRA)
            for k, call in enumerate(h):
                kind = call[0]
                r = None
                fv = None
                if k == fault:
                    n0 = _records(logpath)
                    try:
                        if kind in ("add", "is_sat", "is_valid", "is_unsat"):
                            getattr(s, "add_assertion" if kind == "add" else kind)(to_pysmt(call[1], mgr, types))
                        elif kind == "pop":
                            s.pop(call[1])
                        elif kind == "get_value":
                            s.get_value(to_pysmt(call[1], mgr, types))
                        elif kind == "get_model":
                            s.get_model()
                        obs["fault"] = {"at": k, "type": None, "msg": "the call did not fail"}
                    except Watchdog:
                        raise
                    except Exception as ex:
                        obs["fault"] = {"at": k, "type": type(ex).__name__, "msg": str(ex)[:200]}
                    obs["fault_span"] = (n0, _records(logpath))
                    obs["fvs"].append(None)
                    obs["results"].append(None)
                    continue
                if kind in ("add", "is_sat", "is_valid", "is_unsat"):
                    F = to_pysmt(call[1], mgr, types)
                    G = mgr.Not(F) if kind == "is_valid" else F
                    fv = [x.symbol_name() for x in G.simplify().get_free_variables()]
                    obs["sorts"][k] = [ty.decl.name for ty in env.typeso.get_types(G.simplify(), custom_only=True)]
                    if kind == "add":
                        s.add_assertion(F)
                    else:
                        r = getattr(s, kind)(F)
                elif kind == "push":
                    s.push(call[1])
                elif kind == "pop":
                    s.pop(call[1])
                elif kind == "solve":
                    r = s.solve()
                elif kind == "reset":
                    s.reset_assertions()
                elif kind == "get_value":
                    T = to_pysmt(call[1], mgr, types)
                    fv = [x.symbol_name() for x in T.get_free_variables()]
                    r = _value_of(s.get_value(T))
                elif kind == "get_model":
                    m = s.get_model()
                    r = {"assigned": {kk.symbol_name(): _value_of(vv) for kk, vv in m},
                         "completed": {n: _value_of(m.get_value(mgr.Symbol(n, pysmt_type(so, mgr, types))))
                                       for n, so in POOL if not is_usort(so) and so != "Real"}}
                obs["fvs"].append(fv)
                obs["results"].append(r)
    except Watchdog as ex:
        obs["timeout"] = True
        obs["exc"] = {"at": k, "type": "Watchdog", "msg": str(ex)}
    except BaseException as ex:  # noqa - every exception on a legal history is an observation
        if isinstance(ex, KeyboardInterrupt):
            raise
        obs["exc"] = {"at": k, "type": type(ex).__name__, "msg": str(ex)[:300]}
        if len(obs["fvs"]) <= k and mode == "incremental" and 0 <= k < len(h):
            call = h[k]
            fv = None
            try:
                if call[0] in ("add", "is_sat", "is_valid", "is_unsat"):
                    F = to_pysmt(call[1], mgr, types)
                    G = mgr.Not(F) if call[0] == "is_valid" else F
                    fv = [x.symbol_name() for x in G.simplify().get_free_variables()]
                    obs["sorts"][k] = [ty.decl.name for ty in env.typeso.get_types(G.simplify(), custom_only=True)]
                elif call[0] == "get_value":
                    fv = [x.symbol_name() for x in to_pysmt(call[1], mgr, types).get_free_variables()]
            except Exception:
                pass
            obs["fvs"].append(fv)
    finally:
        signal.alarm(0)
        proc = getattr(s, "solver", None) if s is not None else None
        try:
            signal.alarm(10)
            if s is not None:
                if obs["exc"] is None:
                    try:
                        s.exit()          # exercises _exit; the solver may be terminated before it logs it
                    except Exception:
                        pass
                else:
                    # after an exception: let the solver process everything that was sent (EOF on
                    # its stdin comes after the pending commands), so that the log is complete
                    try:
                        s.solver_stdin.close()
                    except Exception:
                        pass
                    s._destroyed = True
            if proc is not None:
                try:
                    proc.wait(timeout=9)
                except Exception:
                    try:
                        proc.kill()
                        proc.wait(timeout=5)
                    except Exception:
                        pass
                for fh in (getattr(s, "solver_stdout", None), proc.stderr):
                    try:
                        fh.close()
                    except Exception:
                        pass
        except Watchdog:
            pass
        finally:
            signal.alarm(0)
            signal.signal(signal.SIGALRM, old)
    time.sleep(0.005)
    log, end, partial = read_log(logpath)
    obs["end"] = end
    if partial is not None:
        # Without an exception every command before our clean-up `exit` was answered, hence logged
        # completely: the cut record can only be that exit, written while SmtLibSolver._exit()
        # terminated the process.  After an exception the solver is left to finish (EOF), so a cut
        # record there is an anomaly and stays visible.
        obs["log_partial"] = partial[:200]
        if obs["exc"] is not None:
            log.append({"name": "<unparsable log line>", "cmd": partial, "reply": None, "symbols": [], "args": None})
    if obs["timeout"] or end == "idle-timeout":
        obs["timeout"] = True
    # the trailing exit (sent by our clean-up; racing with terminate()) is not part of the history
    if log and log[-1].get("name") == "exit":
        log = log[:-1]
    obs["log"] = [{"name": e.get("name"), "cmd": e.get("cmd"), "symbols": e.get("symbols") or [], "args": e.get("args"),
                   "reply": e.get("reply")} for e in log]
    return obs


def _worker(job):
    idx, h, mode, logdir = job
    logpath = os.path.join(logdir, "log_%d_%d.jsonl" % (os.getpid(), idx))
    try:
        obs = run_history(h, logpath, mode)
    except BaseException as ex:  # noqa
        obs = {"results": [], "exc": {"at": -1, "type": "HarnessError:" + type(ex).__name__, "msg": str(ex)[:300]}, "fvs": [],
               "sorts": {}, "timeout": False, "log": [], "end": None}
    try:
        os.remove(logpath)
    except OSError:
        pass
    # the property-level oracle runs here too (in parallel); it does not touch the solver
    try:
        if mode == "shortcut":
            obs["fails"], obs["key"] = shortcut_oracle(h, obs), None
        elif mode.startswith("fault:"):
            obs["fails"], obs["key"] = fault_oracle(h, int(mode.split(":")[1]), obs), None
        else:
            obs["fails"] = oracle(h, obs)
            obs["key"] = diagnose(h, obs, obs["fails"])
    except Exception as ex:     # an observation the oracle cannot even interpret
        obs["fails"] = [{"kind": "uninterpretable-observation", "what": "%s: %s" % (type(ex).__name__, ex)}]
        obs["key"] = None
    return idx, obs


def run_all(jobs, logdir, max_timeouts=8):
    """Runs every job in a pool of worker processes.  Returns (results, aborted): after
    max_timeouts blocked runs the remaining jobs are dropped (each costs the watchdog delay)."""
    import multiprocessing
    ctx = multiprocessing.get_context("fork")
    res = {}
    ntimeouts = 0
    aborted = False
    with ctx.Pool(min(lib.NPROC, 16)) as pool:
        it = pool.imap_unordered(_worker, [(i, h, m, logdir) for i, (h, m) in enumerate(jobs)], chunksize=1)
        while True:
            try:
                i, obs = it.next(timeout=120)
            except StopIteration:
                break
            except multiprocessing.TimeoutError:
                aborted = True
                break
            res[i] = obs
            if obs.get("timeout"):
                ntimeouts += 1
                if ntimeouts >= max_timeouts:
                    aborted = True
                    break
    return res, aborted


# ------------------------------------------------------------------------------------------
# property-level oracle (independent of the Coq model)
# ------------------------------------------------------------------------------------------
def _parse_value_reply(reply):
    """((term value)) -> value in the harness representation, via the reference reader."""
    try:
        sx = smtref.read_all(reply)[0]
        return smtref.parse_value(sx[0][1])
    except Exception:
        return ("unparsable", reply)


def _norm(v):
    if isinstance(v, (list, tuple)) and len(v) == 3 and v[0] == "bv":
        return ("bv", int(v[1]), int(v[2]))
    return v


def oracle(h, obs):
    """Returns a list of failures: dicts {kind, at, what, key?}.  Empty = the property holds on
    this history (as far as the observations go)."""
    fails = []
    log = obs["log"]
    ideal = Ideal()
    exc = obs["exc"]
    nres = len(obs["results"])
    # O1: the strict solver rejected a command
    for j, e in enumerate(log):
        if e["reply"] is not None and e["reply"].startswith("(error"):
            fails.append({"kind": "illegal-stream", "cmd_index": j, "cmd": e["cmd"], "reply": e["reply"]})
            break
    if obs["timeout"]:
        fails.append({"kind": "blocked-pipe", "what": "watchdog: %s / solver end=%s" % (exc and exc["msg"], obs.get("end"))})
    # walk the calls that completed, comparing with the user's view
    checks = [e for e in log if e["name"] == "check-sat"]
    values = [e for e in log if e["name"] == "get-value"]
    asserts = [e for e in log if e["name"] == "assert"]
    ci = vi = ai = 0
    for k, call in enumerate(h):
        if k >= nres:
            break
        kind = call[0]
        pre_live = ideal.live()
        pre_syms = ideal.live_syms()
        pre_top = ideal.top_decl()
        pre_depth, pre_pending = ideal.depth(), ideal.pending is not None
        symset = None
        if kind in ("add", "is_sat", "is_valid", "is_unsat") and ai < len(asserts):
            symset = asserts[ai]["symbols"]
        exp = ideal.step(call, symset)
        r = obs["results"][k]
        if kind in ("add", "is_sat", "is_valid", "is_unsat"):
            # O7: the assertion that reached the solver means the intended formula
            want = ("not", call[1]) if kind == "is_valid" else call[1]
            if ai < len(asserts):
                msg = assertion_differs(asserts[ai]["cmd"], want)
                if msg:
                    fails.append({"kind": "assert-meaning", "at": k, "what": msg, "cmd": asserts[ai]["cmd"]})
            ai += 1
        if kind in ("solve", "is_sat", "is_valid", "is_unsat"):
            # O3: attribution - the verdict returned is the reply to this call's check-sat
            if ci < len(checks):
                rep = checks[ci]["reply"]
                got_sat = (not r) if kind in ("is_valid", "is_unsat") else r
                if rep not in ("sat", "unsat") or got_sat != (rep == "sat"):
                    fails.append({"kind": "verdict-attribution", "at": k, "what": "call returned %r, the solver answered %r to its check-sat" % (r, rep)})
            else:
                fails.append({"kind": "verdict-attribution", "at": k, "what": "no check-sat reached the solver for this call"})
            ci += 1
            # O4: truth
            if r != exp:
                fails.append({"kind": "wrong-verdict", "at": k, "what": "%s returned %r, brute force over the live assertions says %r" % (kind, r, exp)})
        elif kind == "get_value":
            if vi < len(values):
                rep = _norm(_parse_value_reply(values[vi]["reply"] or ""))
                if _norm(r) != rep:
                    fails.append({"kind": "value-attribution", "at": k, "what": "get_value returned %r, the solver reported %r" % (r, values[vi]["reply"])})
            else:
                fails.append({"kind": "value-attribution", "at": k, "what": "no get-value reached the solver"})
            vi += 1
        elif kind == "get_model":
            assigned = {n: _norm(v) for n, v in r["assigned"].items()}
            completed = {n: _norm(v) for n, v in r["completed"].items()}
            nq = len(assigned)
            reported = {}
            for e in values[vi:vi + nq]:
                if e["symbols"]:
                    reported[e["symbols"][0]] = _norm(_parse_value_reply(e["reply"] or ""))
            vi += nq
            for n, v in assigned.items():
                if reported.get(n) != v:
                    fails.append({"kind": "value-attribution", "at": k, "what": "model binds %s to %r, the solver reported %r" % (n, v, reported.get(n))})
                    break
            missing = sorted(pre_syms - set(assigned))
            unsat_by_model = [f for f in pre_live if not holds(f, completed)]
            if missing or unsat_by_model:
                f = {"kind": "model-incomplete", "at": k, "missing": missing, "depth": pre_depth, "pending": pre_pending,
                     "what": "get_model does not bind %s of the live assertions%s" % (missing, "; the returned model falsifies a live assertion" if unsat_by_model else "")}
                # exactly the symbols declared below the top declaration level are missing
                f["expected_under_known_defect"] = sorted(pre_syms - pre_top)
                fails.append(f)
    # O2: an exception on a user-legal history
    if exc is not None and not obs["timeout"]:
        fails.append({"kind": "exception", "at": exc["at"], "type": exc["type"], "msg": exc["msg"],
                      "last_cmd": log[-1]["name"] if log else None, "prev_cmd": log[-2]["name"] if len(log) > 1 else None,
                      "prev_reply": log[-2]["reply"] if len(log) > 1 else None})
    return fails


_ASSERT_CACHE = {}


def assertion_differs(cmd_text, want):
    key = (cmd_text, repr(want))
    if key in _ASSERT_CACHE:
        return _ASSERT_CACHE[key]
    msg = None
    try:
        sx = smtref.read_all(cmd_text)[0]
        term = sx[1]
        names = set(smtref.free_symbols(term)) | syms(want)
        unknown = [n for n in names if n not in SYM_SORT]
        if unknown:
            msg = "unknown symbols %s in the asserted text" % unknown
        else:
            if search_space(names) <= 4096:
                envs = assignments(names)
            else:
                import zlib
                r = random.Random(zlib.crc32(cmd_text.encode()))
                srt = sorted(names)
                envs = [{n: first_value(SYM_SORT[n]) for n in srt}] + \
                       [{n: r.choice(domain(SYM_SORT[n])) for n in srt} for _ in range(200)]
            for env in envs:
                a = smtref.eval_term(term, dict(env))
                b = ev(want, env)
                if bool(a) != bool(b):
                    msg = "asserted text evaluates to %r, intended formula to %r under %r" % (a, b, env)
                    break
    except Exception as ex:
        msg = "cannot evaluate the asserted text: %s: %s" % (type(ex).__name__, ex)
    _ASSERT_CACHE[key] = msg
    return msg


def _ideal_before(h, k):
    ideal = Ideal()
    for call in h[:max(k, 0)]:
        ideal.step(call)
    return ideal


def diagnose(h, obs, fails):
    """Stable keys of the root causes (one per independent failure) for known_findings.json;
    None = at least one failure is not of a known shape.  A key is given only when the failure
    has exactly the shape of a demonstrated defect:
      desync-after-get-value          UnknownSolverAnswerError with the EMPTY line as answer, and the
                                      command before the failing one is a well-answered get-value;
      get-model-top-level-only        get_model (no push(n)/pop(n), n != 1, no reset before) misses
                                      exactly the live symbols declared below the top level;
      reset-keeps-declaration-record  the solver rejects the use of a symbol that was declared before
                                      a reset_assertions and not re-declared since;
      get-value-undeclared-symbol     get_value(t) where t mentions a symbol that no live (simplified)
                                      assertion mentions: it is sent undeclared, the solver rejects it;
      custom-sort-value-unparsed      get_value / get_model on a symbol of an uninterpreted sort: the parser
                                      rejects the abstract value (as @S_0 S) the solver reports;
      parametric-sort-declared-per-instance  a sort symbol with arguments is declared under the NAME OF
                                      ITS INSTANCE ("Pair{Int, Int}"), the symbol's sort (Pair Int Int) is unknown;
      push-pop-n-records-one-level    unknown-symbol / already-declared error or IndexError after a
                                      push(n)/pop(n) with n != 1."""
    if not fails:
        return None
    keys = []
    exc = [f for f in fails if f["kind"] == "exception"]
    ill = [f for f in fails if f["kind"] == "illegal-stream"]
    for f in fails:
        if f["kind"] not in ("exception", "illegal-stream", "model-incomplete"):
            return None
    for f in fails:
        if f["kind"] != "model-incomplete":
            continue
        ideal = _ideal_before(h, f["at"])
        if not ideal.multi and not ideal.reset_seen:
            if (f["depth"] > 0 or f["pending"]) and f["missing"] == f["expected_under_known_defect"] and f["missing"]:
                keys.append("get-model-top-level-only")
            else:
                return None
        elif ideal.reset_seen:
            keys.append("reset-keeps-declaration-record")
        else:
            keys.append("push-pop-n-records-one-level")
    if len(exc) > 1 or len(ill) > 1:
        return None
    if ill and not exc:
        return None
    if exc:
        e = exc[0]
        ideal = _ideal_before(h, e["at"] + 1)
        if ill:
            rep = ill[0]["reply"]
            if e["type"] not in ("UnknownSolverAnswerError", "PysmtSyntaxError"):
                return None
            if e["type"] == "UnknownSolverAnswerError" and "(error" not in e["msg"]:
                return None
            if (rep.startswith('(error "unknown sort') or rep.startswith('(error "ill-formed sort')) \
                    and any(x["name"] == "declare-sort" and "{" in (x["cmd"] or "") for x in obs["log"]):
                keys.append("parametric-sort-declared-per-instance")
            elif rep.startswith('(error "unknown symbol'):
                name = rep.split(":", 1)[1].strip().rstrip(')').rstrip('"').strip().strip("|")
                if (ill[0].get("cmd") or "").startswith("(get-value") and e["type"] == "PysmtSyntaxError" \
                        and h[e["at"]][0] == "get_value" and name in syms(h[e["at"]][1]) and name not in ideal.declared():
                    keys.append("get-value-undeclared-symbol")
                elif ideal.reset_seen and name in ideal.declared_before_reset:
                    keys.append("reset-keeps-declaration-record")
                elif ideal.multi:
                    keys.append("push-pop-n-records-one-level")
                else:
                    return None
            elif rep.startswith('(error "symbol already declared') and ideal.multi:
                keys.append("push-pop-n-records-one-level")
            else:
                return None
        elif e["type"] == "UnknownSolverAnswerError" and e["msg"] in ("Solver returned: ''", "Solver returned: ") \
                and e["prev_cmd"] == "get-value" and (e["prev_reply"] or "").startswith("(("):
            keys.append("desync-after-get-value")
        elif e["type"] in ("PysmtSyntaxError", "AssertionError", "PysmtTypeError", "UndefinedSymbolError") \
                and h[e["at"]][0] in ("get_value", "get_model") \
                and e["last_cmd"] == "get-value" and (obs["log"][-1]["reply"] or "").startswith("((") \
                and "(as " in (obs["log"][-1]["reply"] or ""):
            keys.append("custom-sort-value-unparsed")
        elif e["type"] == "IndexError" and ideal.multi:
            keys.append("push-pop-n-records-one-level")
        else:
            return None
    out = []
    for k in keys:
        if k not in out:
            out.append(k)
    return out or None


# ------------------------------------------------------------------------------------------
# Coq literals
# ------------------------------------------------------------------------------------------
def coq_syms(names, keep_order=False):
    return "[" + "; ".join(str(SYM_ID[n]) for n in (names if keep_order else sorted(names))) + "]"


def coq_annotated(names):
    """[(sym, None); (sym, Some sort)] in the given order."""
    def one(n):
        so = SYM_SORT[n]
        return "(%d, %s)" % (SYM_ID[n], "Some %d" % SORT_ID[so[2:]] if is_usort(so) else "None")
    return "[" + "; ".join(one(n) for n in names) + "]"


def coq_history(h, fvs, sorts=None):
    sorts = sorts or {}
    out = []
    for k, call in enumerate(h):
        kind = call[0]
        fv = fvs[k] if k < len(fvs) and fvs[k] is not None else None
        if kind in ("add", "is_sat", "is_valid", "is_unsat"):
            names = fv if fv is not None else sorted(syms(call[1]))
            # custom sorts of the asserted formula as the implementation's type walk reports them
            # (sort symbols: an instance counts as its declaration); fall back to the harness AST
            srt = sorts.get(k)
            if srt is None:
                srt = sorted(PARAM_SORTS[x][0] if x in PARAM_SORTS else x for x in sorts_in(call[1]))
            atom = "(FAtom %d %s [%s])" % (k, coq_annotated(names), "; ".join(str(SORT_ID[x]) for x in srt if x in SORT_ID))
            # the free symbols were taken from the formula that is really asserted (Not f for
            # is_valid), so the model's FNot wrapper changes nothing
            out.append({"add": "AAdd", "is_sat": "AIsSat", "is_valid": "AIsValid", "is_unsat": "AIsUnsat"}[kind] + " " + atom)
        elif kind == "push":
            out.append("APush %d" % call[1])
        elif kind == "pop":
            out.append("APop %d" % call[1])
        elif kind == "solve":
            out.append("ASolve")
        elif kind == "reset":
            out.append("AReset")
        elif kind == "get_value":
            names = fv if fv is not None else sorted(syms(call[1]))
            out.append("AGetValue %s" % coq_syms(names))
        elif kind == "get_model":
            out.append("AGetModel")
    return "[" + "; ".join(out) + "]"


def coq_commands(log):
    out = []
    for e in log:
        n = e["name"]
        names = [x for x in e["symbols"]]
        if any(x not in SYM_ID for x in names):
            return None
        if n == "set-option":
            out.append("CSetOption")
        elif n == "set-logic":
            out.append("CSetLogic")
        elif n in ("declare-fun", "declare-const"):
            try:
                sx = smtref.read_all(e["cmd"])[0]
                so = sx[3] if n == "declare-fun" else sx[2]
            except Exception:
                return None
            if isinstance(so, list) and so and so[0] != "_" and str(so[0]) in SORT_ID:
                out.append("CDeclare %d (Some %d)" % (SYM_ID[names[0]], SORT_ID[str(so[0])]))
            elif isinstance(so, list) or str(so) in ("Bool", "Int"):
                out.append("CDeclare %d None" % SYM_ID[names[0]])
            elif str(so) in SORT_ID:
                out.append("CDeclare %d (Some %d)" % (SYM_ID[names[0]], SORT_ID[str(so)]))
            else:
                return None
        elif n == "declare-sort":
            try:
                sx = smtref.read_all(e["cmd"])[0]
            except Exception:
                return None
            if str(sx[1]) not in SORT_ID:
                return None
            out.append("CDeclareSort %d" % SORT_ID[str(sx[1])])
        elif n == "assert":
            out.append("CAssert (FAtom 0 (plain %s) [])" % coq_syms(names))
        elif n == "push":
            out.append("CPush %d" % int(e["args"]))
        elif n == "pop":
            out.append("CPop %d" % int(e["args"]))
        elif n == "check-sat":
            out.append("CCheckSat")
        elif n == "get-value":
            out.append("CGetValue %s" % coq_syms(names))
        elif n == "reset-assertions":
            out.append("CResetAssertions")
        elif n == "exit":
            out.append("CExit")
        else:
            return None
    return "[" + "; ".join(out) + "]"


HDR = ("From Coq Require Import List Bool Arith.\nFrom PySMT.core Require Import CaseUtil.\n"
       "From PySMT.models Require Import SmtLibSolver.\nImport ListNotations.\n")


# ------------------------------------------------------------------------------------------
# the check
# ------------------------------------------------------------------------------------------
def show_history(h):
    def one(c):
        if c[0] in ("add", "is_sat", "is_valid", "is_unsat", "get_value"):
            return "%s(%s)" % (c[0], show_term(c[1]))
        if c[0] in ("push", "pop"):
            return "%s(%d)" % c
        return c[0] + "()"
    return "; ".join(one(c) for c in h)


def show_term(t):
    if not isinstance(t, (tuple, list)):
        return str(t)
    if t[0] == "var":
        return t[1]
    if t[0] in ("iconst", "bvconst"):
        return str(t[1])
    if len(t) == 1:
        return t[0]
    if t[0] in ("exists", "forall"):
        return "%s([%s], %s)" % (t[0], ", ".join("%s:%s" % (n, SYM_SORT[n][2:]) for n in t[1]), show_term(t[2]))
    if t[0] == "constarr":
        return "Array(%s, %s)" % (t[1][2:], show_term(t[2]))
    return "%s(%s)" % (t[0], ", ".join(show_term(x) for x in t[1:]))


def repro_snippet(h):
    lines = ["# PYTHONPATH=/repo:/verif /venv/bin/python -m harness.main C17 --replay <this file>",
             "env.factory.add_generic_solver('smtref', ['/venv/bin/python', '/verif/harness/smtref.py', '--log', LOG, '--int-range', '4'], [QF_AUFBVLIRA])",
             "s = Solver(name='smtref', logic=QF_AUFBVLIRA)"]
    for c in h:
        if c[0] == "add":
            lines.append("s.add_assertion(%s)" % show_term(c[1]))
        elif c[0] in ("is_sat", "is_valid", "is_unsat", "get_value"):
            lines.append("s.%s(%s)" % (c[0], show_term(c[1])))
        elif c[0] in ("push", "pop"):
            lines.append("s.%s(%d)" % c)
        elif c[0] == "reset":
            lines.append("s.reset_assertions()")
        else:
            lines.append("s.%s()" % c[0])
    return "\n".join(lines)


def report(chk, h, mode, obs, fails, key, extra=None):
    rep = {"kind": "history", "history": [list(c) for c in h], "mode": mode,
           "shown": show_history(h) if mode == "incremental" else
                    ("%s   [call %s is expected to FAIL; the later calls must behave as if it had not been made]" % (show_history(h), mode.split(":")[1])
                     if mode.startswith("fault:") else "env.factory.%s(%s, solver_name='smtref')" % (h[0][0], show_term(h[0][1]))), "repro": repro_snippet(h) if mode != "shortcut" else "env.factory.%s(%s, solver_name='smtref')" % (h[0][0], show_term(h[0][1])),
           "failures": fails, "observed": {"exception": obs["exc"], "results": obs["results"], "commands": [(e["cmd"], e["reply"]) for e in obs["log"]]},
           "expected": "legal stream (no (error ...) reply), no exception, verdict = brute force over live assertions, model binds every live symbol and satisfies the live assertions",
           "oracle": "strict reference solver log + harness brute force"}
    if extra:
        rep.update(extra)
    return chk.violation(rep, key=key)


def shrink(h, pred, budget=40):
    """Greedy removal of calls while pred(h) still holds and h stays user-legal."""
    cur = list(h)
    changed = True
    while changed and budget > 0:
        changed = False
        for i in range(len(cur)):
            cand = cur[:i] + cur[i + 1:]
            if not cand or not admissible(cand):
                continue
            budget -= 1
            if budget <= 0:
                break
            if pred(cand):
                cur = cand
                changed = True
                break
    return cur


def run(tier):
    global SYMS_OF
    chk = lib.Check("C17", tier)
    rnd = random.Random(chk.seed)
    SYMS_OF = _make_symfun()
    ok = chk.prove()
    lib.clean_cases(chk.dir)
    logdir = lib.mkdir(os.path.join(chk.dir, "logs"))
    for f in os.listdir(logdir):
        try:
            os.remove(os.path.join(logdir, f))
        except OSError:
            pass

    # ---------------- histories --------------------------------------------------------
    jobs = []       # (history, mode)
    tags = []
    for name, h in WITNESSES:
        jobs.append((h, "incremental"))
        tags.append("witness:" + name)
    enum = enumerated_histories(3 if tier == "quick" else 4)
    if tier == "quick" and len(enum) > 440:
        short = [h for h in enum if len(h) <= 2]
        long_ = [h for h in enum if len(h) > 2]
        enum = short + rnd.sample(long_, 440 - len(short))
    for h in enum:
        jobs.append((h, "incremental"))
        tags.append("enum")
    nrand = {"fragment": 260, "values": 110, "modeldepth": 90, "multi": 160, "reset": 90, "mixed": 100, "valuefree": 40} if tier == "quick" else \
            {"fragment": 3500, "values": 1500, "modeldepth": 800, "multi": 2000, "reset": 1200, "mixed": 1500, "valuefree": 300}
    for cls, n in nrand.items():
        for _ in range(n):
            # every family sometimes draws from the large pool (formulas with 7..33 free symbols)
            wide = cls != "valuefree" and rnd.random() < 0.25
            # ... and sometimes uses custom sorts and colliding / odd names
            names = cls != "valuefree" and rnd.random() < 0.15
            jobs.append((random_history(rnd, cls, wide=wide, names=names), "incremental"))
            tags.append("random:" + cls + ("-wide" if wide else "") + ("-names" if names else ""))
    for fam, gen, n in (("poplevels", poplevels_history, 200 if tier == "quick" else 3000),
                        ("widemodel", widemodel_history, 60 if tier == "quick" else 800),
                        ("names", names_history, 200 if tier == "quick" else 2500),
                        ("sortpos", sortpos_history, 160 if tier == "quick" else 2500),
                        ("paramsort", paramsort_history, 16 if tier == "quick" else 120),
                        ("sortvalue", sortvalue_history, 12 if tier == "quick" else 60)):
        for _ in range(n):
            jobs.append((gen(rnd), "incremental"))
            tags.append(fam)
    for _ in range(140 if tier == "quick" else 2000):
        hf, kf = fault_history(rnd)
        jobs.append((hf, "fault:%d" % kf))
        tags.append("fault")
    nshort = 70 if tier == "quick" else 700
    for k in range(nshort):
        if k % 7 == 0:      # one-shot shortcuts on formulas with many symbols
            jobs.append(([(rnd.choice(["is_sat", "get_model", "get_model"]), gen_wide(rnd, wide_names(rnd, pick_size(rnd))))], "shortcut"))
            tags.append("shortcut")
            continue
        pool = rnd.choice([["b0", "b1"], ["b0", "v0"], ["b0", "i0"], ["v0", "v1"], ["i0", "i1"]])
        jobs.append(([(rnd.choice(["is_sat", "is_valid", "is_unsat", "get_model"]), gen_formula(rnd, pool))], "shortcut"))
        tags.append("shortcut")
    sizes = {}
    for (h, _m) in jobs:
        for c in h:
            if c[0] in ("add", "is_sat", "is_valid", "is_unsat", "get_value", "get_model") and len(c) > 1:
                k = len(syms(c[1]))
                b = "1-6" if k < 7 else ("%d" % k if k in WIDE_SIZES else ("10-14" if k < 15 else ("18-30" if k < 31 else ">33")))
                sizes[b] = sizes.get(b, 0) + 1
    chk.cov["formula_sizes_in_free_symbols"] = sizes
    chk.cov["family_sizes"] = {t: tags.count(t) for t in sorted(set(tags)) if not t.startswith("witness")}
    chk.note("running %d histories on the implementation (enumerated %d)" % (len(jobs), len(enum)))
    res, aborted = run_all(jobs, logdir)
    chk.note("implementation runs done (%d results%s)" % (len(res), "; stopped early after repeated watchdog timeouts" if aborted else ""))

    # ---------------- oracle -----------------------------------------------------------
    stats = {}
    pending_reports = []     # (index, fails, key)
    lost = [] if aborted and any(o.get("timeout") for o in res.values()) else [i for i in range(len(jobs)) if i not in res]
    for i in lost[:3]:
        chk.violation({"kind": "history", "what": "no result from the worker (hung or crashed): blocked pipe?", "history": [list(c) for c in jobs[i][0]],
                       "shown": show_history(jobs[i][0])}, key=None)
    for i, (h, mode) in enumerate(jobs):
        if i not in res:
            continue
        obs = res[i]
        chk.count((mode, repr(h)), nontrivial=len(h) > 0)
        fails, key = obs["fails"], obs["key"]
        cls = tags[i].split(":")[0] + (":" + tags[i].split(":")[1] if tags[i].startswith("random") else "")
        st = stats.setdefault(cls, {"run": 0, "clean": 0, "known": {}, "unknown": 0})
        st["run"] += 1
        if not fails:
            st["clean"] += 1
        elif key:
            for kk in key:
                st["known"][kk] = st["known"].get(kk, 0) + 1
        else:
            st["unknown"] += 1
        if fails:
            pending_reports.append((i, fails, key))
    chk.cov["history_classes"] = stats
    chk.note("oracle done (%d histories with failures)" % len(pending_reports))
    for i in (0, 5, len(WITNESSES) + 7, len(jobs) - nshort - 3):
        if 0 <= i < len(jobs) and i in res:
            chk.sample({"history": show_history(jobs[i][0]), "class": tags[i], "commands": [e["cmd"] for e in res[i]["log"]][:14],
                        "results": str(res[i]["results"])[:200], "exception": res[i]["exc"]})

    # the fragment on which the theorems hold must be completely clean on the implementation
    # (any failure there is reported below like every other failure)

    # ---------------- correspondence with the Coq model --------------------------------
    cases = []      # (job index, literal)
    untranslatable = []
    for i, (h, mode) in enumerate(jobs):
        if mode != "incremental" or i not in res:
            continue
        obs = res[i]
        if obs["timeout"]:
            continue
        if obs.get("key") and ("custom-sort-value-unparsed" in obs["key"] or "parametric-sort-declared-per-instance" in obs["key"]):
            continue    # not modelled: reading abstract values of custom sorts / the defective
            #             declaration of sort symbols with arguments (open findings)
        cl = coq_commands(obs["log"])
        if cl is None:
            untranslatable.append(i)
            continue
        cases.append((i, "(%s, %s, %s)" % (coq_history(h, obs["fvs"], obs.get("sorts")), cl, lib.coq_bool(obs["exc"] is not None))))
    files, meta = [], {}
    for k in range(0, len(cases), 120):
        body = HDR + "Definition cases : list (list api_call * list command * bool) := [\n %s ].\n" % ";\n ".join(c for _, c in cases[k:k + 120])
        body += "Eval vm_compute in mismatches case_ok cases.\n"
        p = os.path.join(chk.dir, "cases_%d.v" % (k // 120))
        open(p, "w").write(body)
        files.append(p)
        meta[p] = [i for i, _ in cases[k:k + 120]]
    corr_bad = []
    corr_bad_idx = set()
    if os.path.exists(os.path.join(lib.COQ, "models", "SmtLibSolver.vo")):
        out = lib.run_case_files(files)
        for p, (rc, txt) in out.items():
            mm = lib.parse_nat_list(txt) if rc == 0 else None
            if mm is None:
                corr_bad.append({"file": p, "error": txt[-400:]})
            else:
                for j in mm:
                    corr_bad_idx.add(meta[p][j])
    else:
        corr_bad.append({"error": "models/SmtLibSolver.v does not compile"})
    for i in untranslatable:
        corr_bad_idx.add(i)
    chk.cov["correspondence"] = {"cases": len(cases), "compared": "canonical command stream seen by the reference solver + raised flag vs `observed h` of the model",
                                 "disagreements": len(corr_bad_idx) + len(corr_bad)}
    chk.note("correspondence: %d cases, %d disagreements" % (len(cases), len(corr_bad_idx) + len(corr_bad)))

    # ---------------- reporting --------------------------------------------------------
    # a failure whose behaviour the faithful model predicts and whose shape is a known finding is
    # reported under its key; everything else is a violation with the (shrunk) history
    reported_keys = set()
    nrep = 0
    def weight(x):      # simplest histories first: few symbols, then few calls
        hh = jobs[x[0]][0]
        return (sum(len(syms(c[1])) for c in hh if len(c) > 1 and isinstance(c[1], (tuple, list))), len(hh), x[0])
    for i, fails, key in sorted(pending_reports, key=weight):
        h, mode = jobs[i]
        if i in corr_bad_idx:
            key = None
        if key is not None:
            # shortest history first (sorted above): it is the minimal reproduction in this run
            for kk in key:
                if kk not in reported_keys:
                    reported_keys.add(kk)
                    report(chk, h, mode, res[i], fails, kk)
            continue
        if nrep >= 6:
            chk.violations.append((None, True))
            continue
        nrep += 1
        hs = h
        if mode == "incremental" and len(h) > 2 and not any(f["kind"] == "blocked-pipe" for f in fails):
            kinds0 = sorted(set(f["kind"] for f in fails))

            def pred(c):
                o = run_history(c, os.path.join(logdir, "shrink.jsonl"))
                fl = oracle(c, o)
                open_keys = set(k["key"] for k in lib.load_known() if k.get("property") == "C17" and k.get("status") == "open")
                dk = diagnose(c, o, fl) if fl else None
                # keep shrinking only while the failure is not (just) an open known finding
                return bool(fl) and not (dk and set(dk) <= open_keys) and sorted(set(f["kind"] for f in fl)) == kinds0
            try:
                hs = shrink(h, pred)
            except Exception:
                hs = h
        o2 = run_history(hs, os.path.join(logdir, "shrink.jsonl"), mode) if hs is not h else res[i]
        f2 = (oracle(hs, o2) if mode == "incremental" else shortcut_oracle(hs, o2)) if hs is not h else fails
        report(chk, hs, mode, o2, f2, None, {"original_history": show_history(h), "class": tags[i],
                                             "model_agrees": i not in corr_bad_idx})
    # correspondence disagreements on histories where the property-level oracle saw nothing
    silent = sorted(corr_bad_idx - set(i for i, _, _ in pending_reports))
    if (not ok or corr_bad or silent) and not chk.violations:
        what = []
        if not ok:
            what.append("proof obligations no longer check: " + lib.proof_failure_summary(chk))
        for i in silent[:3]:
            what.append({"correspondence": "model and implementation differ" if i not in untranslatable else
                         "the logged command stream could not be translated for the model (unknown command / symbol / unparsable log line)",
                         "history": show_history(jobs[i][0]), "history_calls": [list(c) for c in jobs[i][0]],
                         "implementation_commands": [e["cmd"] for e in res[i]["log"]], "raised": res[i]["exc"],
                         "log_partial": res[i].get("log_partial")})
        what += corr_bad[:2]
        chk.violation({"kind": "obligation", "theorem_or_correspondence": what}, found_input=False)
    return chk.finish(TRUSTED, ASSUMPTIONS, RULE)


def fault_oracle(h, k, obs):
    """C15 on a solver object: call k fails; every LATER call must behave as on a twin solver
    that never saw the failing call.  The twin is the user's view of the history without call k
    (verdicts by brute force, no exception, legal stream): the commands logged during the failing
    call are taken out of the log and the usual oracle runs on the rest."""
    f = obs.get("fault")
    if f is None:
        return oracle(h[:k], obs) if obs["exc"] or obs["timeout"] else [{"kind": "uninterpretable-observation", "what": "the failing call was not reached"}]
    n0, n1 = obs.get("fault_span", (0, 0))
    h2 = h[:k] + h[k + 1:]
    o2 = dict(obs)
    # the raw log starts at record 0; the harness dropped nothing before n1 (only a trailing exit)
    o2["log"] = obs["log"][:n0] + obs["log"][n1:]
    o2["results"] = obs["results"][:k] + obs["results"][k + 1:]
    o2["fvs"] = obs["fvs"][:k] + obs["fvs"][k + 1:]
    if obs["exc"] is not None and obs["exc"]["at"] > k:
        o2["exc"] = dict(obs["exc"], at=obs["exc"]["at"] - 1)
    fails = oracle(h2, o2)
    for x in fails:
        x["after_failing_call"] = {"index": k, "call": show_history([h[k]]), "raised": f}
        if isinstance(x.get("at"), int) and x["at"] >= k:
            x["at"] += 1
    return fails


def fault_history(rnd):
    """A call that FAILS in the middle of a history that goes on.  Failing kinds: an assertion the
    strict solver refuses after it accepted the declarations the assertion needed (an unknown
    operator, a Real-sorted subterm or symbol, a non-Boolean formula), a value query when no sat
    answer is current, pop below level 0.  The failing call mentions symbols (and sometimes a custom
    sort) that occur there for the first time; 1-4 legal calls follow that mention them again, at the
    same level, after a push, after a pop."""
    ideal = Ideal()
    h = []

    def do(call):
        ideal.step(call)
        h.append(call)

    base = rnd.sample(["b0", "b1", "v0", "i1"], 2)
    fresh_int, fresh_bool = rnd.choice(["i0", "k0", "k1"]), rnd.choice(["b2", "p0", "p1", "S"])
    sn = rnd.choice(["S", "T", "p1", "e0"])
    # prefix
    for _ in range(rnd.choice([0, 1, 2])):
        do(("add", gen_wide(rnd, rnd.sample(base, rnd.choice([1, 2])))))
    if rnd.random() < 0.4:
        do(("push", rnd.choice([1, 2])))
        if rnd.random() < 0.5:
            do(("add", gen_wide(rnd, [rnd.choice(base)])))
    if rnd.random() < 0.3 and ideal.cheap():
        do(("solve",))
    # the failing call
    kind = rnd.choice(["refused-assert"] * 5 + ["value-not-sat", "value-not-sat", "pop-below-0", "pop-below-0"])
    new = []
    if kind == "refused-assert":
        yi, yb = ("var", fresh_int), ("var", fresh_bool)
        bad = rnd.choice([
            ("eq", ("pow", yi, 2), ("iconst", 4)),
            ("toreal_le", yi, 1),
            ("and", ("not", yb), ("eq", ("pow", yi, 2), ("iconst", 1))),
            ("toreal_le", ("var", "rr0"), 1),
            ("and", ("not", yb), ("and", ("toreal_le", ("var", "rr0"), 2), ("le", yi, ("iconst", 0)))),
            ("plus", yi, ("iconst", 1)),                                    # not Boolean
        ])
        new = [fresh_int, fresh_bool]
        if rnd.random() < 0.35:     # a custom sort (and its elements) first seen in the failing call too
            bad = ("and", wide_literal(rnd, SORT_ELEMS[sn][0], True), bad) if bad[0] != "plus" else bad
            new += SORT_ELEMS[sn]
        fcall = (rnd.choice(["add", "add", "add", "is_sat"]), bad)
    elif kind == "value-not-sat":
        # no sat answer is current: nothing checked yet, or an assertion / push since the last check
        if not ideal.declared() or ideal.sat_mode:
            do(("add", gen_wide(rnd, [rnd.choice(base)])))
        if rnd.random() < 0.5:
            fcall = ("get_value", ("var", rnd.choice(sorted(ideal.declared()))))
        else:
            fcall = ("get_model",)
        new = [fresh_bool]
    else:
        fcall = ("pop", ideal.depth() + rnd.choice([1, 1, 2]))
        new = [fresh_bool]
    k = len(h)
    h.append(fcall)
    # continuation: legal calls that mention the symbols first seen in the failing call
    n = rnd.choice([1, 2, 3, 4])
    between = rnd.choice([None, None, "push", "pop", "push-pop"])
    if between in ("push", "push-pop"):
        do(("push", 1))
    if between == "pop" and ideal.depth() > 0:
        do(("pop", 1))
    for j in range(n):
        names = [x for x in rnd.sample(new, min(len(new), rnd.choice([1, 2]))) if SYM_SORT[x] != "Real"] or [fresh_bool]
        names = list(dict.fromkeys(names + rnd.sample(base, rnd.choice([0, 1]))))
        r = rnd.random()
        f = gen_wide(rnd, names)
        if r < 0.55:
            do(("add", f))
        elif r < 0.75 and ideal.cheap([f]):
            do(("is_sat", f))
        elif r < 0.9 and ideal.cheap():
            do(("solve",))
        else:
            do(("add", f))
        if between == "push-pop" and j == 0 and ideal.depth() > 0:
            do(("pop", 1))
    if ideal.cheap():
        do(("solve",))
        if ideal.sat_mode and not any(is_usort(SYM_SORT[x]) for x in ideal.declared() | set(new)):
            if rnd.random() < 0.5:
                do(("get_value", ("var", rnd.choice(names))))
            do(("get_model",))
    return h, k


def run_fault_family(chk, rnd, n):
    """The `fault` family alone, for another property's check (C15: a failing call on a SOLVER object
    leaves no trace): n histories in which one call fails and the history goes on, run on the real
    SmtLibSolver against harness/smtref.py in worker processes (each worker waits for / kills its
    solver process on every path; the pool is torn down on exit), judged by the twin oracle only -
    no Coq case files.  Violations are reported through `chk` with key prefix `solver-fault:`.
    Returns {"run", "failing_calls", "with_trace"}."""
    global SYMS_OF
    if SYMS_OF is _plain_syms:
        SYMS_OF = _make_symfun()
    logdir = lib.mkdir(os.path.join(chk.dir, "solver_fault_logs"))
    jobs = []
    for _ in range(n):
        hf, kf = fault_history(rnd)
        jobs.append((hf, "fault:%d" % kf))
    stats = {"run": 0, "failing_calls": 0, "with_trace": 0}
    try:
        res, _aborted = run_all(jobs, logdir)
    finally:
        for f in os.listdir(logdir):
            try:
                os.remove(os.path.join(logdir, f))
            except OSError:
                pass
    todo = []
    for i, (h, mode) in enumerate(jobs):
        obs = res.get(i)
        if obs is None:
            continue
        stats["run"] += 1
        chk.count(("solver-fault", repr(h)))
        if (obs.get("fault") or {}).get("type"):
            stats["failing_calls"] += 1
        if obs.get("fails"):
            stats["with_trace"] += 1
            todo.append((i, obs))
    todo.sort(key=lambda x: (len(jobs[x[0]][0]), x[0]))
    for i, obs in todo:
        if hasattr(chk, "enough") and chk.enough():
            break
        h, mode = jobs[i]
        k = int(mode.split(":")[1])
        fails = obs["fails"]
        key = "solver-fault:%s:%s" % (h[k][0], "+".join(sorted(set(f["kind"] for f in fails))))
        chk.violation({"kind": "history", "history": [list(c) for c in h], "mode": mode,
                       "what": "a failing call on a SmtLibSolver object left a trace: a later call differs from the twin that never made it",
                       "shown": "%s   [call %d is expected to FAIL; the later calls must behave as if it had not been made]" % (show_history(h), k),
                       "failing_call": obs.get("fault"), "repro": repro_snippet(h), "failures": fails,
                       "observed": {"exception": obs["exc"], "results": obs["results"], "commands": [(e["cmd"], e["reply"]) for e in obs["log"]]},
                       "expected": "every call after the failing one returns what it returns on a solver that never made the failing call (verdicts by brute force, no exception, legal stream)",
                       "oracle": "strict reference solver harness/smtref.py + harness brute force (harness/c17.py fault family)",
                       "replay_with": "./check C17 --replay <this file>"}, key=key)
    return stats


def shortcut_oracle(h, obs):
    name, f = h[0]
    fails = []
    for e in obs["log"]:
        if e["reply"] is not None and e["reply"].startswith("(error"):
            fails.append({"kind": "illegal-stream", "cmd": e["cmd"], "reply": e["reply"]})
            break
    if obs["timeout"]:
        fails.append({"kind": "blocked-pipe", "what": str(obs["exc"])})
    if obs["exc"] is not None and not obs["timeout"]:
        fails.append({"kind": "exception", "at": 0, "type": obs["exc"]["type"], "msg": obs["exc"]["msg"]})
        return fails
    if not obs["results"]:
        return fails
    r = obs["results"][0]
    sat = brute_sat([f])
    if name == "is_sat" and r != sat:
        fails.append({"kind": "wrong-verdict", "what": "is_sat returned %r, brute force %r" % (r, sat)})
    if name == "is_unsat" and r != (not sat):
        fails.append({"kind": "wrong-verdict", "what": "is_unsat returned %r, brute force sat=%r" % (r, sat)})
    if name == "is_valid":
        valid = not brute_sat([("not", f)])
        if r != valid:
            fails.append({"kind": "wrong-verdict", "what": "is_valid returned %r, brute force %r" % (r, valid)})
    if name == "get_model":
        if (r is None) != (not sat):
            fails.append({"kind": "wrong-verdict", "what": "get_model returned %r, brute force sat=%r" % (r, sat)})
        elif r is not None:
            envm = {n: _norm(v) for n, v in r.items()}
            logged = set()
            for e in obs["log"]:
                if e["name"] == "assert":
                    logged |= set(e["symbols"])
            missing = sorted(logged - set(envm))
            full = {n: domain(so)[0] if so != "Int" else 0 for n, so in POOL if not is_usort(so) and so != "Real"}   # EagerModel's completion
            full.update(envm)
            if missing or not holds(f, full):
                fails.append({"kind": "model-incomplete", "missing": missing, "what": "model %r does not satisfy the formula" % (envm,)})
    return fails


def replay(path):
    global SYMS_OF
    SYMS_OF = _make_symfun()
    r = json.load(open(path))
    print(json.dumps({k: r[k] for k in r if k in ("shown", "failures", "key", "mode")}, indent=1, default=str))
    def tup(x):
        return tuple(tup(y) for y in x) if isinstance(x, list) else x
    if r.get("kind") != "history":
        hs = [e["history_calls"] for e in r.get("theorem_or_correspondence", []) if isinstance(e, dict) and e.get("history_calls")]
        if not hs:
            return run("quick")
        r = {"history": hs[0], "mode": "incremental"}
    h = [tup(c) for c in r["history"]]
    mode = r.get("mode", "incremental")
    logdir = lib.mkdir(os.path.join(lib.BUILD, "C17", "logs"))
    obs = run_history(h, os.path.join(logdir, "replay.jsonl"), mode)
    fails = oracle(h, obs) if mode == "incremental" else \
        (fault_oracle(h, int(mode.split(":")[1]), obs) if mode.startswith("fault:") else shortcut_oracle(h, obs))
    print("history:", show_history(h), obs.get("fault"))
    for e in obs["log"]:
        print("   %-60s -> %s" % (e["cmd"], e["reply"]))
    print("results:", obs["results"])
    print("exception:", obs["exc"])
    print("failures:", json.dumps(fails, indent=1, default=str))
    print("diagnosis:", diagnose(h, obs, fails) if mode == "incremental" else None)
    differs = False
    if mode == "incremental" and not obs["timeout"]:
        cl = coq_commands(obs["log"])
        if cl is None:
            print("correspondence: the logged stream cannot be translated for the model", obs.get("log_partial"))
            differs = True
        else:
            pth = os.path.join(lib.mkdir(os.path.join(lib.BUILD, "C17")), "cases_replay.v")
            open(pth, "w").write(HDR + "Definition cases : list (list api_call * list command * bool) := [\n (%s, %s, %s) ].\n"
                                 "Eval vm_compute in mismatches case_ok cases.\nEval vm_compute in observed (fst (fst (hd ([], [], false) cases))).\n"
                                 % (coq_history(h, obs["fvs"], obs.get("sorts")), cl, lib.coq_bool(obs["exc"] is not None)))
            rc, out = lib.coqc_file(pth)
            mm = lib.parse_nat_list(out) if rc == 0 else None
            differs = mm != []
            print("correspondence with the Coq model:", "agrees" if mm == [] else "DIFFERS", "" if mm == [] else out[-1500:])
    return 1 if (fails or differs) else 0
