"""C03, ABSORBING-OPERAND family: ill-sorted (and well-sorted twin) applications of the constructors that NORMALISE at
construction time, in which the other operands stand in the relation that triggers the normalisation - so that the
ill-sorted operand would be dropped, returned as it is, or folded away before any node is type-checked:

  singleton / nested-list argument lists of the n-ary constructors (And(x) returns x), quantifiers with an empty binder
  list (ForAll([], b) returns b), Pow / Div / ToReal / Times on constants (folded), array values whose assignment equals
  the default (dropped by VALUE), stores and selects on constant-array nodes at constant indexes, updates that overwrite
  an existing key, identical operands (x op x), zero steps / full ranges of the bit-vector shortcuts, Ite with identical
  branches.

Every case carries its verdict, computed from structural sort descriptors by the sorting rule of the operator (never by
running pysmt): None = the application is ill-sorted and must raise; otherwise the descriptor (the shape of
harness/tocoq.tkey) of the sort the returned term must have.  The same shapes are also written as SMT-LIB text.
"""
from fractions import Fraction

from pysmt.typing import BOOL, INT, REAL, STRING, ArrayType, BVType

LEGEND = ("a sort name = the symbol of that sort, '<sort> const' = TRUE / Int(2) / Real(5/2) / BV(3, 8) / String('a') / Array(INT, Int(0)); "
          "Int0 = Int(0), Real0 = Real(0), Int-1 = Int(-1), Int1 = Int(1); K(Int,0) = Array(INT, Int(0)), K(Int,0){1:5} = Array(INT, Int(0), {Int(1): Int(5)}), "
          "K(BV8,2.5) = Array(BVType(8), Real(5/2)), K(Int,true) = Array(INT, TRUE()); default = the very node that is the array's default, "
          "other = another constant of the element sort, wrong-sort = String('zz'); e.g. storefold:Store:(K(Int,0), Real, default) = "
          "Store(Array(INT, Int(0)), Real(5/2), Int(0))")
B, I, R, S8, ST = ("Bool",), ("Int",), ("Real",), ("BV", 8), ("String",)
AII = ("Array", I, I)
US = ("User", "S", ())
NUM = (I, R)


def pool(env):
    """[(label, descriptor, symbol, constant or None, SMT-LIB literal or None)]"""
    m, tm = env.formula_manager, env.type_manager
    us = tm.Type("S", 0)
    return [("Bool", B, m.Symbol("ab_b", BOOL), m.TRUE(), "true"), ("Int", I, m.Symbol("ab_i", INT), m.Int(2), "2"),
            ("Real", R, m.Symbol("ab_r", REAL), m.Real(Fraction(5, 2)), "2.5"), ("BV8", S8, m.Symbol("ab_v", BVType(8)), m.BV(3, 8), "#x03"),
            ("String", ST, m.Symbol("ab_s", STRING), m.String("a"), '"a"'),
            ("Array(Int,Int)", AII, m.Symbol("ab_a", ArrayType(INT, INT)), m.Array(INT, m.Int(0)), "((as const (Array Int Int)) 0)"),
            ("S", US, m.Symbol("ab_u", us), None, None)]


def cases(env):
    """Yields (key, thunk, want)."""
    m = env.formula_manager
    P = pool(env)

    def terms(e):
        lab, d, sym, const, _ = e
        out = [(lab, d, sym)]
        if const is not None:
            out.append((lab + " const", d, const))
        return out
    # ---- singleton / nested argument lists: the constructor returns its only argument
    nary = [("And", (B,), None), ("Or", (B,), None), ("Plus", NUM, None), ("Times", NUM, None), ("Min", NUM, None), ("Max", NUM, None),
            ("BVAnd", (S8,), None), ("BVOr", (S8,), None), ("BVAdd", (S8,), None), ("BVMul", (S8,), None),
            ("AtMostOne", (B,), B), ("ExactlyOne", (B,), B), ("AllDifferent", None, B)]      # BVXor / StrConcat have no 1-ary form
    for name, dom, res in nary:
        f = getattr(m, name)
        for e in P:
            for lab, d, x in terms(e):
                ok = dom is None or d in dom
                want = (res or d) if ok else None
                yield "single:%s:(%s)" % (name, lab), (lambda f=f, x=x: f(x)), want
                yield "single:%s:([%s])" % (name, lab), (lambda f=f, x=x: f([x])), want
                yield "single:%s:(%s for %s)" % (name, lab, lab), (lambda f=f, x=x: f(y for y in [x])), want
    for name in ("MinBV", "MaxBV"):
        for e in P:
            for lab, d, x in terms(e):
                for sign in (False, True):
                    yield "single:%s:(%s, %s)" % (name, sign, lab), (lambda name=name, sign=sign, x=x: getattr(m, name)(sign, x)), d if d == S8 else None
    # ---- empty binder list: the quantifier is its body
    for name in ("ForAll", "Exists"):
        for e in P:
            for lab, d, x in terms(e):
                yield "emptybinder:%s:([], %s)" % (name, lab), (lambda name=name, x=x: getattr(m, name)([], x)), B if d == B else None
                yield "emptybinder:%s:((), Not(%s))" % (name, lab), (lambda name=name, x=x: getattr(m, name)((), m.Not(x))), B if d == B else None
    # ---- folding of constants: Pow, Div, Times by the reciprocal, ToReal
    consts = [(e[0], e[1], e[3]) for e in P if e[3] is not None] + [("Int0", I, m.Int(0)), ("Real0", R, m.Real(0)), ("Int-1", I, m.Int(-1))]
    for la, da, a in consts:
        for lb, db, b in consts:
            ok = da == db and da in NUM
            if not (ok and la in ("Int0", "Real0") and lb == "Int-1"):            # 0 ** -1: ZeroDivisionError is another matter
                yield "powfold:Pow:(%s, %s)" % (la, lb), (lambda a=a, b=b: m.Pow(a, b)), R if ok else None
            if lb not in ("Int0", "Real0"):
                yield "divfold:Div:(%s, %s)" % (la, lb), (lambda a=a, b=b: m.Div(a, b)), da if ok else None
    for e in P:
        for lab, d, x in terms(e):
            for lb, db, b in consts:
                if x.is_constant():
                    continue
                if lb not in ("Int0", "Real0"):
                    yield "divfold:Div:(%s, %s)" % (lab, lb), (lambda x=x, b=b: m.Div(x, b)), d if (d == db and d in NUM) else None
                if db in NUM:
                    yield "powfold:Pow:(%s, %s)" % (lab, lb), (lambda x=x, b=b: m.Pow(x, b)), R if (d == db) else None
            # ToReal(Real term) returns the term: "Ignore casting of a Real" (stated in the constructor)
            yield "fold:ToReal:(%s)" % lab, (lambda x=x: m.ToReal(x)), R if d in NUM else None
    # ---- array values: an assignment equal to the default is dropped by VALUE; keys repeat; stores on array values
    arrs = [("K(Int,0)", m.Array(INT, m.Int(0)), I, I, m.Int(0), m.Int(7)),
            ("K(Int,0){1:5}", m.Array(INT, m.Int(0), {m.Int(1): m.Int(5)}), I, I, m.Int(0), m.Int(7)),
            ("K(BV8,2.5)", m.Array(BVType(8), m.Real(Fraction(5, 2))), S8, R, m.Real(Fraction(5, 2)), m.Real(1)),
            ("K(Int,true)", m.Array(INT, m.TRUE()), I, B, m.TRUE(), m.FALSE())]
    keys = [(la, da, a) for la, da, a in consts if la != "Array(Int,Int)"] + [("Int1", I, m.Int(1))]
    for ka, arr, di, de, dflt, other in arrs:
        adesc = ("Array", di, de)
        it = arr.array_value_index_type()
        for lk, dk, k in keys:
            for lv, v, dv in (("default", dflt, de), ("other", other, de), ("wrong-sort", m.String("zz"), ST)):
                ok = dk == di and dv == de
                yield "storefold:Store:(%s, %s, %s)" % (ka, lk, lv), (lambda arr=arr, k=k, v=v: m.Store(arr, k, v)), adesc if ok else None
                yield "arraydrop:Array:(%s default, {%s: %s})" % (ka, lk, lv), (lambda it=it, dflt=dflt, k=k, v=v: m.Array(it, dflt, {k: v})), adesc if ok else None
                if lk != "Int1":
                    yield "arraydrop:Array:(%s default, {%s: %s, Int1: default})" % (ka, lk, lv), \
                        (lambda it=it, dflt=dflt, k=k, v=v, one=m.Int(1): m.Array(it, dflt, {k: v, one: dflt})), adesc if (ok and di == I) else None
                # a store below a store: the inner one is well-sorted, the outer one is the case
                yield "storefold:Store:(Store(%s, ok, other), %s, %s)" % (ka, lk, lv), \
                    (lambda arr=arr, k=k, v=v, other=other, di=di: m.Store(m.Store(arr, (m.Int(1) if di == I else m.BV(1, 8)), other), k, v)), adesc if ok else None
            yield "storefold:Select:(%s, %s)" % (ka, lk), (lambda arr=arr, k=k: m.Select(arr, k)), de if dk == di else None
    # ---- identical operands, identical branches, zero steps / full ranges
    for e in P:
        for lab, d, x in terms(e):
            same = [("Equals", B if d != B else None), ("NotEquals", B if d != B else None), ("EqualsOrIff", B), ("Iff", B if d == B else None),
                    ("Implies", B if d == B else None), ("Xor", B if d == B else None), ("Minus", d if d in NUM else None),
                    ("LE", B if d in NUM else None), ("GE", B if d in NUM else None), ("BVSub", d if d == S8 else None),
                    ("BVXor", d if d == S8 else None), ("BVULE", B if d == S8 else None), ("BVComp", ("BV", 1) if d == S8 else None),
                    ("StrContains", B if d == ST else None), ("And", B if d == B else None), ("Plus", d if d in NUM else None)]
            for name, want in same:
                yield "same:%s:(%s, %s)" % (name, lab, lab), (lambda name=name, x=x: getattr(m, name)(x, x)), want
            for lc, dc, c in [(p[0], p[1], p[2]) for p in P]:
                yield "same:Ite:(%s, %s, %s)" % (lc, lab, lab), (lambda c=c, x=x: m.Ite(c, x, x)), d if dc == B else None
            for name, k in (("BVZExt", 0), ("BVSExt", 0), ("BVRol", 0), ("BVRor", 0), ("BVRol", 8), ("BVRepeat", 1)):
                if name == "BVRepeat":
                    continue                # BVRepeat(x, 1): the open finding ctor-accepts:BVRepeat is exercised by the width grid
                yield "zerostep:%s:(%s, %d)" % (name, lab, k), (lambda name=name, x=x, k=k: getattr(m, name)(x, k)), d if d == S8 else None
            yield "zerostep:BVExtract:(%s, 0, 7)" % lab, (lambda x=x: m.BVExtract(x, 0, 7)), d if d == S8 else None
            yield "zerostep:BVExtract:(%s, 0, None)" % lab, (lambda x=x: m.BVExtract(x, 0)), d if d == S8 else None
            yield "same:Not:(Not(%s))" % lab, (lambda x=x: m.Not(m.Not(x))), B if d == B else None


def scripts(env):
    """(key, SMT-LIB text, want) - the same shapes through the parser; the probe is the first argument of the asserted
    equality.  want: None = must be rejected, else the descriptor of the probe."""
    P = pool(env)
    decl = "(declare-sort S 0)\n" + "".join("(declare-fun x%d () %s)\n" % (i, t) for i, t in enumerate(
        ["Bool", "Int", "Real", "(_ BitVec 8)", "String", "(Array Int Int)", "S"]))
    K = "((as const (Array Int Int)) 0)"
    K1 = "(store %s 1 5)" % K
    for i, (lab, d, _, _, litx) in enumerate(P):
        for tag, t in (("sym", "x%d" % i), ("lit", litx)):
            if t is None:
                continue
            name = "%s %s" % (lab, tag)
            for ka, k in (("K", K), ("K{1:5}", K1)):
                for lv, v, dv in (("default", "0", I), ("other", "7", I), ("wrong-sort", '"zz"', ST)):
                    yield ("storefold:store:(%s, %s, %s)" % (ka, name, lv), decl + "(assert (= (store %s %s %s) (store %s %s %s)))\n" % (k, t, v, k, t, v),
                           AII if (d == I and dv == I) else None)
                yield "storefold:select:(%s, %s)" % (ka, name), decl + "(assert (= (select %s %s) (select %s %s)))\n" % (k, t, k, t), I if d == I else None
            for opn, dom in (("and", (B,)), ("or", (B,)), ("+", NUM), ("*", NUM), ("bvand", (S8,)), ("bvadd", (S8,))):
                yield "single:%s:(%s)" % (opn, name), decl + "(assert (= (%s %s) (%s %s)))\n" % (opn, t, opn, t), d if d in dom else None
            yield "fold:to_real:(%s)" % name, decl + "(assert (= (to_real %s) (to_real %s)))\n" % (t, t), R if d in NUM else None
            yield "divfold:/:(%s, 2.0)" % name, decl + "(assert (= (/ %s 2.0) (/ %s 2.0)))\n" % (t, t), R if (d == R or (d == I and tag == "lit")) else None
            for lb, b, db in (("2", "2", I), ("true", "true", B), ("#x02", "#x02", S8)):
                if tag == "lit":
                    yield ("powfold:pow:(%s, %s)" % (name, lb), decl + "(assert (= (pow %s %s) (pow %s %s)))\n" % (t, b, t, b),
                           R if (d == I and db == I) else None)
            yield "same:ite:(%s, 1, 1)" % name, decl + "(assert (= (ite %s 1 1) (ite %s 1 1)))\n" % (t, t), I if d == B else None
