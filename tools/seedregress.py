#!/usr/bin/env python3
"""Re-run every recorded seeded change against the CURRENT checks and the CURRENT /repo HEAD.
usage: tools/seedregress.py [PROP ...]   (default: all)  -- one scratch worktree per property under /tmp,
removed afterwards.  Writes seeded/<id>/meta.json["regression"] = {head, applies, demo_clean_rc,
demo_patched_rc, check_exit, n_violation_lines, first_violation_line, wall_s}."""
import glob, json, os, subprocess, sys, time
from concurrent.futures import ThreadPoolExecutor

def sh(cmd, cwd=None, env=None, timeout=5400):
    p = subprocess.run(cmd, shell=True, cwd=cwd, env=env, stdout=subprocess.PIPE, stderr=subprocess.STDOUT, text=True, timeout=timeout)
    return p.returncode, p.stdout

HEAD = sh("git -C /repo rev-parse --short HEAD")[1].strip()

def one_prop(prop):
    wt = "/tmp/seedreg_%s" % prop
    sh("git -C /repo worktree remove --force %s" % wt)
    rc, out = sh("git -C /repo worktree add -q --detach %s HEAD" % wt)
    assert rc == 0, out
    res = []
    try:
        for d in sorted(glob.glob("/verif/seeded/%s-*" % prop)):
            sid = os.path.basename(d)
            patch, demo = os.path.join(d, "patch.diff"), os.path.join(d, "demo.py")
            env = dict(os.environ, PYTHONPATH=wt, PYTHONHASHSEED="0")
            r = {"head": HEAD}
            sh("git checkout -q -- . ; git clean -fdq", cwd=wt)
            r["demo_clean_rc"] = sh("/venv/bin/python %s" % demo, cwd=wt, env=env, timeout=1800)[0]
            rc, out = sh("git apply %s" % patch, cwd=wt)
            r["applies"] = rc == 0
            if rc != 0:
                r["apply_error"] = out[-300:]
            else:
                r["demo_patched_rc"] = sh("/venv/bin/python %s" % demo, cwd=wt, env=env, timeout=1800)[0]
                t0 = time.time()
                cenv = dict(os.environ, VERIF_REPO=wt, VERIF_EVIDENCE_DIR="/verif/build/seed_evidence")
                rc, out = sh("./check %s --tier quick" % prop, cwd="/verif", env=cenv)
                viol = [l for l in out.split("\n") if l.startswith("VIOLATION")]
                r.update(check_exit=rc, n_violation_lines=len(viol), first_violation_line=(viol or [None])[0], wall_s=round(time.time() - t0, 1))
            sh("git checkout -q -- . ; git clean -fdq", cwd=wt)
            m = json.load(open(os.path.join(d, "meta.json")))
            m["regression"] = r
            json.dump(m, open(os.path.join(d, "meta.json"), "w"), indent=1, default=str)
            res.append((sid, r))
            print(sid, {k: r.get(k) for k in ("applies", "demo_clean_rc", "demo_patched_rc", "check_exit", "n_violation_lines", "wall_s")}, flush=True)
    finally:
        sh("git -C /repo worktree remove --force %s" % wt)
    return res

def main():
    props = sys.argv[1:] or ["C%02d" % i for i in range(1, 21)]
    with ThreadPoolExecutor(max_workers=int(os.environ.get("SEEDREG_JOBS", "4"))) as ex:
        list(ex.map(one_prop, props))
    sh("git -C /repo worktree prune")

main()
