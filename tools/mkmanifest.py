#!/usr/bin/env python3
"""Regenerates /verif/MANIFEST.json from the table below (kept here so the manifest stays valid)."""
import json, os
HERE = os.path.dirname(os.path.dirname(os.path.abspath(__file__)))
PROPS = [json.loads(l)["id"] for l in open(os.path.join(HERE, "properties.jsonl"))]

CLAIMED = {
 "C13": dict(
   technique="Coq proof over definitions regenerated from logics.py (complete enumeration of the 1728 well-formed theories and the named tables by vm_compute; generic induction for logic selection) + model/implementation correspondence",
   text="Theorems in coq/props/C13.v, re-checked on every run against gen/Logics.v, which a fail-closed translator regenerates from pysmt/logics.py: Theory.__le__ is a partial order and combine an upper bound on all well-formed theories; Logic.__le__ is a partial order on the named tables; get_closer_logic/most_generic_logic (hand model, correspondence-checked) return a supported logic above the target with none strictly between, for every admissible supported list. Detection (TheoryOracle) is covered by the model in models/TheoryOracle.v when present.",
   note="Trusted: Coq kernel + vm_compute, the Python-ast translator (validated against the implementation on sampled inputs each run), the hand model of the selection functions (correspondence). Well-formedness of theories is a hypothesis (combine is not an upper bound otherwise).",
   design="4 C13"),
}
NOT_YET = "machinery for this property is not built yet (work in progress, see DESIGN.md section 8)"

def main():
    checks, na = [], []
    for p in PROPS:
        if p in CLAIMED:
            c = CLAIMED[p]
            checks.append({
                "property_id": p,
                "quick_cmd": "./check %s --tier quick" % p,
                "thorough_cmd": "./check %s --tier thorough" % p,
                "evidence_file": "evidence/%s.json" % p,
                "replay_cmd_template": "./check %s --replay {path}" % p,
                "engine": "coq-proof+correspondence",
                "level_claimed": {"category": c.get("category", "proof"), "text": c["text"], "design_ref": c["design"]},
                "level_note": c["note"],
                "technique": c["technique"],
            })
        else:
            na.append({"property_id": p, "reason": NA.get(p, NOT_YET)})
    m = {
     "version": 1,
     "setup_cmd": "./check setup",
     "hooks": {"guard": "PYSMT_VERIF", "enable": "checks export PYSMT_VERIF=1 and import pysmt from /repo's working tree (no build step); no hook is currently needed", "baseline_off_cmd": "cd /repo && env -u PYSMT_VERIF /venv/bin/python -m pytest -ra -q -p no:cacheprovider --timeout=900 --continue-on-collection-errors", "source_commits": [], "add_only": True},
     "engines": [{"name": "coq-proof+correspondence", "path": "check", "serves_properties": sorted(CLAIMED), "kind_free_text": "Coq 8.16 development under coq/ (models, proofs, props) rebuilt on every run; translator harness/translate regenerates coq/gen from /repo; harness/cXX.py runs model (vm_compute inside coqc) and implementation on the same generated cases and searches the implementation for a failing input with an independent oracle"}],
     "checks": checks,
     "not_applicable": na,
     "notes": "See DESIGN.md. Every check: regenerate coq/gen from /repo, rebuild the property's Coq closure, run the correspondence, run the property-level oracle on the implementation; exit 1 + VIOLATION line on failure.",
    }
    json.dump(m, open(os.path.join(HERE, "MANIFEST.json"), "w"), indent=1)

NA = {}
if __name__ == "__main__":
    main()
