#!/usr/bin/env python3
"""Regenerates /verif/MANIFEST.json from the table below (kept here so the manifest stays valid)."""
import json, os
HERE = os.path.dirname(os.path.dirname(os.path.abspath(__file__)))
PROPS = [json.loads(l)["id"] for l in open(os.path.join(HERE, "properties.jsonl"))]

CLAIMED = {
 "C03": dict(
   technique="Coq proof: hand model of SimpleTypeChecker's rules proved sound and complete against declarative sorting rules (case analysis over every operator, all widths/payloads/arities) + exhaustive model/implementation correspondence at the create_node level + independent type derivation as oracle on constructor outputs",
   text="coq/props/C03.v: for every operator and every argument-sort tuple, the modelled checker accepts exactly what the declarative rules of core/Types.v accept (under the arity/width-payload shape the constructors establish and first-order argument sorts), with the same unique type; lifted bottom-up to formulas of any depth. The model is compared with type_checker.py on ~46k (operator, payload, sorts) tuples per run; every public constructor is called on every sort combination and its result re-typed by an independent derivation.",
   note="Trusted: Coq kernel, core/Types.v (specification), ctor_shape (what Python signatures and bv_width() computations guarantee), hand model tied by correspondence, harness/refeval.py type_of. Function-typed symbols accepted as arguments are a recorded open finding (tc_sound_refuted_function_argument).",
   design="4 C03"),
 "C12": dict(
   technique="Coq proof by structural induction over terms (free symbols = textbook definition; coincidence lemma against the semantic domain; atoms truth-functionality; qf-ness; size definitions) + model/implementation correspondence on generated formulas + independent recursive definitions as oracle",
   text="coq/props/C12.v: for every term, the modelled free-symbol set equals the declarative definition and the term's value (core/Sem.v) depends only on those symbols; the truth value of a quantifier-free Boolean term is a function of the values of the reported atoms; is_qf iff no quantifier node; the reported sort set = the sorts occurring in the term closed under component sorts; tree size/leaves/depth against independent definitions. Models of all five oracles are compared with pysmt/oracles.py as sets/numbers on generated formulas of all theories.",
   note="Trusted: Coq kernel, core/Sem.v (semantic specification; classical + real-number axioms of the standard library as reported by Print Assumptions), hand model tied by correspondence, tocoq.py.",
   design="4 C12"),
 "C13": dict(
   technique="Coq proof over definitions regenerated from logics.py (complete enumeration of the 1728 well-formed theories and the named tables by vm_compute; generic induction for logic selection) + model/implementation correspondence",
   text="Theorems in coq/props/C13.v, re-checked on every run against gen/Logics.v, which a fail-closed translator regenerates from pysmt/logics.py: Theory.__le__ is a partial order and combine an upper bound on all well-formed theories; Logic.__le__ is a partial order on the named tables; get_closer_logic/most_generic_logic (hand model, correspondence-checked) return a supported logic above the target with none strictly between, for every admissible supported list. Detection: for every term the theory computed by the model of TheoryOracle (models/TheoryOracle.v, correspondence-checked on generated formulas) enables every feature the term uses (C13_detect_covers, by induction over terms, one case per walk_* rule), is well-formed, and any logic above the detected pair covers the formula (C13_get_logic_covers); an independent feature extraction is run against get_logic on the implementation.",
   note="Trusted: Coq kernel + vm_compute, the Python-ast translator (validated against the implementation on sampled inputs each run), the hand models (correspondence). Well-formedness of theories is a hypothesis (combine is not an upper bound otherwise).",
   design="4 C13"),
 "C18": dict(
   technique="Coq proof over a hand model of optimizer.py (search interval, _optimize loop, boxed/lexicographic/pareto drivers, SUA and incremental mixins over the tracking solver's stack) for every sound and complete oracle (Section variable), plus trace-based model/implementation correspondence over a brute-force solver and an enumeration oracle",
   text="Theorems in coq/props/C18.v: for every satisfiable assertion set with attained optimum, Int / signed / unsigned BV / MaxSMT (integer weights) objectives, linear and binary search, SUA and push/pop mixins, optimize terminates (explicit fuel bound) with a model of the assertions whose value is the optimum, reports no solution iff unsat, and restores assertions and backtrack points; boxed exact; lexicographic optimum exact; Pareto front sound/complete/duplicate-free whenever the run ends; MinMax/MaxMin term = max/min of components.",
   note="Trusted: Coq kernel, oracle hypotheses solve_sound/solve_complete, BV value range, the hand model tied by full-trace correspondence each run, the harness evaluator. Pareto termination is a premise; Real objectives, unknown strategies and solver exceptions not modelled; mixed-theory objective terms raise KeyError (open finding).",
   design="4 C18"),
 "C19": dict(
   technique="Coq proof over a labelled-transition-system model of portfolio.py (invariants by induction on the schedule, all configurations and schedules; deadlock-freedom plus a strictly decreasing measure) + model/implementation correspondence on the real Portfolio with fault-injecting member processes under a watchdog, the model's outcome set computed per configuration by exhaustive exploration in vm_compute",
   text="PARTIAL by nature. Theorems in coq/props/C19.v over all schedules of the modelled events: the returned verdict is an answering member's (hence the agreed one); failures never become errors unless exit_on_exception; queries are served by the surviving winner; no reachable deadlock and termination while one member answers; 'all members fail -> error' is refuted (the parent blocks, for every schedule) with the partial version for exit_on_exception plus a raising member.",
   note="Cannot exhibit OS scheduling, SIGTERM latency (approximated by a flag; liveness needs latency=false) or multiprocessing stream corruption on terminate(); hand model tied by correspondence (154+ scenarios per run under a watchdog); three open findings (blocking when all members fail; shared control pipe).",
   design="4 C19"),
}

CLAIMED.update({
 "C05": dict(
   technique="Coq proof (structural induction on terms, coincidence lemma, one transparency lemma per constructor normalisation) + exact-equality model/implementation correspondence for both substitution strategies + independent evaluation of both sides of the substitution lemma",
   text="coq/props/C05.v: the substitution lemma is proved for the default (most-general) substituter on the fragment `frag` (every operator except Pow, array values, ToReal and BV rotate/extend) for all terms, symbol-keyed maps satisfying the capture proviso and all interpretations; for the most-specific substituter when no replacement is a negation; occurrences under a binder of the key are untouched (both strategies); a key is replaced before its sub-terms (most-general exactness). The MSS lemma and MGS/MSS coincidence on symbol keys are refuted by closed witnesses (open finding). Exactness on arbitrary keys, interpretations and type preservation are carried by the exact structural correspondence (~1600 cases per run) and the evaluation oracle.",
   note="Trusted: Coq kernel, core/Sem.v (classical/real axioms reported by Print Assumptions), models/Ctors.v (constructor normalisations, correspondence-checked), hand model tied by exact correspondence, harness/refeval.py. Not proved: interp_lemma, subst_typed, operators outside `frag`.",
   design="4 C05"),
 "C11": dict(
   technique="Coq proof over hand models of CNFizer, PolarityCNFizer and convert's clean-up (one structural induction per converter with witness k_g := eval I g, coincidence lemma for the fresh symbols) + exact-name model/implementation correspondence + truth-table / evaluation search; Ackermannization by model + correspondence + search",
   text="coq/props/C11.v: for every quantifier-free Boolean-structure term, manager state and interpretation: both CNF conversions return sets of clauses of literals; every model of the input extends on the fresh symbols to a model of the output; soundness under the exact computable criterion (see the props file for its current form). Ackermannization: the shape clause is refuted by a closed witness (open finding); its completeness/soundness are covered by correspondence and the evaluation search only.",
   note="Trusted: Coq kernel, core/Sem.v, hand models tied by correspondence (exact fresh names), simp_sound / shape_hyp hypotheses about the simplifier on theory atoms (C01's subject). Ackermannization has no soundness/completeness theorem.",
   design="4 C11"),
 "C16": dict(
   technique="Coq proof: hand models of SmtLibScript.get_last_formula/get_strict_formula and of the IncrementalTrackingSolver/pending_pop bookkeeping proved to refine an abstract SMT-LIB assertion stack for every legal command list (induction over the list, invariants over the backtrack structures) + exhaustive model/implementation correspondence on all command lists up to length 4 (5-6 thorough) plus random ones to length 60 + independent Python assertion-stack oracle",
   text="coq/props/C16.v: for every legal command list, what get_last_formula returns is exactly the live assertions and goals; get_strict_formula is characterised exactly; the tracking solver's `assertions` equals the live assertions after every step of every legal history with queries interleaved, and one-shot queries (solve with assumptions, is_sat, is_valid, is_unsat) restore it. Closed under the global context.",
   note="Trusted: Coq kernel, the spec AssertStack.v, hand models tied by correspondence (the MaxSMTGoal object represented by its position), the harness solver subclass written with the z3.py decorator pattern; options.incremental=True.",
   design="4 C16"),
 "C17": dict(
   technique="Coq proof on a protocol state-machine model (wrapper x strict SMT-LIB solver x reply pipe: refinement invariant by induction over API histories, exact reply-synchronisation criterion) + model/implementation correspondence on the real SmtLibSolver attached to an independent strict reference solver process",
   text="coq/props/C17.v for every API history: the emitted command stream is accepted by the strict solver spec, replies are attributed to the commands that caused them (exact criterion), solve / is_sat / is_valid / is_unsat return the solver's decision about exactly the user's live assertions, get_model covers the live symbols; clauses the current code violates are kept as refuted witnesses with their partial versions (open findings listed in known_findings.json).",
   note="Trusted: Coq kernel; hand model tied by correspondence every run; harness/smtref.py (strict reference solver, finite domains, Int in -4..4) and the harness evaluator; the external solver as hypotheses decide_correct / holds_not. Not modelled: behaviour after an exception, OS pipes, declare-sort, simplify() and the printer.",
   design="4 C17"),
})

CLAIMED.update({
 "C06": dict(
   technique="Coq proof: hand model of every derived FormulaManager constructor, shortcuts.Abs and the FNode infix forms, proved against core/Sem.v for all arities, values and widths (generic halving-recursion lemma for Min/Max, sign-case proof of bvsmod on Z, independent definition of each Python operator's meaning) + exact structural model/implementation correspondence on ~24k calls per run + independent evaluation vs direct Python definitions",
   text="coq/props/C06.v: each derived constructor (>=, >, !=, xor, min/max, at-most-one, exactly-one, all-different, abs, equals-or-iff, SBV, bvsmod, nand/nor/xnor, ugt/uge/sgt/sge, repeat, n-ary BV and/or/add/mul/concat, shifts by int) and each infix operator / method builds a term whose value is the named mathematical function, for all arities, values and bit-widths; the model's acceptance domain (when the call raises) is part of the statements.",
   note="Trusted: Coq kernel, core/Sem.v (standard-library classical/real axioms as reported), hand model tied by exact correspondence, harness/refeval.py and tocoq.py. Hypotheses: operand values of the stated sort, bv_width() equals the value's width, Not nodes are unary. Constant-cache cross-type hits are left to C14/C04.",
   design="4 C06"),
})

CLAIMED.update({
 "C07": dict(
   technique="Coq proof of the printer model against an s-expression-level SMT-LIB specification (core/SmtStd.v: term grammar, parallel let, binders, indexed identifiers, std_eval, std_script_ok) + token-exact model/implementation correspondence for both printers and the script + an independent SMT-LIB reader/evaluator (harness/smtread.py) with z3/cvc5 as second readers in the thorough tier",
   text="PARTIAL. coq/props/C07.v: tree-printer soundness (std_eval of the printed s-expression = eval of the term) for all interpretations and binder nestings on the fragment `wfp` (Bool, ITE, Equals, Int/Real arithmetic, quantifiers, UF, BV constants and non-indexed BV operators, select/store, string operators except the misnamed ones); the DAG printer is characterised structurally (its let chain builds the root's memoised text); several spellings and two script-level clauses are refuted by closed witnesses (open findings). Indexed BV operators, string constants, array values, DAG freshness and static sorting are carried by 660 (quick) / several thousand (thorough) token-exact comparisons and by the independent reader on both printers.",
   note="Trusted: Coq kernel, core/SmtStd.v (SMT-LIB specification, ~800 lines) and core/Sem.v, hand models tied by token-exact correspondence, harness/smtread.py + refeval.py. Nine open findings (Int division printed as /, pre-2.6 string function names, pow, parametric/custom sort declarations, quoting of names with | or backslash and of sort names, unicode escapes in string literals).",
   design="4 C07"),
 "C10": dict(
   technique="Coq structural-induction proofs over hand models of NNFizer / AIGer / partitions / Shannon / self-substitution / TimesDistributor + per-run model/implementation correspondence (exact structure) + independent-evaluator search oracle (also the only cover for prenex and propagate_toplevel)",
   text="coq/props/C10.v: NNF, AIG, conjunctive/disjunctive partitions, both Boolean quantifier eliminations and TimesDistributor (Int, Real) preserve the value for all terms of the stated fragments and all well-sorted interpretations; AIG and QE shapes proved; the NNF shape clause is refuted for negated Boolean ITE (open finding) with its partial version. Prenex normal form and propagate_toplevel are NOT modelled in Coq (propagate_toplevel refuted on a last-step model, open finding): they are covered by the reference-evaluator oracle and shape predicates only.",
   note="Trusted: Coq kernel, core/Sem.v, hand models tied by exact correspondence, local constructor/substitution stand-ins (models/C10Local.v), harness/refeval.py with exact quantifier evaluation only.",
   design="4 C10"),
})

CLAIMED.update({
 "C14": dict(
   technique="Coq proof on the memo-table machine (family of persistent walkers plus the one-shot substituter, over the model of walkers/dag.py) + random API histories versus a fresh Environment (AC order and fresh names canonicalised), every walk() replayed in the model, store-time memo snapshots and directed TheoryOracle aliasing cases",
   text="coq/props/C14.v: any history (raising calls included) gives the answer a fresh walker gives (C14_history_independent); a repeated call returns the same memoised value with zero callbacks (C14_repeat_same); the one-shot substituter is history independent; every memo entry equals the naive fold, a persistent memo only grows and the stack is empty after every call. Closed under the global context. Random histories of 3-16 API calls (construction, printing, parsing, nnf, prenex, aig, cnf, analyses, logic detection, sizes) are compared with the same probe in a fresh Environment.",
   note="Aliasing of mutable cached answers (Theory objects) is not a theorem: it is checked by store-time memo snapshots, 18 directed cases and the twin run. Hash-consing identity is C04's subject. Trusted: Coq kernel, hand model of the walker tied by correspondence, the outside-only wrappers of harness/walktap.py.",
   design="4 C14"),
 "C15": dict(
   technique="Coq proof on the long-lived walker model (stack dropped on failure, one-shot memo cleared in finally) + fault injection at every key of random traversals plus natural faults and a corpus of repaired defects, compared with an untouched twin Environment and with the model",
   text="coq/props/C15.v: after a walk that raised at ANY node the stack is empty, the memo is correct and only grown, and every later history answers as without the failing call (persistent walkers); for the one-shot substituter the state is pristine and later answers are equal. Closed under the global context. Faults: ill-typed substitution and construction, unsupported operator through a custom node type, injected callback failures at every node, malformed SMT-LIB scripts, unsupported commands.",
   note="Which exception is raised is compared in the twin run only; parser, node table and per-call walkers are decided by twin comparison only. Open finding: declarations made by a failed script stay in the environment's symbol table. Trusted: Coq kernel, hand model tied by correspondence.",
   design="4 C15"),
 "C20": dict(
   technique="Coq proof of call and iteration bounds on a hand model of walkers/dag.py, for every DAG and callback + model/implementation correspondence of callback order, loop iterations, stack and memo on every operation x operator family + measurement under the default recursion limit",
   text="coq/props/C20.v: the callback runs exactly once per distinct reachable un-memoised key; calls <= number of distinct nodes; loop iterations <= 2*(1+edges) <= the fuel bound; the loop always terminates with an empty stack and a correct memo (also after an exception); the result equals the naive fold; type checking at creation costs one callback and O(arity) iterations. Counts and order are checked equal to the model on ~1050 traversals per run (23 operations x 25 operator families, tree size 2^n over n nodes, chains of depth 20000 / 200000).",
   note="Recursion-freedom is MEASURED under the default recursion limit (a claim about CPython that no Gallina model exhibits), not proved; wall-clock time is not observed. Open findings: the simplifier's Plus/Times flattening builds 2^n arguments on shared sums. Trusted: Coq kernel, walktap wrappers, the hand model.",
   design="4 C20"),
})

CLAIMED.update({
 "C04": dict(
   technique="Coq proof: invariants over all request histories of a state-machine model of FormulaManager (core/Manager.v) + history correspondence of returned ids and complete tables inside Coq + structural-key / blueprint / copy oracle on the implementation",
   text="coq/props/C04.v, for every history and every address order, closed under the global context: no duplicate content, dense ids, one node per structure; accessors read back what create_node was given; existing contents are returned unchanged and ids keep their trees; Int / Real / String / BV spellings denote the same object iff the same value (and width); the outcome of Int(v)/Real(v) is a function of v alone; Array children depend only on the map minus default-valued entries; normalize is total on symbols of any sort and produces, for array-value-free constructor-normal formulas, a copy with the same tree whose nodes all belong to the target table, leaving the target's nodes untouched.",
   note="One clause refuted and open: normalize:array-assignment-order (Array sorts assignments by id(), so a copy of an array value may list them in another order). That constructor-built nodes satisfy `copyable` is checked on every node of every history, not proved. 'No shared objects between environments' is an implementation-level oracle check. Trusted: Coq kernel, hand model tied by history correspondence, tocoq.skey.",
   design="4 C04"),
 "C08": dict(
   technique="Coq model of Tokenizer + SmtLibParser (cache, term reader, command readers) over the constructor/type-checker/substituter models; lexer lemma and machine-checked refuted witnesses against core/SmtStd.v; exact model/implementation correspondence on generated, directed, malformed and corpus scripts; independent SMT-LIB reader + evaluator as oracle with deviation-classified keys",
   text="PARTIAL. coq/props/C08.v: lexer round trip on plain tokens; agreement with the standard for print-outs that read back to their own term (corollary of C07); five clauses of the property are refuted by closed witnesses on the faithful model (sequential let, define-fun shadowing a binder, define-fun capture, undeclared identifier read as a string, quoted symbols read as plain tokens) - open findings. The general `parse_agrees` (reader stack machine against std_eval for all scripts) is NOT proved: it is carried by the exact correspondence (about 1650 scripts per run incl. a malformed stream and a regression corpus of 212 accepted texts) and by the independent reader.",
   note="Trusted: Coq kernel, core/Sem.v + core/SmtStd.v, hand models tied by exact correspondence (command lists of terms, error classes), harness/c08_ref.py + refeval.py. OMT extension commands, annotations and the interactive reader are not modelled.",
   design="4 C08"),
 "C09": dict(
   technique="Composition of the C07 printer model and the C08 reader model, evaluated to completion inside Coq on explicit term families (16245 + 39 terms, both printers); HrPrinter model; correspondence of the composition and of hr_print with the implementation; identity/meaning oracle on formulas, scripts and HRParser",
   text="PARTIAL / bounded families. coq/props/C09.v: print-then-read is the identity (up to the order of quantified variables) on every Core/LIA term with at most two operator levels (16245 terms) and on one term per operator of every theory (39 terms), for both printers, by complete evaluation; a constant-array literal reads back as the store chain with the same meaning (all interpretations). The general round-trip induction, the script round trip and the human-readable (Pratt) parser are not modelled or proved: they are carried by object identity / meaning oracles on generated formulas and scripts.",
   note="Trusted: Coq kernel (vm_compute for the families), the two hand models tied by correspondence, harness/refeval.py. Seven open findings (quantifier variable order, Int constant division folded to Real, declare-const serialisation, unquoted sort / define-fun names, HR serialisations the HR parser rejects).",
   design="4 C09"),
})
CLAIMED["C10"]["text"] = "coq/props/C10.v: value preservation of NNF, AIG, both partitions (every order/set of the parts), Shannon, self-substitution and TimesDistributor (Int, Real) for all terms of the stated fragments and all well-sorted interpretations; shapes of NNF, AIG, QE (quantifier-free) and prenex (prefix over a quantifier-free matrix, any clashes). Prenex value preservation is proved only for quantifier-free inputs (full statement recorded; the rest is carried by the exact correspondence up to fresh-name renaming and by the oracle). propagate_toplevel is refuted on a last-step model (open finding: substitution captured by a binder) and is otherwise oracle-only."
CLAIMED["C10"]["technique"] = "Coq structural-induction proofs over hand models of NNFizer, AIGer, partitions, Shannon and self-substitution QE, TimesDistributor and PrenexNormalizer + per-run model/implementation correspondence (exact structure; prenex up to fresh-name renaming) + independent-evaluator search oracle with exact Bool/BV quantifier evaluation and shape predicates"

CLAIMED.update({
 "C01": dict(
   technique="Executable Coq model of every Simplifier.walk_* rule and of the FormulaManager constructors, tied to the code on every run by exact structural comparison inside Coq (~25k quick / ~130k thorough cases, all 65 operators, BV widths 1-4 exhaustive) with a permutation-checked order oracle for node-id-dependent orders; Coq proofs for every oracle: no new symbols (all operators), and type+value preservation against core/Sem.v by induction over terms with one lemma per rule on the fragment stated in props/C01.v; independent reference evaluator as search oracle for the rest",
   text="coq/props/C01.v: for all terms, `fv (simplify t)` is included in `fv t` (function names included); constants are fixed points; constant arguments fold to constants for the listed operators; and `C01_simplify_sound_partial`: for every order oracle, every term of `in_frag`, every well-formed interpretation and every division-safe term, the simplified term has the same type and the same value - by induction over terms with one lemma per rewrite rule, covering Boolean connectives, ITE, Equals, quantifiers, UF, Int/Real arithmetic (incl. Div, ToReal, Pow with non-negative integer exponent), EVERY bit-vector operator at every width, arrays (select/store/array values in canonical form, array equalities) and all string operators; `C01_fold_complete_partial`: closed UF-free qf terms over the Boolean/arithmetic/bit-vector operators simplify to a constant. `in_frag` leaves out only Pow with a negative/non-integer/non-constant exponent and array values outside the canonical form (Real index/element sorts, non-constant or unsorted indices); those are modelled, correspondence-checked and decided by the independent evaluator.",
   note="Trusted: Coq kernel, core/Sem.v (standard-library classical/real axioms as reported), hand models tied by exact correspondence, the observed-order oracle (accepted only when it is a permutation of the model's own result), harness/tocoq.py, harness/refeval.py. Open findings: Pow with 0 base and negative exponent raises; Pow with non-integer exponent goes through floats.",
   design="4 C01"),
 "C02": dict(
   technique="Coq model of EagerModel.get_value / completion / Model.satisfies on top of the substituter and simplifier models, tied by exact correspondence (returned constant or error) + independent evaluation of the formula under the assignment as property-level oracle; structural theorems in Coq, exactness relative to C01/C05",
   text="coq/props/C02.v: structural - whatever get_value returns is a constant; completion assigns exactly the documented defaults and never overrides the model. Semantic (all named `_partial`: they hold on the fragment `gfrag` stated in the props file - Boolean connectives, ITE, Equals, Int/Real arithmetic and the bit-vector operators as they are added; quantifier-free, UF-free): for every model of constants and every well-formed interpretation that agrees with the model and gives the defaults elsewhere, get_value with completion returns exactly the constant the formula denotes, does return one, satisfies() is true iff that value is true, and without completion a returned value holds under EVERY well-formed extension of the model. Outside the fragment (strings, arrays, ToReal, Pow) exactness is decided by the exact correspondence of the model with the implementation (~2300 quick / ~34k thorough cases incl. every BV operator on every operand value at widths 1-3 (1-5)) and by the independent evaluator on every case.",
   note="Trusted: as C01 and C05, plus harness/refeval.py for the oracle. Interpretations evaluating an Int/Real division by zero are skipped. UF-free, quantifier-free formulas.",
   design="4 C02"),
})

NOT_YET = "machinery for this property is not built yet (work in progress, see DESIGN.md section 8)"

def main():
    checks, na = [], []
    for p in PROPS:
        if p in CLAIMED:
            c = CLAIMED[p]
            checks.append({
                "property_id": p,
                "quick_cmd": "./check %s --tier quick" % p,
                "thorough_cmd": "./check %s --tier thorough" % p,
                "evidence_file": "evidence/%s.json" % p,
                "replay_cmd_template": "./check %s --replay {path}" % p,
                "engine": "coq-proof+correspondence",
                "level_claimed": {"category": c.get("category", "proof"), "text": c["text"], "design_ref": c["design"]},
                "level_note": c["note"],
                "technique": c["technique"],
            })
        else:
            na.append({"property_id": p, "reason": NA.get(p, NOT_YET)})
    m = {
     "version": 1,
     "setup_cmd": "./check setup",
     "hooks": {"guard": "PYSMT_VERIF", "enable": "checks export PYSMT_VERIF=1 and import pysmt from /repo's working tree (no build step); no hook is currently needed", "baseline_off_cmd": "cd /repo && env -u PYSMT_VERIF /venv/bin/python -m pytest -ra -q -p no:cacheprovider --timeout=900 --continue-on-collection-errors", "source_commits": [], "add_only": True},
     "engines": [{"name": "coq-proof+correspondence", "path": "check", "serves_properties": sorted(CLAIMED), "kind_free_text": "Coq 8.16 development under coq/ (models, proofs, props) rebuilt on every run; translator harness/translate regenerates coq/gen from /repo; harness/cXX.py runs model (vm_compute inside coqc) and implementation on the same generated cases and searches the implementation for a failing input with an independent oracle"}],
     "checks": checks,
     "not_applicable": na,
     "notes": "See DESIGN.md. Every check: regenerate coq/gen from /repo, rebuild the property's Coq closure, run the correspondence, run the property-level oracle on the implementation; exit 1 + VIOLATION line on failure.",
    }
    json.dump(m, open(os.path.join(HERE, "MANIFEST.json"), "w"), indent=1)

NA = {}
if __name__ == "__main__":
    main()
