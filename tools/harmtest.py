#!/usr/bin/env python3
"""Run our checks against BEHAVIOUR-PRESERVING edits (made by independent agents) to measure false alarms.
usage: tools/harmtest.py <PROP> <worktree> [letters]   -- worktree holds seed/patchX.diff, seed/metaX.json
Writes /verif/harmless/<PROP>-<X>/{patch.diff, meta.json} with the check's verdict (exit 0 and no VIOLATION line expected)."""
import json, os, shutil, subprocess, sys, time

def sh(cmd, cwd=None, env=None, timeout=5400):
    p = subprocess.run(cmd, shell=True, cwd=cwd, env=env, stdout=subprocess.PIPE, stderr=subprocess.STDOUT, text=True, timeout=timeout)
    return p.returncode, p.stdout

def main():
    prop, wt = sys.argv[1:3]
    letters = sys.argv[3] if len(sys.argv) > 3 else "ABC"
    for x in letters:
        patch = os.path.join(wt, "seed", "patch%s.diff" % x)
        if not os.path.exists(patch):
            print(prop, x, "no patch"); continue
        sh("git checkout -q -- . ", cwd=wt)
        rc, out = sh("git apply %s" % patch, cwd=wt)
        res = {"applies": rc == 0}
        if rc == 0:
            env = dict(os.environ, PYTHONPATH=wt, PYTHONHASHSEED="0")
            rc2, out2 = sh("/venv/bin/python -m pytest -q -p no:cacheprovider --timeout=900 2>&1 | tail -1", cwd=wt, env=env)
            res["pytest_patched"] = out2.strip()
            t0 = time.time()
            cenv = dict(os.environ, VERIF_REPO=wt, VERIF_EVIDENCE_DIR="/verif/build/seed_evidence")
            rc, out = sh("./check %s --tier quick" % prop, cwd="/verif", env=cenv)
            viol = [l for l in out.split("\n") if l.startswith("VIOLATION")]
            res.update(check_exit=rc, n_violation_lines=len(viol), violation_lines=viol[:3], wall_s=round(time.time() - t0, 1))
            if viol and "replay=" in viol[0]:
                try:
                    res["first_replay"] = json.load(open(viol[0].split("replay=")[1].split()[0]))
                except Exception:
                    pass
        sh("git checkout -q -- .", cwd=wt)
        d = os.path.join("/verif/harmless", "%s-%s" % (prop, x))
        os.makedirs(d, exist_ok=True)
        shutil.copy(patch, os.path.join(d, "patch.diff"))
        meta = {}
        try:
            meta = json.load(open(os.path.join(wt, "seed", "meta%s.json" % x)))
        except Exception:
            pass
        meta["property"] = prop
        meta["check_result"] = res
        json.dump(meta, open(os.path.join(d, "meta.json"), "w"), indent=1, default=str)
        print(prop, x, {k: res.get(k) for k in ("applies", "pytest_patched", "check_exit", "n_violation_lines", "wall_s")}, flush=True)

main()
