#!/usr/bin/env python3
"""Confirm a seeded change (patch + demo from an independent agent) and run our check against it.
usage: tools/seedtest.py <PROP> <worktree> <letter> [--checks C03,C15] [--as <stored letter>]
Writes /verif/seeded/<PROP>-<letter>/{patch.diff,demo.py,meta.json}."""
import json, os, shutil, subprocess, sys, time

def sh(cmd, cwd=None, env=None, timeout=3600):
    p = subprocess.run(cmd, shell=True, cwd=cwd, env=env, stdout=subprocess.PIPE, stderr=subprocess.STDOUT, text=True, timeout=timeout)
    return p.returncode, p.stdout

def main():
    prop, wt, letter = sys.argv[1:4]
    checks = [prop]
    if "--checks" in sys.argv:
        checks = sys.argv[sys.argv.index("--checks") + 1].split(",")
    seed = os.path.join(wt, "seed")
    patch = os.path.join(seed, "patch%s.diff" % letter)
    demo = os.path.join(seed, "demo%s.py" % letter)
    env = dict(os.environ, PYTHONPATH=wt, PYTHONHASHSEED="0")
    res = {}
    sh("git checkout -- .", cwd=wt)
    rc0, out0 = sh("/venv/bin/python %s" % demo, cwd=wt, env=env)
    res["demo_clean_rc"] = rc0
    rc, out = sh("git apply %s" % patch, cwd=wt)
    assert rc == 0, out
    rc1, out1 = sh("/venv/bin/python %s" % demo, cwd=wt, env=env)
    res["demo_patched_rc"] = rc1
    res["demo_patched_tail"] = out1[-600:]
    rc2, out2 = sh("/venv/bin/python -m pytest -q -p no:cacheprovider --timeout=900 2>&1 | tail -1", cwd=wt, env=env)
    res["pytest_patched"] = out2.strip()
    sh("git checkout -- .", cwd=wt)
    confirmed = rc0 == 0 and rc1 != 0 and "376 passed" in out2 and "failed" not in out2
    res["confirmed"] = confirmed
    # our checks against it
    # while other work is running against /repo the patched tree is the seed's own worktree
    # (VERIF_REPO); with --in-repo the patch is applied to /repo itself and undone afterwards
    in_repo = "--in-repo" in sys.argv
    target = "/repo" if in_repo else wt
    rc, out = sh("git -C %s apply %s" % (target, patch))
    assert rc == 0, out
    cenv = dict(os.environ, VERIF_REPO=target, VERIF_EVIDENCE_DIR="/verif/build/seed_evidence")
    try:
        for c in checks:
            t0 = time.time()
            rc, out = sh("./check %s --tier quick" % c, cwd="/verif", env=cenv)
            viol = [l for l in out.split("\n") if l.startswith("VIOLATION")]
            res["check_%s" % c] = {"exit": rc, "violation_lines": viol[:5], "n_violation_lines": len(viol), "wall_s": round(time.time() - t0, 1)}
            if viol and "replay=" in viol[0]:
                rp = viol[0].split("replay=")[1].split()[0]
                try:
                    res["check_%s" % c]["first_replay"] = json.load(open(rp))
                except Exception:
                    pass
    finally:
        sh("git -C %s checkout -- ." % target)
    out_letter = sys.argv[sys.argv.index("--as") + 1] if "--as" in sys.argv else letter
    d = os.path.join("/verif/seeded", "%s-%s" % (prop, out_letter))
    os.makedirs(d, exist_ok=True)
    shutil.copy(patch, os.path.join(d, "patch.diff"))
    shutil.copy(demo, os.path.join(d, "demo.py"))
    meta = {}
    try:
        meta = json.load(open(os.path.join(seed, "meta%s.json" % letter)))
    except Exception:
        pass
    meta["property"] = prop
    # keep what earlier runs of our checks said about this seed (first missed / caught later)
    try:
        old = json.load(open(os.path.join(d, "meta.json")))
        hist = old.get("earlier_check_runs", [])
        oc = old.get("confirmation_and_detection", {})
        hist.append({k: {"exit": v.get("exit"), "n_violation_lines": v.get("n_violation_lines"),
                         "first_violation_line": (v.get("violation_lines") or [None])[0]}
                     for k, v in oc.items() if k.startswith("check_")})
        meta["earlier_check_runs"] = hist
    except Exception:
        pass
    meta["confirmation_and_detection"] = res
    meta["what_was_run"] = ("scratch worktree: demo on clean tree, demo with patch, full pytest with patch; then the patch applied to the tree under test (VERIF_REPO = scratch worktree, or /repo itself with --in-repo), "
                            "`./check <id> --tier quick` for %s, tree restored" % checks)
    json.dump(meta, open(os.path.join(d, "meta.json"), "w"), indent=1, default=str)
    print(json.dumps(res, indent=1, default=str)[:3000])

main()
