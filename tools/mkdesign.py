#!/usr/bin/env python3
"""Assembles /verif/DESIGN.md from tools/design/*.md and from the repository state
(fix commits in /repo, known_findings.json, seeded/*/meta.json)."""
import glob, json, os, subprocess
HERE = os.path.dirname(os.path.dirname(os.path.abspath(__file__)))
D = os.path.join(HERE, "tools", "design")
rd = lambda n: open(os.path.join(D, n)).read()

def fixes():
    out = subprocess.check_output(["git", "-C", "/repo", "log", "--reverse", "--format=%h %s"]).decode().split("\n")
    k = json.load(open(os.path.join(HERE, "known_findings.json")))
    by = {}
    for e in k:
        if e.get("status") == "fixed":
            by.setdefault(e.get("commit", "")[:7], []).append(e["property"])
    lines = []
    for l in out:
        if " fix: " in l:
            h, msg = l.split(" ", 1)
            props = sorted(set(by.get(h[:7], [])))
            lines.append("* `%s` (%s) %s" % (h, ", ".join(props) or "-", msg[len("fix: "):]))
    return "\n".join(lines), len(lines)

def opens():
    k = json.load(open(os.path.join(HERE, "known_findings.json")))
    lines = []
    for e in sorted(k, key=lambda e: e["property"]):
        if e.get("status") == "open":
            lines.append("* **%s** `%s` — %s" % (e["property"], e.get("key") or e.get("key_regex"), e.get("what", "")[:330].replace("\n", " ")))
    return "\n".join(lines)

def seeds():
    rows = ["| seed | what it breaks (needs to manifest) | caught by | first replay |", "|---|---|---|---|"]
    for d in sorted(glob.glob(os.path.join(HERE, "seeded", "*"))):
        try:
            m = json.load(open(os.path.join(d, "meta.json")))
        except Exception:
            continue
        c = m.get("confirmation_and_detection", {})
        caught = []
        rep = ""
        for key, v in c.items():
            if key.startswith("check_") and isinstance(v, dict):
                caught.append("%s: %s" % (key[6:], "VIOLATION (%d lines)" % v["n_violation_lines"] if v["n_violation_lines"] else ("exit %s, no VIOLATION line" % v["exit"])))
                fr = v.get("first_replay") or {}
                rep = str(fr.get("what") or fr.get("theorem_or_correspondence") or "")[:140].replace("|", "/").replace("\n", " ")
        rg = m.get("regression")
        if rg:
            if not rg.get("applies"):
                caught.append("final regression at %s: patch no longer applies" % rg.get("head"))
            elif rg.get("demo_patched_rc") == 0:
                caught.append("final regression at %s: no longer a violation (demo passes with the patch); check: %s" % (rg.get("head"), (rg.get("first_violation_line") or "quiet").split(" replay=")[0] + (" no-failing-input-found" if "no-failing-input-found" in (rg.get("first_violation_line") or "") else "")))
            else:
                caught.append("final regression at %s: %s" % (rg.get("head"), "exit %s, %s VIOLATION line(s)%s" % (rg.get("check_exit"), rg.get("n_violation_lines"), " (no-failing-input-found)" if "no-failing-input-found" in (rg.get("first_violation_line") or "") else "")))
        for old in m.get("earlier_check_runs", []):
            for key, v in old.items():
                if not v.get("n_violation_lines"):
                    caught.append("(an earlier version of the check MISSED it: exit %s; strengthened since)" % v.get("exit"))
                    break
            else:
                continue
            break
        wb = (m.get("what_breaks", "") or "")[:230].replace("|", "/").replace("\n", " ")
        nm = (m.get("needs_to_manifest", "") or "")[:160].replace("|", "/").replace("\n", " ")
        rows.append("| %s | %s (%s) | %s | %s |" % (os.path.basename(d), wb, nm, "; ".join(caught), rep))
    return "\n".join(rows)

def main():
    fx, n = fixes()
    tail = rd("tail.md").replace("@@C01@@", rd("c01.md").strip()).replace("@@C02@@", rd("c02.md").strip())
    tail = tail.replace("@@FIXES@@", fx).replace("@@OPEN@@", opens()).replace("@@SEEDS@@", seeds())
    head = rd("head.md").replace("38 `fix:` commits", "%d `fix:` commits" % n)
    open(os.path.join(HERE, "DESIGN.md"), "w").write(head + rd("core.md") + tail)
    print("DESIGN.md written, %d fixes" % n)

main()
