(* C14 - Results do not depend on what the environment was used for before.
   Statements only.  The machine (models/EnvHistory.v) is the family of long-lived memoising
   walkers of an Environment, each running the loop of walkers/dag.py (core/DagWalk.v).
   Values are compared as the pure fold F of the callback: hash-consing (C04) makes equal
   structure the same object; AC order of set-built arguments and fresh names are handled by
   the correspondence (harness/c14.py), as is aliasing of mutable cached answers (Theory). *)
From Coq Require Import List Arith.
From PySMT.core Require Import DagWalk.
From PySMT.models Require Import WalkerFail EnvHistory.
From PySMT.proofs Require Import DagWalk_proofs WalkerFail_proofs EnvHistory_proofs.
Import ListNotations.

(* every memo entry is the value of the pure function of its key, before and after any call *)
Theorem C14_memo_inv : forall (A : Type) (children : nat -> list nat),
  (forall n c, In c (children n) -> c < n) ->
  forall (f : nat -> list A -> option A) early oneshot w root fuel s a,
  clean A children f w -> enough_fuel children root <= fuel ->
  walk A children f early oneshot fuel w root = (s, a) ->
  (stk s = [] /\ Mok A children f (mm s)) /\ (oneshot = false -> sub A (mm w) (mm s)) /\ a <> NoFuel.
Proof. exact walk_memo_inv. Qed.

(* for every history h of calls on any of the environment's persistent walkers (over formulas
   sharing any sub-DAGs with the query; calls that raise included: [api_ok] only asks for
   enough fuel) the query q answers as in a fresh environment *)
Theorem C14_history_independent : forall (A : Type) (children : nat -> nat -> list nat),
  (forall w n c, In c (children w n) -> c < n) ->
  forall (f : nat -> nat -> list A -> option A) (early : nat -> bool) fuel h q,
  Forall (api_ok children fuel) h -> api_ok children fuel q ->
  ans_equiv (result_after A children f early fuel h q) (result_fresh A children f early fuel q).
Proof. exact history_independent. Qed.

(* repeating a call returns the memoised value itself (same object) without any callback *)
Theorem C14_repeat_same : forall (A : Type) (children : nat -> nat -> list nat),
  (forall w n c, In c (children w n) -> c < n) ->
  forall (f : nat -> nat -> list A -> option A) (early : nat -> bool) fuel h q v,
  Forall (api_ok children fuel) h -> api_ok children fuel q ->
  result_after A children f early fuel h q = Ok v ->
  let e1 := fst (env_call A children f early fuel (env_run A children f early fuel (env_init A) h) q) in
  snd (env_call A children f early fuel e1 q) = Ok v /\
  mm (e1 (fst q)) (snd q) = Some v /\
  calls (fst (env_call A children f early fuel e1 q) (fst q)) = calls (e1 (fst q)).
Proof. exact repeat_same. Qed.

(* the one-shot substituter: earlier substitutions (with other maps) do not influence a later one *)
Theorem C14_oneshot_history_independent : forall (A P : Type) (children : nat -> list nat),
  (forall n c, In c (children n) -> c < n) ->
  forall (f : P -> nat -> list A -> option A) early fuel h q,
  Forall (os_ok P children fuel) h -> os_ok P children fuel q ->
  ans_equiv (snd (do_call A P children f early true fuel
                    (fst (run_calls A P children f early true fuel (init A) h)) q))
            (fresh_answer A P children f early true fuel q).
Proof. exact oneshot_history_independent. Qed.

Print Assumptions C14_memo_inv.
Print Assumptions C14_history_independent.
Print Assumptions C14_repeat_same.
Print Assumptions C14_oneshot_history_independent.
