(* C17 - Text-interface solvers: legal command stream, replies in sync, faithful verdict and
   model, shortcuts.  Statements only; each is closed by `exact` of a lemma proved in proofs/.

   Model: models/SmtLibSolver.v (wrapper state machine `api_step`, strict solver `spec_step`,
   reply pipe `sync_flags`), of pysmt/smtlib/solver.py AFTER the fixes C17 a-f (push/pop n
   levels, get_model over all levels, reset_assertions resets the record, get-value consumes its
   line, get_value gives undeclared symbols their model-completion default, a sort symbol is
   declared once by its declaration).  Before them five clauses were refuted (known_findings.json,
   status fixed); the theorems below are the FULL clauses, for EVERY history with
     user_legal d h = never pop below level 0 (push(n)/pop(n) with any n, reset_assertions,
                      one-shot checks, get_value of any term and get_model anywhere), exit last.
   Custom sorts of arity 0 are part of the model: declared_sorts is a second declared-set with its
   own level stack, and sorts and function symbols are separate name spaces in the wrapper and in
   the strict solver (a number may name a sort and a symbol at once).  Reading the abstract value
   of a custom-sort symbol is not modelled (open finding custom-sort-value-unparsed). *)
From Coq Require Import Bool List.
From PySMT.models Require Import SmtLibSolver.
From PySMT.proofs Require Import SmtLibSolver_proofs.
Import ListNotations.

(* ---- the command stream is legal SMT-LIB ---------------------------------------------- *)
Theorem C17_stream_legal : forall decide h, user_legal 0 h = true ->
  accepted decide (stream h) = true /\ werr (final h) = false.
Proof. exact stream_legal. Qed.
(* a history that refuted the clause before fix e: get_value of symbols no assertion mentions *)
Theorem C17_get_value_unasserted_symbol :
  snd (run_api w_init value_witness) =
    [CDeclare 0 None; CAssert X; CCheckSat; CGetValue []; CGetValue [0]] /\
  forall decide, legal_and_quiet decide value_witness = true.
Proof. exact value_witness_ok. Qed.
(* an invariant of the strict solver for EVERY stream: live assertions only mention symbols in scope *)
Theorem C17_spec_scoping : forall decide cs s, wf_levels s -> wf_levels (fst (spec_exec decide s cs)).
Proof. exact spec_exec_wf. Qed.

(* ---- each reply is attributed to the command that caused it ---------------------------- *)
(* exact criterion, for every command stream: only commands sent after `exit` are out of step *)
Theorem C17_replies_in_sync_iff : forall cmds, in_sync cmds = sync_ok PClean cmds.
Proof. exact in_sync_iff. Qed.
(* every history (exit, which ends the solver process, can only come last) *)
Theorem C17_replies_in_sync : forall h, exit_last h = true -> in_sync (stream h) = true.
Proof. exact replies_in_sync. Qed.
Theorem C17_user_legal_exit_last : forall h d, user_legal d h = true -> exit_last h = true.
Proof. exact user_legal_exit_last. Qed.

(* ---- the verdict returned is the one the solver gave, about the assertions the user means - *)
Theorem C17_verdict_faithful : forall decide h a, user_legal 0 (h ++ [a]) = true ->
  let w := final h in
  let s := fst (spec_exec decide s_init (snd (run_api w_init h))) in
  let rs := snd (spec_exec decide s (snd (api_step w a))) in
  let live_now := ideal_live (ideal_run ideal_init h) in
  (a = ASolve -> verdict_of rs = Some (decide live_now)) /\
  (forall f, check_formula a = Some f -> verdict_of rs = Some (decide (f :: live_now))).
Proof. exact verdict_faithful. Qed.
Theorem C17_state_tracks_live_assertions : forall decide h, user_legal 0 h = true ->
  exists s', fst (spec_exec decide s_init (snd (run_api w_init h))) = s' /\
    Inv (final h) s' (ideal_run ideal_init h) (depth_run 0 h).
Proof. exact state_tracks_ideal. Qed.

(* ---- solve / is_sat / is_valid / is_unsat return the corresponding truth ---------------- *)
Theorem C17_shortcut_truth : forall (interp : Type) (holds : interp -> form -> bool)
    (decide : list form -> bool),
  (forall fs, decide fs = true <-> exists I, sat_by interp holds I fs) ->
  (forall I f, holds I (FNot f) = negb (holds I f)) ->
  forall h a v, user_legal 0 (h ++ [a]) = true ->
    let w := final h in
    let s := fst (spec_exec decide s_init (snd (run_api w_init h))) in
    let rs := snd (spec_exec decide s (snd (api_step w a))) in
    let live_now := ideal_live (ideal_run ideal_init h) in
    verdict_of rs = Some v ->
    match a with
    | ASolve => v = true <-> exists I, sat_by interp holds I live_now
    | AIsSat f => shortcut_result a v = true <->
                  exists I, sat_by interp holds I live_now /\ holds I f = true
    | AIsUnsat f => shortcut_result a v = true <->
                    ~ exists I, sat_by interp holds I live_now /\ holds I f = true
    | AIsValid f => shortcut_result a v = true <->
                    forall I, sat_by interp holds I live_now -> holds I f = true
    | _ => True
    end.
Proof. exact shortcut_truth. Qed.

(* ---- after sat, the model covers every symbol of the live assertions, at every depth ----- *)
Theorem C17_model_complete : forall h, user_legal 0 h = true ->
  forall f x, In f (ideal_live (ideal_run ideal_init h)) -> In x (fvs f) ->
    In x (model_queries (final h)).
Proof. exact (model_complete (fun _ => true)). Qed.

Print Assumptions C17_stream_legal.
Print Assumptions C17_get_value_unasserted_symbol.
Print Assumptions C17_spec_scoping.
Print Assumptions C17_replies_in_sync_iff.
Print Assumptions C17_replies_in_sync.
Print Assumptions C17_verdict_faithful.
Print Assumptions C17_state_tracks_live_assertions.
Print Assumptions C17_shortcut_truth.
Print Assumptions C17_model_complete.
