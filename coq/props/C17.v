(* C17 - Text-interface solvers: legal command stream, replies in sync, faithful verdict and
   model, shortcuts.  Statements only; each is closed by `exact` of a lemma proved in proofs/.

   Model: models/SmtLibSolver.v (wrapper state machine `api_step`, strict solver `spec_step`,
   reply pipe `sync_flags`).  Four clauses of the property are FALSE of the faithful model:
   they appear as `_refuted` theorems with their witness histories (replayed on the real code by
   harness/c17.py: findings), next to the `_partial` theorems with the side condition under
   which the clause holds for EVERY history:
     history_legal i d h  =  every push/pop moves ONE level, no reset_assertions, never pop
                             below level 0, value queries mention only symbols of live
                             assertions, exit (if any) is the last call;
     values_last false h  =  all get_value / get_model calls come after all other calls. *)
From Coq Require Import Bool List.
From PySMT.models Require Import SmtLibSolver.
From PySMT.proofs Require Import SmtLibSolver_proofs.
Import ListNotations.

(* ---- the command stream is legal SMT-LIB ---------------------------------------------- *)
Theorem C17_stream_legal_partial : forall decide h, history_legal ideal_init 0 h = true ->
  accepted decide (stream h) = true /\ werr (final h) = false.
Proof. exact stream_legal_partial. Qed.
(* full clause (all user-legal histories) refuted: *)
Theorem C17_stream_legal_refuted :
  exists h, user_legal 0 h = true /\ forall decide, legal_and_quiet decide h = false.
Proof. exact stream_legal_refuted. Qed.
Theorem C17_stream_legal_refuted_pop_n : user_legal 0 pop2_witness = true /\
  forall decide, accepted decide (stream pop2_witness) = false.
Proof. exact stream_legal_refuted_pop_n. Qed.
Theorem C17_stream_legal_refuted_push_n : user_legal 0 push2_witness = true /\
  werr (final push2_witness) = true.
Proof. exact stream_legal_refuted_push_n. Qed.
Theorem C17_stream_legal_refuted_redeclare : user_legal 0 redeclare_witness = true /\
  forall decide, accepted decide (stream redeclare_witness) = false.
Proof. exact stream_legal_refuted_redeclare. Qed.
Theorem C17_stream_legal_refuted_reset : user_legal 0 reset_witness = true /\
  forall decide, accepted decide (stream reset_witness) = false.
Proof. exact stream_legal_refuted_reset. Qed.
Theorem C17_stream_legal_refuted_value : user_legal 0 value_witness = true /\
  forall decide, accepted decide (stream value_witness) = false.
Proof. exact stream_legal_refuted_value. Qed.
(* an invariant of the strict solver for EVERY stream: live assertions only mention symbols in scope *)
Theorem C17_spec_scoping : forall decide cs s, wf_levels s -> wf_levels (fst (spec_exec decide s cs)).
Proof. exact spec_exec_wf. Qed.

(* ---- each reply is attributed to the command that caused it ---------------------------- *)
(* exact criterion, for every command stream *)
Theorem C17_replies_in_sync_iff : forall cmds, in_sync cmds = sync_ok PClean cmds.
Proof. exact in_sync_iff. Qed.
Theorem C17_replies_in_sync_partial : forall h, values_last false h = true -> in_sync (stream h) = true.
Proof. exact replies_in_sync_partial. Qed.
Theorem C17_replies_in_sync_refuted :
  exists h, user_legal 0 h = true /\ unit_levels h = true /\ in_sync (stream h) = false.
Proof. exact replies_in_sync_refuted. Qed.

(* ---- the verdict returned is the one the solver gave, about the assertions the user means - *)
Theorem C17_verdict_faithful : forall decide h a, history_legal ideal_init 0 (h ++ [a]) = true ->
  let w := final h in
  let s := fst (spec_exec decide s_init (snd (run_api w_init h))) in
  let rs := snd (spec_exec decide s (snd (api_step w a))) in
  let live_now := ideal_live (ideal_run ideal_init h) in
  (a = ASolve -> verdict_of rs = Some (decide live_now)) /\
  (forall f, check_formula a = Some f -> verdict_of rs = Some (decide (f :: live_now))).
Proof. exact verdict_faithful. Qed.
Theorem C17_state_tracks_live_assertions : forall decide h, history_legal ideal_init 0 h = true ->
  exists s', fst (spec_exec decide s_init (snd (run_api w_init h))) = s' /\
    Inv (final h) s' (ideal_run ideal_init h) (depth_run 0 h).
Proof. exact state_tracks_ideal. Qed.

(* ---- solve / is_sat / is_valid / is_unsat return the corresponding truth ---------------- *)
Theorem C17_shortcut_truth : forall (interp : Type) (holds : interp -> form -> bool)
    (decide : list form -> bool),
  (forall fs, decide fs = true <-> exists I, sat_by interp holds I fs) ->
  (forall I f, holds I (FNot f) = negb (holds I f)) ->
  forall h a v, history_legal ideal_init 0 (h ++ [a]) = true ->
    let w := final h in
    let s := fst (spec_exec decide s_init (snd (run_api w_init h))) in
    let rs := snd (spec_exec decide s (snd (api_step w a))) in
    let live_now := ideal_live (ideal_run ideal_init h) in
    verdict_of rs = Some v ->
    match a with
    | ASolve => v = true <-> exists I, sat_by interp holds I live_now
    | AIsSat f => shortcut_result a v = true <->
                  exists I, sat_by interp holds I live_now /\ holds I f = true
    | AIsUnsat f => shortcut_result a v = true <->
                    ~ exists I, sat_by interp holds I live_now /\ holds I f = true
    | AIsValid f => shortcut_result a v = true <->
                    forall I, sat_by interp holds I live_now -> holds I f = true
    | _ => True
    end.
Proof. exact shortcut_truth. Qed.

(* ---- after sat, the model covers every symbol of the live assertions -------------------- *)
Theorem C17_model_complete_partial : forall h, history_legal ideal_init 0 h = true ->
  depth_run 0 h = 0 -> pending (final h) = false ->
  forall f x, In f (ideal_live (ideal_run ideal_init h)) -> In x (fvs f) ->
    In x (model_queries (final h)).
Proof. exact (model_complete_partial (fun _ => true)). Qed.
Theorem C17_model_complete_refuted :
  exists h f x, history_legal ideal_init 0 h = true /\
    In f (ideal_live (ideal_run ideal_init h)) /\ In x (fvs f) /\
    ~ In x (model_queries (final h)).
Proof. exact model_complete_refuted. Qed.
Theorem C17_model_complete_refuted_pending :
  history_legal ideal_init 0 model_witness_pending = true /\
  depth_run 0 model_witness_pending = 0 /\
  In X (ideal_live (ideal_run ideal_init model_witness_pending)) /\
  ~ In 0 (model_queries (final model_witness_pending)).
Proof. exact model_complete_refuted_pending. Qed.

Print Assumptions C17_stream_legal_partial.
Print Assumptions C17_stream_legal_refuted.
Print Assumptions C17_spec_scoping.
Print Assumptions C17_replies_in_sync_iff.
Print Assumptions C17_replies_in_sync_partial.
Print Assumptions C17_replies_in_sync_refuted.
Print Assumptions C17_verdict_faithful.
Print Assumptions C17_state_tracks_live_assertions.
Print Assumptions C17_shortcut_truth.
Print Assumptions C17_model_complete_partial.
Print Assumptions C17_model_complete_refuted.
