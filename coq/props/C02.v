(* C02 - Model evaluation returns the exact value of any ground-evaluable formula.
   [get_value] / [complete] / [satisfies]: hand model of EagerModel in models/EagerModel.v. *)
From Coq Require Import List ZArith Bool String.
From PySMT.core Require Import Syntax.
From PySMT.models Require Import Oracles Ctors Substituter Simplifier EagerModel.
From PySMT.proofs Require Import EagerModel_proofs.
Import ListNotations.

(* whatever get_value returns is a constant (or a constant array) *)
Theorem C02_get_value_constant : forall ora m f c v, get_value ora m f c = Some v -> is_constant v = true.
Proof. exact get_value_constant. Qed.
(* completion gives exactly the documented defaults and never overrides the model *)
Theorem C02_complete_defaults : forall syms m m', complete m syms = Some m' ->
  (forall kv, In kv m -> In kv m') /\
  (forall n t, In (n, t) syms -> assigned m (TSym n t) = false ->
     exists d, default_value t = Some d /\ assigned m' (TSym n t) = true).
Proof. exact complete_defaults. Qed.
Theorem C02_default_values : default_value TBool = Some (TBoolC false) /\ default_value TInt = Some (TIntC 0) /\
  default_value TReal = Some (TRealC 0 1) /\ (forall w, default_value (TBV w) = Some (TBVC 0 w)).
Proof. exact default_values. Qed.

Print Assumptions C02_get_value_constant.
Print Assumptions C02_complete_defaults.

(* ====================================================================================================
   Semantic clause, by composition (proofs/EagerModelSem_proofs.v):
     get_value = complete ; MGSubstituter.substitute ; simplify ; "is it a constant?"
     substitution of a model (C05 development: subst_const) + C01 simplify_sound / fold_complete + coincidence.
   FULL statement aimed at: for every formula f without quantifiers / uninterpreted functions,
   every assignment m of constants to symbols and every well-formed interpretation I that agrees
   with m and gives the other free symbols of f their documented defaults, under which no Int/Real
   division by zero is evaluated:  get_value m f returns the constant denoting eval I f.
   PROVED (the *_partial theorems below) for the common fragment [gfrag] = terms built from exactly
     Boolean:      And Or Not Implies Iff Ite Equals
     Int / Real:   Plus Times Minus LE LT Div ToReal
     bit-vectors:  bvnot bvneg bvand bvor bvxor bvadd bvsub bvmul bvudiv bvurem bvsdiv bvsrem
                   bvshl bvlshr bvashr concat bvcomp, bvult bvule bvslt bvsle, bv2nat
                   (every width > 0, every operand value: division / remainder by zero included)
     leaves:       Bool Int Real BV String constants; symbols of any inhabited first-order sort
                   (defaults exist for Bool, Int, Real and BV symbols: false, 0, 0.0, 0_w)
   with the node conditions of the ingredients: arities as the constructors guarantee (And Or
   Plus Times with >= 2 arguments), canonical Real constants with positive denominator, BV
   constants in range, BV payload widths > 0, no negation directly under a negation or as a
   divisor.  NOT covered by these four: Pow, bv extract / rotate-left / rotate-right / zero-extend /
   sign-extend, string operators, array select / store / values, quantifiers, function
   applications - the `_wide_partial` theorems further down cover all of these except Pow,
   quantifiers and function applications.
   Vocabulary: model_ok m = every entry is (symbol, constant of the symbol's sort, as the manager
   builds it); agrees I m = I gives every assigned symbol the value of its constant; defaults_on
   I m f = I gives every unassigned free symbol of f the value of default_value of its sort;
   covered m f = every free symbol of f is assigned; nodiv0 I f = no divisor in f evaluates to 0
   under I (stated on f itself; it is transferred to the substituted term inside the proof). *)
From PySMT.core Require Import Sem.
From PySMT.models Require Import TypeChecker.
From PySMT.proofs Require Import SimplifierSem_proofs SimplifierFoldComplete_proofs EagerModelSem_proofs.

Theorem C02_get_value_exact_partial : forall ora m f ty I c,
  model_ok m -> gfrag f = true -> tc f = Some ty ->
  wf_interp I -> agrees I m -> defaults_on I m f -> nodiv0 I f ->
  get_value ora m f true = Some c ->
  is_const c = true /\ tc c = Some ty /\ okt c = true /\ eval I c = eval I f.
Proof. exact get_value_exact_partial. Qed.

(* with completion, or with an assignment that covers the formula, a value IS returned *)
Theorem C02_get_value_total_partial : forall ora m f ty I (completion : bool),
  model_ok m -> gfrag f = true -> tc f = Some ty ->
  wf_interp I -> agrees I m -> defaults_on I m f -> nodiv0 I f ->
  (if completion
   then forall n t, In (n, t) (fv f) -> lookup m (TSym n t) = None -> default_value t <> None
   else covered m f) ->
  exists c, get_value ora m f completion = Some c.
Proof. exact get_value_total_partial. Qed.

(* without completion: a returned constant is the value under EVERY well-formed extension of m
   (division-safe for f in the sense of Sem.div_safe: only the branches taken count) *)
Theorem C02_get_value_partial_sound_partial : forall ora m f ty c,
  model_ok m -> gfrag f = true -> tc f = Some ty ->
  get_value ora m f false = Some c ->
  is_constant c = true /\
  forall I, wf_interp I -> agrees I m -> div_safe I f -> eval I c = eval I f.
Proof. exact get_value_partial_sound_partial. Qed.

Theorem C02_satisfies_iff_partial : forall ora m f I b,
  model_ok m -> gfrag f = true -> tc f = Some TBool ->
  wf_interp I -> agrees I m -> defaults_on I m f -> nodiv0 I f ->
  satisfies ora m f = Some b -> (b = true <-> eval I f = VBool true).
Proof. exact satisfies_iff_partial. Qed.

(* the hypotheses on the interpretation are satisfiable for EVERY model: the completed model itself *)
Theorem C02_model_interp_ok : forall m f, model_ok m ->
  wf_interp (model_interp m) /\ agrees (model_interp m) m /\ defaults_on (model_interp m) m f.
Proof.
  intros m f H. exact (conj (model_interp_wf m H) (conj (model_interp_agrees m H) (model_interp_defaults m f))).
Qed.
Theorem C02_get_value_exact_model_partial : forall ora m f ty c,
  model_ok m -> gfrag f = true -> tc f = Some ty -> nodiv0 (model_interp m) f ->
  get_value ora m f true = Some c ->
  is_const c = true /\ tc c = Some ty /\ eval (model_interp m) c = eval (model_interp m) f.
Proof. exact get_value_exact_model_partial. Qed.

(* a non-trivial instance: f = (x + z + 2 <= y) & !b & (r / q + to_real(x) = 9/2), m = {x:=3, y:=7, r:=3.0, q:=2.0} *)
Theorem C02_get_value_example :
  model_ok exm_m /\ gfrag exm_f = true /\ tc exm_f = Some TBool /\
  wf_interp (model_interp exm_m) /\ agrees (model_interp exm_m) exm_m /\
  defaults_on (model_interp exm_m) exm_m exm_f /\ nodiv0 (model_interp exm_m) exm_f /\
  get_value no_oracle exm_m exm_f true = Some TTrue /\
  get_value no_oracle exm_m exm_f false = None /\
  satisfies no_oracle exm_m exm_f = Some true.
Proof. exact get_value_example. Qed.

(* bit-vectors, width 4, partial model {u := 9}: bvslt(bvashr(bvadd(u, v), 1), bvudiv(u, z)) with
   v, z defaulted to 0: bvadd = 9, bvashr = 12 (-4), bvudiv by zero = 15 (-1), -4 <s -1 *)
Theorem C02_get_value_example_bv :
  model_ok exb_m /\ gfrag exb_f = true /\ tc exb_f = Some TBool /\
  wf_interp (model_interp exb_m) /\ agrees (model_interp exb_m) exb_m /\
  defaults_on (model_interp exb_m) exb_m exb_f /\ nodiv0 (model_interp exb_m) exb_f /\
  get_value no_oracle exb_m exb_l true = Some (TBVC 12 4) /\
  get_value no_oracle exb_m exb_r true = Some (TBVC 15 4) /\
  get_value no_oracle exb_m exb_f true = Some TTrue /\
  get_value no_oracle exb_m exb_f false = None /\
  satisfies no_oracle exb_m exb_f = Some true.
Proof. exact get_value_example_bv. Qed.

(* ---- the same clauses on a WIDER fragment (proofs/EagerModelSemWide_proofs.v): [gwfrag f] = well-formed
   (C01's okt) and every operator except Pow, function applications and quantifiers - so also every string
   operator, array select / store / values / equality (with literal array values; array-sorted SYMBOLS have no
   default and cannot be assigned a constant in a model_ok model: for them get_value raises), ToReal and all
   bit-vector operators.  Substituting the model is total there (every constructor succeeds), C05's typed
   substitution lemma gives sort and value, C01's fold_complete_wide gives the constant.  Side conditions, on f
   under I:  nodiv0 I f (as above) and  strlim I f: every str.to_int argument has at most 4300 characters and
   every str.from_int argument is below 10^4300 - CPython's int <-> str conversion limit
   (sys.get_int_max_str_digits(), modelled in core/PyPrims.v), beyond which the simplifier leaves the node
   unfolded and get_value raises.  The returned constant may be an array value: [is_constant] (Ctors). *)
From PySMT.proofs Require Import SimplifierFoldWide_proofs EagerModelSemWide_proofs.

Theorem C02_get_value_exact_wide_partial : forall ora m f ty I c,
  model_ok m -> gwfrag f = true -> tc f = Some ty ->
  wf_interp I -> agrees I m -> defaults_on I m f -> nodiv0 I f -> strlim I f ->
  get_value ora m f true = Some c ->
  is_constant c = true /\ tc c = Some ty /\ okt c = true /\ eval I c = eval I f.
Proof. exact get_value_exact_wide. Qed.

(* it DOES return the constant *)
Theorem C02_get_value_total_wide_partial : forall ora m f ty I (completion : bool),
  model_ok m -> gwfrag f = true -> tc f = Some ty ->
  wf_interp I -> agrees I m -> defaults_on I m f -> nodiv0 I f -> strlim I f ->
  (if completion
   then forall n t, In (n, t) (fv f) -> lookup m (TSym n t) = None -> default_value t <> None
   else covered m f) ->
  exists c, get_value ora m f completion = Some c /\ is_constant c = true /\ tc c = Some ty /\ eval I c = eval I f.
Proof. exact get_value_total_wide. Qed.

(* without completion: a returned constant is the value under EVERY well-formed extension of m in which no
   divisor of f evaluates to 0 *)
Theorem C02_get_value_partial_sound_wide_partial : forall ora m f ty c,
  model_ok m -> gwfrag f = true -> tc f = Some ty ->
  get_value ora m f false = Some c ->
  is_constant c = true /\
  forall I, wf_interp I -> agrees I m -> nodiv0 I f -> eval I c = eval I f.
Proof. exact get_value_partial_sound_wide. Qed.

Theorem C02_satisfies_iff_wide_partial : forall ora m f I b,
  model_ok m -> gwfrag f = true -> tc f = Some TBool ->
  wf_interp I -> agrees I m -> defaults_on I m f -> nodiv0 I f -> strlim I f ->
  satisfies ora m f = Some b -> (b = true <-> eval I f = VBool true).
Proof. exact satisfies_iff_wide. Qed.

Theorem C02_get_value_exact_model_wide_partial : forall ora m f ty c,
  model_ok m -> gwfrag f = true -> tc f = Some ty -> nodiv0 (model_interp m) f -> strlim (model_interp m) f ->
  get_value ora m f true = Some c ->
  is_constant c = true /\ tc c = Some ty /\ eval (model_interp m) c = eval (model_interp m) f.
Proof. exact get_value_exact_model_wide. Qed.

(* strings and arrays: f = str.to_int(sx ++ "2") = i + 40 & select(store(K(0)[1 := 5], k, str.len(sx)), 2) = 1 &
   str.prefixof("4", sx) & store(K(0), k, 1) = K(0)[2 := 1],  m = {sx := "4", i := 2, k := 2};
   with only sx assigned and no completion the call raises *)
Theorem C02_get_value_example_wide :
  model_ok exw_m /\ gwfrag exw_f = true /\ tc exw_f = Some TBool /\
  nodiv0 (model_interp exw_m) exw_f /\ strlim (model_interp exw_m) exw_f /\
  get_value no_oracle exw_m exw_f true = Some TTrue /\
  get_value no_oracle exw_m exw_f false = Some TTrue /\
  get_value no_oracle [(exw_sx, TStrC [52]%Z)] exw_f false = None /\
  satisfies no_oracle exw_m exw_f = Some true.
Proof. exact get_value_example_wide. Qed.

Print Assumptions C02_get_value_exact_partial.
Print Assumptions C02_get_value_total_partial.
Print Assumptions C02_get_value_partial_sound_partial.
Print Assumptions C02_satisfies_iff_partial.
Print Assumptions C02_model_interp_ok.
Print Assumptions C02_get_value_exact_model_partial.
Print Assumptions C02_get_value_example.
Print Assumptions C02_get_value_example_bv.
Print Assumptions C02_get_value_exact_wide_partial.
Print Assumptions C02_get_value_total_wide_partial.
Print Assumptions C02_get_value_partial_sound_wide_partial.
Print Assumptions C02_satisfies_iff_wide_partial.
Print Assumptions C02_get_value_exact_model_wide_partial.
Print Assumptions C02_get_value_example_wide.
