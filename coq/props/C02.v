(* C02 - Model evaluation returns the exact value of any ground-evaluable formula.
   [get_value] / [complete] / [satisfies]: hand model of EagerModel in models/EagerModel.v. *)
From Coq Require Import List ZArith Bool String.
From PySMT.core Require Import Syntax.
From PySMT.models Require Import Oracles Ctors Substituter Simplifier EagerModel.
From PySMT.proofs Require Import EagerModel_proofs.
Import ListNotations.

(* whatever get_value returns is a constant (or a constant array) *)
Theorem C02_get_value_constant : forall ora m f c v, get_value ora m f c = Some v -> is_constant v = true.
Proof. exact get_value_constant. Qed.
(* completion gives exactly the documented defaults and never overrides the model *)
Theorem C02_complete_defaults : forall syms m m', complete m syms = Some m' ->
  (forall kv, In kv m -> In kv m') /\
  (forall n t, In (n, t) syms -> assigned m (TSym n t) = false ->
     exists d, default_value t = Some d /\ assigned m' (TSym n t) = true).
Proof. exact complete_defaults. Qed.
Theorem C02_default_values : default_value TBool = Some (TBoolC false) /\ default_value TInt = Some (TIntC 0) /\
  default_value TReal = Some (TRealC 0 1) /\ (forall w, default_value (TBV w) = Some (TBVC 0 w)).
Proof. exact default_values. Qed.

Print Assumptions C02_get_value_constant.
Print Assumptions C02_complete_defaults.
