(* C18 - Optimisation returns the true optimum and restores the solver.
   Statements only; each is closed by `exact` of a lemma proved in proofs/Optimizer_proofs.v.
   The model (models/Optimizer.v) is tied to pysmt/optimization/optimizer.py by the trace
   correspondence of harness/c18.py.  `oracle_ok` = the two hypotheses on the satisfiability
   oracle (solve_sound, solve_complete); `goal_ok` = a BV objective of width w >= 1 has an
   unsigned value below 2^w.  "exists N, forall fuel >= N" = the loop terminates (the proofs use
   the measure upper - lower, resp. distance to the optimum while a bound is still missing). *)
From Coq Require Import List ZArith Bool.
From PySMT.models Require Import Optimizer.
From PySMT.proofs Require Import Optimizer_proofs.
Import ListNotations.
Open Scope Z_scope.

(* single objective (Int, signed / unsigned BV, MaxSMT after its conversion to a maximisation
   goal; MinMax / MaxMin are Min / Max goals over the encoded term), linear and binary search,
   assumption based and push/pop based: whenever the assertions are satisfiable and the optimum
   is attained, the routine terminates with a model of the assertions whose objective value is
   the optimum, the returned cost is the value of the objective term in that model, and the
   assertion stack and the backtrack points are as before. *)
Theorem C18_optimize_optimal :
  forall model base_holds tval solve, oracle_ok model base_holds tval solve ->
  forall g st md (s : solver model), goal_ok model tval g ->
  (exists mo, optimal model base_holds tval (norm_goal g) (s_asserts model s) mo) ->
  exists N m s',
    (forall fuel, (N <= fuel)%nat ->
       optimize model tval solve fuel g st md s = (ROk (Some (m, tval (g_term g) m)), s')) /\
    optimal model base_holds tval (norm_goal g) (s_asserts model s) m /\ same_stack model s s'.
Proof. exact p_optimize_optimal. Qed.
Print Assumptions C18_optimize_optimal.

(* 'no solution' exactly when the assertions are unsatisfiable *)
Theorem C18_optimize_unsat :
  forall model base_holds tval solve, oracle_ok model base_holds tval solve ->
  forall g st md (s : solver model), goal_ok model tval g ->
  (forall m, ~ sat_all model base_holds tval m (s_asserts model s)) ->
  exists s', (forall fuel, (1 <= fuel)%nat -> optimize model tval solve fuel g st md s = (ROk None, s')) /\
             same_stack model s s'.
Proof. exact p_optimize_unsat. Qed.
Print Assumptions C18_optimize_unsat.
Theorem C18_optimize_none_only_if_unsat :
  forall model base_holds tval solve, oracle_ok model base_holds tval solve ->
  forall fuel g st md (s s' : solver model), goal_ok model tval g ->
  optimize model tval solve fuel g st md s = (ROk None, s') ->
  forall m, ~ sat_all model base_holds tval m (s_asserts model s).
Proof. exact p_optimize_none_unsat. Qed.
Print Assumptions C18_optimize_none_only_if_unsat.

(* MaxSMT, integer weights: the result maximises the total weight of the satisfied clauses *)
Theorem C18_maxsmt_optimal :
  forall model base_holds tval solve, oracle_ok model base_holds tval solve ->
  forall g st md (s : solver model), goal_ok model tval g -> g_maxsmt g = true ->
  (exists mo, sat_all model base_holds tval mo (s_asserts model s) /\
              forall m', sat_all model base_holds tval m' (s_asserts model s) ->
                         tval (g_term g) m' <= tval (g_term g) mo) ->
  g_ty g = TInt ->
  exists N m s',
    (forall fuel, (N <= fuel)%nat ->
       optimize model tval solve fuel g st md s = (ROk (Some (m, tval (g_term g) m)), s')) /\
    sat_all model base_holds tval m (s_asserts model s) /\
    (forall m', sat_all model base_holds tval m' (s_asserts model s) ->
                tval (g_term g) m' <= tval (g_term g) m) /\
    same_stack model s s'.
Proof. exact p_maxsmt_optimal. Qed.
Print Assumptions C18_maxsmt_optimal.

(* stack restoration needs nothing about the oracle or the goals: every run of a driver that
   returns (a result or 'no solution') leaves assertions and backtrack points as it found them *)
Theorem C18_stack_restored_optimize :
  forall model tval solve fuel g st md (s : solver model) r s',
  optimize model tval solve fuel g st md s = (ROk r, s') -> same_stack model s s'.
Proof. exact optimize_stack. Qed.
Print Assumptions C18_stack_restored_optimize.
Theorem C18_stack_restored_boxed :
  forall model tval solve fuel gs st md (s : solver model) r s',
  boxed model tval solve fuel gs st md s = (ROk r, s') -> same_stack model s s'.
Proof. exact boxed_stack. Qed.
Print Assumptions C18_stack_restored_boxed.
Theorem C18_stack_restored_pareto :
  forall model tval solve fuel gs md (s : solver model) r s',
  pareto model tval solve fuel gs md s = (ROk r, s') -> same_stack model s s'.
Proof. exact pareto_stack. Qed.
Print Assumptions C18_stack_restored_pareto.
Theorem C18_stack_restored_lexicographic :
  forall model tval solve fuel gs st md (s : solver model) r s',
  lexicographic model tval solve fuel gs st md s = (ROk r, s') -> same_stack model s s'.
Proof. exact lex_stack_restored. Qed.
Print Assumptions C18_stack_restored_lexicographic.

(* boxed: every goal gets a model of the assertions with the optimum of that goal *)
Theorem C18_boxed_optimal :
  forall model base_holds tval solve, oracle_ok model base_holds tval solve ->
  forall gs st md (s : solver model), Forall (goal_ok model tval) gs ->
  (forall g, In g gs -> exists mo, optimal model base_holds tval (norm_goal g) (s_asserts model s) mo) ->
  exists N res s',
    (forall fuel, (N <= fuel)%nat -> boxed model tval solve fuel gs st md s = (ROk (Some res), s')) /\
    Forall2 (boxed_entry_ok model base_holds tval (s_asserts model s)) gs res /\ same_stack model s s'.
Proof. exact p_boxed_optimal. Qed.
Print Assumptions C18_boxed_optimal.
Theorem C18_boxed_unsat :
  forall model base_holds tval solve, oracle_ok model base_holds tval solve ->
  forall g gs st md (s : solver model), goal_ok model tval g ->
  (forall m, ~ sat_all model base_holds tval m (s_asserts model s)) ->
  exists s', (forall fuel, (1 <= fuel)%nat -> boxed model tval solve fuel (g :: gs) st md s = (ROk None, s')) /\
             same_stack model s s'.
Proof. exact p_boxed_unsat. Qed.
Print Assumptions C18_boxed_unsat.

(* lexicographic: whenever the assertions are satisfiable and the optimum of every stage is
   attained (stage = the assertions plus equalities fixing the earlier objectives), the routine
   terminates with the exact lexicographic optimum (optimal for goal 1; among the models with that
   value optimal for goal 2; ...), the costs are its objective values, and the stack is restored *)
Theorem C18_lexicographic_optimal :
  forall model base_holds tval solve, oracle_ok model base_holds tval solve ->
  forall gs st md (s : solver model), gs <> [] ->
  Forall (goal_ok model tval) gs -> Forall (fun g => g_maxsmt g = false) gs ->
  (forall g cd, In g gs -> (exists m, sat_all model base_holds tval m (s_asserts model s ++ cd)) ->
                exists mo, optimal model base_holds tval g (s_asserts model s ++ cd) mo) ->
  (exists m, sat_all model base_holds tval m (s_asserts model s)) ->
  exists N m s',
    (forall fuel, (N <= fuel)%nat ->
       lexicographic model tval solve fuel gs st md s =
       (ROk (Some (m, map (fun g => tval (g_term g) m) gs)), s')) /\
    lex_optimal model base_holds tval gs (s_asserts model s) m /\ same_stack model s s'.
Proof. exact p_lex_optimal. Qed.
Print Assumptions C18_lexicographic_optimal.
Theorem C18_lexicographic_unsat :
  forall model base_holds tval solve, oracle_ok model base_holds tval solve ->
  forall g gs st md (s : solver model), goal_ok model tval g -> existsb g_maxsmt (g :: gs) = false ->
  (forall m, ~ sat_all model base_holds tval m (s_asserts model s)) ->
  exists s', (forall fuel, (1 <= fuel)%nat ->
                lexicographic model tval solve fuel (g :: gs) st md s = (ROk None, s')) /\
             same_stack model s s'.
Proof. exact p_lex_unsat. Qed.
Print Assumptions C18_lexicographic_unsat.

(* MinMaxGoal / MaxMinGoal: the term built by _MaxWrap / _MinWrap (model: wrap_fuel, tied by the
   correspondence) evaluates to a greatest / least element of the component values in the order
   its `le` compares (f = identity for Int and BVULE, two's complement reading for BVSLE), so
   these goals are Min / Max goals over max / min of the components *)
Theorem C18_minmax_term_is_max : forall (f : Z -> Z) l, l <> [] ->
  exists v, wrap_fuel (length l) (max_pick (fun a b => f a <=? f b)) l = Some v /\ In v l /\
            forall x, In x l -> f x <= f v.
Proof. exact max_wrap_is_max. Qed.
Print Assumptions C18_minmax_term_is_max.
Theorem C18_maxmin_term_is_min : forall (f : Z -> Z) l, l <> [] ->
  exists v, wrap_fuel (length l) (min_pick (fun a b => f a <=? f b)) l = Some v /\ In v l /\
            forall x, In x l -> f v <= f x.
Proof. exact min_wrap_is_min. Qed.
Print Assumptions C18_maxmin_term_is_min.

(* Pareto: run to exhaustion, IF the loops end (the result is ROk, i.e. the fuel sufficed: the front
   is finite and every descent ends) the yielded list is exactly the Pareto front: each entry is a
   model of the assertions that no model dominates, with its objective values as costs; every
   Pareto-optimal model has its objective vector in the list; no vector occurs twice; and the
   stack is restored.  `_partial`: termination is a premise, not a conclusion. *)
Theorem C18_pareto_front_exact_partial :
  forall model base_holds tval solve, oracle_ok model base_holds tval solve ->
  forall fuel gs md (s : solver model) front s',
  pareto model tval solve fuel gs md s = (ROk front, s') ->
  (forall e, In e front -> pareto_opt model base_holds tval gs (s_asserts model s) (fst e) /\
                           snd e = raw_vals model tval gs (fst e)) /\
  (forall m, pareto_opt model base_holds tval gs (s_asserts model s) m ->
             exists e, In e front /\ pvec model tval gs (fst e) = pvec model tval gs m) /\
  NoDup (map (fun e => pvec model tval gs (fst e)) front) /\
  same_stack model s s'.
Proof. exact p_pareto_front_partial. Qed.
Print Assumptions C18_pareto_front_exact_partial.

(* termination with explicit fuel: if the objective values of the models of the assertions lie in
   [lo, hi], fuel_bound g lo hi = 2 + (hi - lo) + max(|lo|,|hi|) + 2 iterations for an Int objective
   (2 + 2^w + 1 for a BV objective of width w) never run out, for either strategy and either mixin *)
Theorem C18_optimize_fuel_bound :
  forall model base_holds tval solve, oracle_ok model base_holds tval solve ->
  forall g st md (s : solver model) lo hi, goal_ok model tval g ->
  (exists mo, optimal model base_holds tval (norm_goal g) (s_asserts model s) mo) ->
  (forall m', sat_all model base_holds tval m' (s_asserts model s) ->
              lo <= model_value model tval (norm_goal g) m' <= hi) ->
  exists m s',
    (forall fuel, (fuel_bound g lo hi <= fuel)%nat ->
       optimize model tval solve fuel g st md s = (ROk (Some (m, tval (g_term g) m)), s')) /\
    optimal model base_holds tval (norm_goal g) (s_asserts model s) m /\ same_stack model s s'.
Proof. exact p_optimize_fuel_bound. Qed.
Print Assumptions C18_optimize_fuel_bound.
