(* C16 - Scripts and incremental solvers track exactly the live assertions.
   Statements only; each is closed by `exact` of a lemma proved in proofs/.
   Spec: models/AssertStack.v (SMT-LIB assertion stack; legal = s_run ... = Some _, i.e. never
   pop more levels than were pushed).  Models: models/Script.v, models/TrackSolver.v. *)
From Coq Require Import List Bool.
From PySMT.models Require Import AssertStack StackPrims Script TrackSolver.
From PySMT.proofs Require Import Script_proofs TrackSolver_proofs.
Import ListNotations.

(* ---- SmtLibScript.get_last_formula(return_optimizations=True) ------------------------ *)
(* on EVERY legal command list a result is returned and it is exactly the live assertions
   and the live goals (goal objects are reported without the assert-soft id) *)
Theorem C16_script_last_formula : forall (F W : Type) (cs : list (cmd F W)) s,
  s_run s_init cs = Some s ->
  get_last_formula cs = Ok (live_assertions s, map erase (live_goals s)).
Proof. exact last_formula_live. Qed.

(* ---- SmtLibScript.get_strict_formula ------------------------------------------------- *)
(* whenever it returns (no push/pop, exactly one check-sat) the script is legal and the
   answer is exactly the live assertions *)
Theorem C16_script_strict_formula : forall (F W : Type) (cs : list (cmd F W)) l,
  get_strict_formula cs = Ok l ->
  exists s, s_run s_init cs = Some s /\ l = live_assertions s.
Proof. exact strict_formula_live. Qed.

(* ---- IncrementalTrackingSolver -------------------------------------------------------- *)
(* after any legal history (queries and reads of `assertions` anywhere in it) the solver does
   not raise and `assertions` returns exactly the live assertions *)
Theorem C16_solver_tracks_live : forall (F : Type) (fnot : F -> F) (cs : list (scmd F)) s,
  s_run s_init (map to_spec cs) = Some s ->
  exists c c', t_run fnot t_init cs = Ok c /\ assertions c = Ok (c', live_assertions s).
Proof. exact solver_tracks_live. Qed.
(* ... hence after every step of a legal history *)
Theorem C16_solver_tracks_live_every_step : forall (F : Type) (fnot : F -> F) (cs1 cs2 : list (scmd F)),
  legal (map to_spec (cs1 ++ cs2)) ->
  exists s c c', s_run s_init (map to_spec cs1) = Some s /\
                 t_run fnot t_init cs1 = Ok c /\ assertions c = Ok (c', live_assertions s).
Proof. exact solver_tracks_live_every_step. Qed.
(* one-shot queries (solve, solve under assumptions, is_sat, is_valid, is_unsat) leave the
   assertion list as they found it *)
Theorem C16_solver_oneshot_restores : forall (F : Type) (fnot : F -> F) (cs : list (scmd F)) q,
  legal (map to_spec cs) -> oneshot q = true ->
  exists c c1 a c2 c3, t_run fnot t_init cs = Ok c /\ assertions c = Ok (c1, a) /\
                       t_step fnot c q = Ok c2 /\ assertions c2 = Ok (c3, a).
Proof. exact oneshot_restores. Qed.

Print Assumptions C16_script_last_formula.
Print Assumptions C16_script_strict_formula.
Print Assumptions C16_solver_tracks_live.
Print Assumptions C16_solver_tracks_live_every_step.
Print Assumptions C16_solver_oneshot_restores.
