(* C09 - printing then parsing gives the formula back.  Statements only.
   Models: models/SmtPrinter.v (C07), models/SmtLex.v + models/SmtParser.v (C08), their composition
   models/RoundTrip.v, models/HrPrinter.v.

   FULL STATEMENT (roundtrip_tree / roundtrip_dag):
     forall t, tc t <> None -> printable_names t ->
       exists t', read_back print_tree t = Ok (ITerm t') /\ (t' = t \/ array-value case: t' is the
       store chain and forall I, eval I t' = eval I t);  the same for print_dag;
     script_roundtrip: parse (serialize cmds) = cmds up to the names of definition parameters;
     hr_roundtrip: HRParser (hr_print t) has the type and meaning of t and serialises to the same
       text up to the grouping of n-ary operators.
   Proved: BY INDUCTION on the term (no bound on size or depth), for both printers, on the fragment
   [rt] below (C09_roundtrip_tree_partial, C09_roundtrip_dag_partial); for EVERY term of two
   explicit families (complete evaluation in Coq: 16245 Core/linear-arithmetic terms with up to two
   operator levels; one term per operator of every theory with all constant notations) for both
   printers; the array-value case on its witness; hr_roundtrip_partial over an abstract parser whose
   round-trip hypothesis is what harness/c09.py tests.  The script round trip and the HR parser are
   carried by correspondence + oracle (harness/c09.py). *)
From Coq Require Import List ZArith Bool String Ascii.
From PySMT.core Require Import Syntax Sem SmtStd.
From PySMT.models Require Import TypeChecker Ctors SmtLex SmtParser SmtPrinter RoundTrip HrPrinter.
From PySMT.proofs Require Import RoundTrip_proofs Reader_proofs Numeral_proofs RoundTrip_ind RoundTrip_dag.
Import ListNotations.
Open Scope string_scope.

(* ---- the round trip through the tree printer AND the DAG printer BY INDUCTION on the term (no bound
   on size or depth).
   1. the reader's stack machine does what the recursive reading [elab] does, for every
      s-expression built from atoms, applications of table operators / function names,
      quantifiers (forall / exists with any binder list), applications of an indexed identifier
      ((_ extract i j) x) and let with any number of bindings (parallel let with the early-binding
      extension of parser.py), whatever the stack and the state (by induction on the size of the
      s-expression; e: the iterations a let reserves for the nested calls reading its bound terms);
   2. [elab] of the print-out of t returns t when every node of t satisfies the local condition
      [node_ok] (one node and its arguments: the parser's constructor for the printed head rebuilds
      the node; a symbol is declared with its sort; an Int constant's token is not a declared name);
      node_reads is the step for ONE node over arbitrary argument texts (used by both printers);
   3. hence read_back print_tree t = Ok (ITerm t), when moreover no printed token needs quoting;
   4. DAG printer: a single-binding let over a printer name .def_k is read as its body with the name
      bound (C09_let_reads; the state invariant invR says that such a name has no binding but the
      one in scope, so the let finds and leaves an empty stack); the walk of the DAG printer keeps
      the invariant that every bound text is read as its term under the lets before it and every
      memoised text under the lets so far and all later ones (RoundTrip_dag.visit_ok); hence
      read_back print_dag t = Ok (ITerm t) for the same fragment, sharing included
      (C09_roundtrip_dag_partial; side condition: no declared SORT is named .def_k - symbols named
      .def_k are avoided by the printer and covered).
   The local condition follows from typing for and, or, not, =>, <-> / = (Iff, Equals), ite, +, *, -,
   <=, <, uninterpreted functions, the non-indexed bit-vector operators and the indexed ones (extract,
   rotate_left / rotate_right, zero_extend / sign_extend; side condition: int() reads str(k) back as k,
   closed and decidable per index) (proofs/RoundTrip_ind.v, the node_ok lemmas); Int constants of any
   size are read back by Numeral_proofs.literal_numeral; bit-vector and Real constants (#b.., n.0,
   (/ n.0 d.0), (- ..)) are leaves of the fragment under local lexical hypotheses on their own tokens
   (bv_leaf_ok / real_leaf_ok: closed, proved by computation for a concrete constant - see
   C09_roundtrip_tree_constants_example).
   Not yet in the inductive ROUND TRIP (still covered by the bounded families below and by the
   correspondence): quantifiers (the machine lemma covers them; the round trip needs the binder scan
   on printed sorts and a stack invariant of the cache; the DAG printer prints a quantifier body with
   a fresh sub-printer), String constants, array values, names that need quoting. *)
Theorem C09_machine_simple : forall x, simpleb x = true ->
  forall fuel' stk s i s' rest,
    elab x s = ROk i s' -> toks s = (flatten x ++ rest)%list ->
    exists e, get_expr (cost x + fuel') stk s = after (fuel' + e) stk i s' /\ toks s' = rest.
Proof. exact machine_simple. Qed.
Print Assumptions C09_machine_simple.

Theorem C09_node_reads : forall D o args xs, node_ok D o args ->
  Forall2 (reads_as D) xs args -> Forall (fun x => simpleb x = true) xs ->
  reads_as D (term_sexp (T o args) xs) (T o args).
Proof. exact node_reads. Qed.

Theorem C09_elab_print : forall D t, rt D t ->
  forall s rest, invR D s -> toks s = (flatten (print_tree t) ++ rest)%list ->
    exists s', elab (print_tree t) s = ROk (ITerm t) s' /\ invR D s' /\ toks s' = rest.
Proof. exact elab_print. Qed.

Theorem C09_roundtrip_tree_partial : forall t,
  rt (D_of t) t -> all_plain (print_tree t) = true -> read_back print_tree t = Ok (ITerm t).
Proof. exact roundtrip_tree_partial. Qed.
Print Assumptions C09_roundtrip_tree_partial.

(* the DAG printer *)
Theorem C09_let_reads : forall D n e tau body t,
  reserved n -> SmtParser.alookup n D = None -> simpleb e = true -> simpleb body = true ->
  reads_as D e tau -> reads_as ((n, ITerm tau) :: D) body t ->
  reads_as D (let1 n e body) t.
Proof. exact let_reads. Qed.

Theorem C09_roundtrip_dag_partial : forall t,
  rt (D_of t) t -> all_plain (print_dag t) = true -> dag_names_ok t ->
  read_back print_dag t = Ok (ITerm t).
Proof. exact roundtrip_dag_partial. Qed.
Print Assumptions C09_roundtrip_dag_partial.

Theorem C09_dag_names_ok_nosorts : forall t,
  flat_map sort_binding (Oracles.get_types t) = nil -> dag_names_ok t.
Proof. exact dag_names_ok_nosorts. Qed.

(* a term whose inner node x + y occurs three times: written once, read back as the same term *)
Theorem C09_roundtrip_dag_shared_example :
  print_dag ex_shared =
    let1 ".def_0" (SList [Atom "+"; Atom "x"; Atom "y"])
    (let1 ".def_1" (SList [Atom "*"; Atom "2"; Atom ".def_0"])
    (let1 ".def_2" (SList [Atom "<="; Atom ".def_1"; Atom ".def_0"])
    (let1 ".def_3" (SList [Atom "not"; Atom ".def_2"])
    (let1 ".def_4" (SList [Atom "<="; Atom ".def_0"; Atom "7"])
    (let1 ".def_5" (SList [Atom "and"; Atom ".def_4"; Atom ".def_3"])
    (Atom ".def_5")))))) /\
  read_back print_dag ex_shared = Ok (ITerm ex_shared).
Proof. split; [exact ex_shared_text | exact ex_shared_roundtrip]. Qed.

Theorem C09_roundtrip_dag_partial_hypotheses_satisfiable :
  rt (D_of ex_term) ex_term /\ all_plain (print_dag ex_term) = true /\ dag_names_ok ex_term.
Proof.
  split; [exact (proj1 ex_term_rt)|]. split; [vm_compute; reflexivity|].
  apply dag_names_ok_nosorts. vm_compute. reflexivity.
Qed.

Theorem C09_roundtrip_tree_indexed_example : read_back print_tree ex_bv = Ok (ITerm ex_bv).
Proof. exact ex_bv_roundtrip. Qed.

Theorem C09_roundtrip_tree_constants_example : read_back print_tree ex_const = Ok (ITerm ex_const).
Proof. exact ex_const_roundtrip. Qed.

Theorem C09_roundtrip_tree_partial_hypotheses_satisfiable :
  rt (D_of ex_term) ex_term /\ all_plain (print_tree ex_term) = true.
Proof. exact ex_term_rt. Qed.

Theorem C09_literal_numeral : forall n s, (0 <= n)%Z -> logic_ia s = None ->
  literal (dec_string n) s = ROk (TIntC n) s.
Proof. exact literal_numeral. Qed.

Theorem C09_roundtrip_tree_core_bounded : forall t, In t core_family -> roundtrip_ok print_tree t = true.
Proof. exact roundtrip_tree_core_bounded. Qed.
Theorem C09_roundtrip_dag_core_bounded : forall t, In t core_family -> roundtrip_ok print_dag t = true.
Proof. exact roundtrip_dag_core_bounded. Qed.
Theorem C09_roundtrip_tree_ops : forall t, In t op_family -> roundtrip_ok print_tree t = true.
Proof. exact roundtrip_tree_ops. Qed.
Theorem C09_roundtrip_dag_ops : forall t, In t op_family -> roundtrip_ok print_dag t = true.
Proof. exact roundtrip_dag_ops. Qed.
Print Assumptions C09_roundtrip_tree_core_bounded.
Print Assumptions C09_roundtrip_dag_ops.

Theorem C09_roundtrip_ok_is_identity : forall pr t,
  roundtrip_ok pr t = true -> exists t', read_back pr t = Ok (ITerm t') /\ term_qeqb t' t = true.
Proof. exact roundtrip_ok_spec. Qed.

Theorem C09_core_family_size : List.length core_family = 16245%nat.
Proof. exact core_family_size. Qed.

Theorem C09_array_value_roundtrip :
  read_back print_tree av = Ok (ITerm av_chain) /\ read_back print_dag av = Ok (ITerm av_chain) /\
  forall I, eval I av_chain = eval I av.
Proof. exact array_value_roundtrip. Qed.
Print Assumptions C09_array_value_roundtrip.

Theorem C09_hr_roundtrip_partial :
  forall hr_parse : string -> option term,
  (forall t s, hr_print t = Some s ->
     exists t', hr_parse s = Some t' /\ tc t' = tc t /\ flat_and t' = flat_and t) ->
  forall t s I, hr_print t = Some s ->
    exists t', hr_parse s = Some t' /\ tc t' = tc t /\
               (is_and t = true -> vbool (eval I t') = vbool (eval I t)).
Proof. exact hr_roundtrip_partial. Qed.
Print Assumptions C09_hr_roundtrip_partial.

(* ---- the case analysis of the HR printer model is the dispatch of the source (gen/Operators.v, gen/Dispatch.v are
   REGENERATED from pysmt/operators.py and pysmt/printers.py on every run; qualified names only) *)
From PySMT.gen Require Operators Dispatch.
From PySMT.proofs Require Operators_proofs Dispatch_common Dispatch_hrprinter_proofs.
Theorem C09_hrprinter_dispatch_matches_source :
  (forall n, Dispatch.hrprinter_dispatch n = Dispatch_hrprinter_proofs.hr_expected n) /\
  (forall o sep a, Dispatch.hrprinter_nary_symbol (Operators.nt_of_op o) = Some sep -> hr_node o a = nary sep a).
Proof. exact (conj Dispatch_hrprinter_proofs.hrprinter_dispatch_matches_source Dispatch_hrprinter_proofs.hrprinter_separators_match_source). Qed.
Print Assumptions C09_hrprinter_dispatch_matches_source.
